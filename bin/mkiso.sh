#!/bin/bash
# mkiso.sh <name>: isolated copy of /verif and /repo under /tmp/<name> for seedtests that must not touch /repo
n=$1
mkdir -p /tmp/$n && rsync -a --delete --exclude work --exclude replays --exclude harness/target /verif/ /tmp/$n/verif/ && rm -rf /tmp/$n/repo && git clone -q /repo /tmp/$n/repo
cd /tmp/$n/verif && sed -i "s#path = \"/repo\"#path = \"/tmp/$n/repo\"#" harness/Cargo.toml && sed -i "s#/verif#/tmp/$n/verif#g; s#/repo#/tmp/$n/repo#g" bin/seedtest && sed -i "s#git -C /repo#git -C /tmp/$n/repo#g" bin/vcheck && mkdir -p work replays
[ -d /tmp/$n/verif/harness/target ] || cp -r /verif/harness/target /tmp/$n/verif/harness/target
(cd harness && cargo build --release --offline 2>&1 | tail -1)
