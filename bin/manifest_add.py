#!/usr/bin/env python3
"""manifest_add.py <Cxx> <technique> <level text> <level note> — add/replace a check entry in MANIFEST.json"""
import json, sys
pid, technique, text, note = sys.argv[1:5]
m = json.load(open('/verif/MANIFEST.json'))
m['checks'] = [c for c in m['checks'] if c['property_id'] != pid]
m['checks'].append({
    "property_id": pid,
    "quick_cmd": "bin/vcheck %s --tier quick" % pid,
    "thorough_cmd": "bin/vcheck %s --tier thorough" % pid,
    "evidence_file": "evidence/%s.json" % pid,
    "replay_cmd_template": "bin/vcheck %s --replay {path}" % pid,
    "engine": "rocq-models",
    "technique": technique,
    "level_claimed": {"category": "proof", "text": text, "design_ref": "DESIGN.md section 6 " + pid},
    "level_note": note,
})
m['checks'].sort(key=lambda c: c['property_id'])
ids = [c['property_id'] for c in m['checks']]
m['not_applicable'] = [n for n in m.get('not_applicable', []) if n['property_id'] not in ids]
for e in m['engines']:
    e['serves_properties'] = ids
json.dump(m, open('/verif/MANIFEST.json', 'w'), indent=1)
print('checks:', ids)
