"""Per-property configuration of vcheck: which streams decide it, shrinker kinds, trusted base."""

TRUSTED_BASE = [
    "Coq 8.16.1 kernel incl. vm_compute (no native_compute); coqchk re-check in the thorough tier",
    "hand-written Gallina model of the Rust code (coq/Model), tied to /repo only by the correspondence check",
    "extraction: ExtrOcamlBasic directives only (bool, option, unit, list, prod, sumbool, sumor); OCaml 4.13.1 ocamlopt",
    "oracle driver glue (oracle/conv.ml, oracle/main.ml): hex parsing, int<->N/Z conversion, Obj.magic on the 256-constructor byte type (validated at start-up)",
    "Rust harness (harness/src): generators, runners, canonicalisation; rustc 1.95.0; hooks under --cfg khttp_verif",
]

# axioms a property's theorems may depend on (Print Assumptions); '*' applies to all
AXIOM_ALLOW = {'*': []}

PROPS = {
    'C18': {
        'streams': ['date', 'datecache', 'dateresp', 'dateclock'],
        'shrink': {},
        'assumptions': [
            "i64 arithmetic modelled as unbounded Z on the stated range [0, 253402300799]",
            "the system clock is an argument (list of readings); hook H4 substitutes it in the harness",
            "thread_local! gives each thread its own cache starting at (HEADER_TEMPLATE, i64::MIN)",
        ],
    },
    'C19': {
        'streams': ['headers'],
        'shrink': {'headers': 'list;'},
        'assumptions': [
            "field names are &str in Rust, byte strings in the model; the harness generates UTF-8 names only",
            "iter_mut / IntoIterator for &mut Headers (mutation behind the cache) are outside the operation set of the property",
        ],
    },
    'C20': {
        'streams': ['memory', 'connpipe'],
        'shrink': {},
        'assumptions': [
            "PARTIAL: the theorems bound a ledger of buffered bytes defined from the models' intermediate values; the allocator itself (Vec growth policy, BufReader/BufWriter capacities, stack vs heap placement) is outside the model and is measured by a counting global allocator",
            "the measured bound is the ledger's heap part: head Vec + at most twice PROBE_MAX for the collected Vec (amortised doubling) + BufWriter; BufReader + one framing line on the request side",
            "lengths are sampled (1 KiB .. 64 MiB quick, .. 1 GiB thorough); the unbounded claim is the theorem's, about the model",
        ],
    },
    'C11': {
        'streams': ['router'],
        'shrink': {},
        'assumptions': [
            "theorems cover route tables whose '**' segments are trailing (wf_table); other tables are covered by the correspondence stream only",
            "the literal fast path (sort_unstable_by + binary_search_by_key) is modelled explicitly in Model/BinSearch.v - core's binary search loop with fuel, sorting as 'any strictly sorted permutation' - and proved equal to the lookup the other theorems use (C11_binary_search_*); assumed: sort_unstable_by returns a sorted permutation, <[u8]>::cmp is the bytewise lexicographic order; HashMap<String,_> = finite map keyed by the exact method name",
            "route/path strings are &str in Rust, byte strings in the model; '/' is ASCII so splitting commutes with UTF-8",
        ],
    },
    'C12': {
        'streams': ['router'],
        'shrink': {},
        'assumptions': [
            "same model and stream as C11; the harness dumps the complete parameter vector (not only expected keys), and fails if the fallback carries parameters",
        ],
    },
    'C01': {
        'streams': ['parse', 'grammar', 'prefixsafe', 'swar'],
        'shrink': {'parse': 'hex', 'prefixsafe': 'hex', 'swar': 'hex'},
        'assumptions': [
            "checked-semantics model: every index/slice/usize subtraction/from_utf8_unchecked/read_unaligned site of the parser is a Fault in the model where Rust would panic, read out of bounds or build a non-ASCII &str; C01_total says no input reaches one",
            "memory safety of the real code is observed, not proved: each input is parsed flush against PROT_NONE guard pages on both sides, under catch_unwind, and every returned &str is re-validated",
            "little-endian 64-bit target (asserted by the harness); memchr modelled as find_index",
        ],
    },
    'C02': {
        'streams': ['grammar', 'readloop'],
        'shrink': {},
        'assumptions': [
            "the grammar is rfc_head (Spec/HttpGrammar.v): alphabetic method, RFC 3986 character classes per target form, token names, OWS, field values without CR/LF; Content-Length fields must be valid and agree (cl_consistent), otherwise RFC 9112 6.3 makes the head invalid",
        ],
    },
    'C03': {
        'streams': ['prefix', 'readloop', 'clientread', 'segpair', 'connpipe', 'modes03'],
        'shrink': {'prefix': 'hex'},
        'assumptions': [
            "error kinds other than 'incomplete' are one class (the server answers 400 to all of them)",
            "the server's and client's read loops re-parse the whole prefix after each read (modelled by reparse); the size limit is C10's concern",
        ],
    },
    'C04': {
        'streams': ['parse'],
        'shrink': {'parse': 'hex'},
        'assumptions': [
            "strict_head allows any byte except LF inside a field value (the property constrains line structure, names, method and target, not value bytes); the reported value has leading ASCII whitespace removed",
        ],
    },
    'C06': {
        'streams': ['body', 'clientread', 'connpipe'],
        'shrink': {},
        'assumptions': [
            "std::io::BufReader (capacity 4096: refill only when empty, bypass for reads >= capacity on an empty buffer, read_exact, read_line = read_until + UTF-8 check) is modelled, not verified; pinned by this stream",
            "the stream delivers at least one byte per read until EOF; it never fails (Model/Body.v) or fails with ErrorKind::Interrupted at arbitrary points (Model/BodyIntr.v, C06_intr_*); failures std does not retry (timeouts) are in Model/BodyFail.v (C07_located_is_right_*), compared call by call through the timed-out histories; what a caller that swallowed such an error is given afterwards is not judged by the property; the theorems quantify over leftover|stream split, segmentation, placement of interruptions and positive buffer sizes",
            "zero-length caller buffers are outside the theorems (FixedReader::read(&mut []) reports truncation on a non-empty remaining body)",
        ],
    },
    'C10': {
        'streams': ['conn10', 'modes10', 'connpipe'],
        'shrink': {},
        'assumptions': [
            "the inbound TCP stream is a list of segments; a read returns at most one segment (the harness delivers a segment only when the server thread is blocked and has consumed the previous one)",
            "'never buffers more than N bytes' is proved on the model (C10_buffer_bound); on the code only its consequences (431 exactly at N) are observed",
        ],
    },
    'C09': {
        'streams': ['conn09', 'modes09', 'connpipe'],
        'shrink': {},
        'assumptions': [
            "handlers are the harness application (respond / respond with close / Err / respond then Err / read body); the pre-routing hook answers or proceeds",
            "socket timeouts are not modelled",
            "serve_epoll's own keep-alive decision (EpollJob::run) is tied by the modes09 stream: the same single-connection histories against serve, serve_threaded and serve_epoll on real listeners, time-paced",
        ],
    },
    'C05': {
        'streams': ['conn05', 'connpipe'],
        'shrink': {},
        'assumptions': [
            "the RFC 9112 6.3 decision is rfc_framing (Spec/Framing.v) over the raw field lines; a lock-step client sends exactly the body its own framing announces",
            "as C10 for the connection driver",
        ],
    },
    'C08': {
        'streams': ['printer'],
        'shrink': {},
        'assumptions': [
            "BufWriter / write_all deliver bytes in order; a writer accepts a prefix of each write (scripted in the harness, a parameter in the model)",
            "a body reader is the list of pieces its reads deliver; the Date line is a parameter (the harness pins the clock with hook H4)",
            "probe_body's exact read sizes (Vec growth) are not modelled: model and implementation are compared through the decoder, which is what the property observes",
            "status codes 100..999, reasons / header names / values without CR LF, values without outer whitespace, at most one Transfer-Encoding field (chunked) and one Content-Length field",
        ],
    },
    'C13': {
        'streams': ['pool', 'poolsrv'],
        'shrink': {},
        'assumptions': [
            "partial: the theorems cover every interleaving of the MODEL (mpsc channel = FIFO queue received from under the mutex; Mutex, thread::spawn/join as usual); the code is tied to it by acceptance of recorded event traces of real runs - OS schedules are sampled, not enumerated",
            "jobs terminate (or, for C13_parallel, a set of fewer than n jobs never does)",
            "logging discipline (release-type events logged before, acquire-type after the operation) makes every real log a linearisation of a model run",
        ],
    },
    'C07': {
        'streams': ['conn07', 'connpipe'],
        'shrink': {},
        'assumptions': [
            "a connection's inbound stream is a list of non-empty segments; a read returns at most one segment; lock-step histories = no segment carries bytes of two requests (Spec/ConnKnown.v lockstep)",
            "the interleaving 'next request arrives while the unread body of an answered request is being discarded' is produced deterministically with a barrier inside the harness handler (/hold) and appears in the model as one merged segment",
            "handlers are the harness application; read_to_end is modelled with 8192-byte reads (the data delivered does not depend on read sizes, C06)",
            "findings F20c (7fa128d: bytes read beyond a body are carried over to the next request) and F21 (dc753b5: close when the rest of a body could not be discarded) are repaired: C07_transcript_any holds for EVERY segmentation (pipelined requests included), C07_transcript (lock-step) is its corollary; a handler that reads PART of an unreadable body is `no demand` (body_unspecified_for)",
        ],
    },
    'C16': {
        'streams': ['modes'],
        'shrink': {},
        'assumptions': [
            "partial: the accept loops are modelled above the per-connection functions (Model/Modes.v); connections are independent (no more open connections than workers); thread scheduling inside a mode is covered for epoll by C14/C15",
            "repaired finding F28 (bad9a95): after StopAccepting serve_epoll goes on serving the connections it has taken on and returns when they have ended; histories with connections kept open across the stop check exactly that",
        ],
    },
    'C17': {
        'streams': ['modes'],
        'shrink': {},
        'assumptions': [
            "socket timeouts are outside the model; histories use none",
            "as C16",
        ],
    },
    'C14': {
        'streams': ['epoll'],
        'shrink': {},
        'assumptions': [
            "partial: the theorems cover every interleaving of the MODEL (kernel epoll as interest set + level-triggered readiness, acquire/release atomics as atomic steps, the pool as 'a queued job eventually starts'); the code is tied to it by acceptance of recorded event logs of real runs - schedules are sampled",
            "logging discipline and the normalisations of oracle/epoll_o.ml (DEL takes effect between its log entry and the stream drop; a release store may take effect after a later load of the loop)",
            "liveness ('eventually dispatched') is proved as: never stuck behind in_flight without a job + the Wait/dispatch steps are enabled; on the code a 5 s client timeout stands in for 'eventually'",
        ],
    },
    'C15': {
        'streams': ['epoll'],
        'shrink': {},
        'assumptions': [
            "as C14; memory safety of the raw pointers is proved as 'every enabled step of every reachable model state satisfies its safety obligation' and observed on the code through the replay of real logs",
            "repaired finding F25 (deb6e4a): workers hand the records of closed connections back to the loop (graveyard), which frees them after each batch and at least once a second; C15_no_leak / C15_ended_reclaimed; every run checks accepted = freed against the allocator",
        ],
    },
}
