//! Connection-level driver: one real `khttp::Server::handle(&TcpStream)` on a loopback socket pair,
//! driven by a deterministic client script.
//!
//! case:  `N=<max_head>;<step>;<step>;...`  with steps
//!     D<hex>   deliver these bytes as one TCP segment, once the server is quiescent (its thread is
//!              asleep and has consumed everything sent so far, or it is held at the handler barrier)
//!     R        read one response (lock-step point), 3 s timeout
//!     G        release a handler that is held at the barrier (`/hold` routes)
//!     X        shut down the client's sending side (the server sees EOF)
//!     P<ms>    pause (only with the setting `,T<ms>` = a read timeout on the server's socket, and longer than it: the read the
//!              server is blocked in fails with a timeout; to the server that is an unreadable stream, as an EOF there would be)
//! impl:  one entry per R: `<status>,<hex body>,<c|k>` (c = response carried connection: close) or
//!        `TIMEOUT` / `CLOSED`; then `|EOF` or `|OPEN` (state of the connection when the script ends)
//!        and `|ok` / `|err` (result of Server::handle).
//!
//! The test application (shared with the Coq model through the request path):
//!   /all[...]   read the whole body, then 200 with `<METHOD> <path> <query|-> <hex body>`
//!   /k/<n>      read up to n body bytes, then respond
//!   /none       respond without reading the body          /first   respond, then read the body
//!   /hold       respond, then wait at the barrier (G), then return without reading
//!   /slow/<ms>  respond, then stay in the handler for <ms> milliseconds, then return without reading
//!   /err        return Err without responding              /errafter respond, then return Err
//!   /close      respond with `connection: close`      /closer  the same on a streamed response (okr)
//!   /closeka    streamed response (sendr) whose Connection field is the list `keep-alive, Close`
//!   /errk/<k>   return Err of io::ErrorKind k (wb, to, intr, pipe, eof, reset, other) without responding
//!   /cont       send 100 Continue, read the body, respond (differential use only)
//!   /reader/<n> respond with an n-byte body through the streaming printer (sendr)
//!   /alll = /all and /firstl = /first through the BufRead face of the body reader (read_until)
//!   API variants with the behaviour of an existing route: /allparts (into_parts, get_stream), /allvec (BodyReader::vec, send) = /all;
//!   /closev (Headers::from(Vec)), /closes (Headers::from(slice)) = /close; /empty0 = /none with an empty body through ok0 / send0
//! pre-routing hook: `x-hook: answer` -> the hook answers 200 "hook" and returns Drop;
//!                   `x-hook: answer-close` -> same with connection: close.
use crate::util::*;
use khttp::{Headers, PreRoutingAction, RequestContext, ResponseHandle, Server, Status};
use std::io::{self, Read, Write};
use std::net::{TcpListener, TcpStream};
use std::os::unix::io::AsRawFd;
use std::sync::atomic::{AtomicBool, AtomicI32, Ordering};
use std::time::{Duration, Instant};

pub static HELD: AtomicBool = AtomicBool::new(false);
pub static GO: AtomicBool = AtomicBool::new(false);
pub static MEET: std::sync::atomic::AtomicUsize = std::sync::atomic::AtomicUsize::new(0);
pub static MEETB: std::sync::atomic::AtomicUsize = std::sync::atomic::AtomicUsize::new(0);

fn describe(ctx: &RequestContext, body: &[u8]) -> Vec<u8> {
    format!("{} {} {} {}", ctx.method.as_str(), ctx.uri.path(), ctx.uri.query().unwrap_or("-"), hex(body)).into_bytes()
}

pub fn app(mut ctx: RequestContext, res: &mut ResponseHandle) -> io::Result<()> {
    let path = ctx.uri.path().to_string();
    let nd = Headers::new_nodate();
    if path.starts_with("/allparts") {
        // the same as /all through RequestContext::into_parts (and get_stream)
        let _ = ctx.get_stream().peer_addr();
        let (method, uri, _headers, params, _version, mut body) = ctx.into_parts();
        let mut b = Vec::new();
        body.read_to_end(&mut b)?;
        let d = format!("{} {} {} {}", method.as_str(), uri.path(), uri.query().unwrap_or("-"), hex(&b)).into_bytes();
        let _ = params.len();
        res.ok(&nd, d)
    } else if path.starts_with("/allvec") {
        // the same as /all through BodyReader::vec
        let b = ctx.body().vec()?;
        let d = describe(&ctx, &b);
        res.send(&Status::OK, &nd, d)
    } else if path.starts_with("/alll") {
        // the same as /all through the BufRead face (read_until): an error ends the handler with Err
        use std::io::BufRead;
        let mut b = Vec::new();
        loop { if ctx.body().read_until(b'\n', &mut b)? == 0 { break; } }
        let d = describe(&ctx, &b);
        res.ok(&nd, d)
    } else if path.starts_with("/all") {
        let mut b = Vec::new();
        ctx.body().read_to_end(&mut b)?;
        let d = describe(&ctx, &b);
        res.ok(&nd, d)
    } else if let Some(n) = path.strip_prefix("/k/") {
        let n: usize = n.parse().unwrap_or(0);
        let mut b = vec![0u8; n];
        let mut got = 0;
        while got < n {
            match ctx.body().read(&mut b[got..])? {
                0 => break,
                k => got += k,
            }
        }
        let d = describe(&ctx, &b[..got]);
        res.ok(&nd, d)
    } else if path.starts_with("/firstl") {
        // the same as /first through the BufRead face: respond, then read the body line by line; an error is swallowed
        use std::io::BufRead;
        let d = describe(&ctx, b"");
        res.ok(&nd, d)?;
        let mut b = Vec::new();
        loop { match ctx.body().read_until(b'\n', &mut b) { Ok(0) | Err(_) => break, Ok(_) => {} } }
        Ok(())
    } else if path.starts_with("/first") {
        let d = describe(&ctx, b"");
        res.ok(&nd, d)?;
        let mut b = Vec::new();
        let _ = ctx.body().read_to_end(&mut b);
        Ok(())
    } else if path.starts_with("/hold") {
        let d = describe(&ctx, b"");
        res.ok(&nd, d)?;
        HELD.store(true, Ordering::SeqCst);
        let t0 = Instant::now();
        while !GO.load(Ordering::SeqCst) && t0.elapsed() < Duration::from_secs(5) {
            std::thread::sleep(Duration::from_micros(50));
        }
        GO.store(false, Ordering::SeqCst);
        HELD.store(false, Ordering::SeqCst);
        Ok(())
    } else if let Some(ms) = path.strip_prefix("/slow/") {
        // respond, stay in the handler for a while (the connection is "in flight"), return without reading
        let d = describe(&ctx, b"");
        res.ok(&nd, d)?;
        std::thread::sleep(Duration::from_millis(ms.parse().unwrap_or(1)));
        Ok(())
    } else if let Some(k) = path.strip_prefix("/meetb/") {
        // the same rendezvous on its own counter (used by the idle-gap history of `poolsrv`, which runs beside the others)
        let k: usize = k.parse().unwrap_or(1);
        MEETB.fetch_add(1, Ordering::SeqCst);
        let t0 = Instant::now();
        while MEETB.load(Ordering::SeqCst) < k && t0.elapsed() < Duration::from_secs(2) { std::thread::sleep(Duration::from_micros(200)); }
        let met = MEETB.load(Ordering::SeqCst) >= k;
        res.send(&Status::of(if met { 200 } else { 503 }), &nd, if met { &b"met"[..] } else { &b"alone"[..] })
    } else if let Some(k) = path.strip_prefix("/meet/") {
        // rendezvous: answers 200 once k handlers are inside this branch at the same time (503 after 2 s alone)
        let k: usize = k.parse().unwrap_or(1);
        MEET.fetch_add(1, Ordering::SeqCst);
        let t0 = Instant::now();
        while MEET.load(Ordering::SeqCst) < k && t0.elapsed() < Duration::from_secs(2) { std::thread::sleep(Duration::from_micros(200)); }
        let met = MEET.load(Ordering::SeqCst) >= k;
        res.send(&Status::of(if met { 200 } else { 503 }), &nd, if met { &b"met"[..] } else { &b"alone"[..] })
    } else if let Some(kind) = path.strip_prefix("/errk/") {
        // a handler error of a particular io::ErrorKind (the kind must not matter: the connection is closed)
        use io::ErrorKind::*;
        let k = match kind { "wb" => WouldBlock, "to" => TimedOut, "intr" => Interrupted, "pipe" => BrokenPipe, "eof" => UnexpectedEof, "reset" => ConnectionReset, _ => Other };
        Err(io::Error::new(k, "handler failed"))
    } else if path.starts_with("/closev") {
        // the close token in a header collection built with From<Vec<..>>
        use std::borrow::Cow;
        let h: Headers = Headers::from(vec![(Cow::Borrowed("x-a"), Cow::Borrowed(&b"1"[..])), (Cow::Borrowed("Connection"), Cow::Borrowed(&b"close"[..]))]);
        let d = describe(&ctx, b"");
        res.send(&Status::of(200), &h, d)
    } else if path.starts_with("/closes") {
        // the close token in a header collection built with From<&[(&str, &[u8])]>
        let fields: [(&str, &[u8]); 2] = [("connection", b"Close"), ("x-b", b"2")];
        let h: Headers = Headers::from(&fields[..]);
        let d = describe(&ctx, b"");
        res.ok(&h, d)
    } else if let Some(ms) = path.strip_prefix("/sleepthen0/") {
        // stay in the handler first, then a body-less answer (used by the warm-up connection whose peer has reset by then)
        std::thread::sleep(Duration::from_millis(ms.parse().unwrap_or(1)));
        res.ok0(&nd)
    } else if path.starts_with("/empty0") {
        // a body-less answer through ok0 / send0 (alternating)
        static FLIP: AtomicBool = AtomicBool::new(false);
        if FLIP.fetch_xor(true, Ordering::SeqCst) { res.ok0(&nd) } else { res.send0(&Status::OK, &nd) }
    } else if path.starts_with("/closerep") {
        // the close token put in place by replace() over an existing Connection field
        let mut h = Headers::new_nodate();
        h.add("connection", &b"keep-alive"[..]);
        h.replace("Connection", &b"close"[..]);
        let d = describe(&ctx, b"");
        res.ok(&h, d)
    } else if path.starts_with("/closer") {
        // the close token on a streamed (reader) response
        let mut h = Headers::new_nodate();
        h.set_connection_close();
        let d = describe(&ctx, b"");
        res.okr(&h, &d[..])
    } else if path.starts_with("/closeka") {
        // the close token as one member of a list, on a streamed response with an explicit status
        let mut h = Headers::new_nodate();
        h.add("connection", &b"keep-alive, Close"[..]);
        let d = describe(&ctx, b"");
        res.sendr(&Status::of(200), &h, &d[..])
    } else if path.starts_with("/cont") {
        // interim response, then the body, then the final response (not in the Coq application model:
        // used only where implementations are compared with each other)
        res.send_100_continue()?;
        let mut b = Vec::new();
        ctx.body().read_to_end(&mut b)?;
        let d = describe(&ctx, &b);
        res.ok(&nd, d)
    } else if path.starts_with("/errafter") {
        let d = describe(&ctx, b"");
        res.ok(&nd, d)?;
        Err(io::Error::new(io::ErrorKind::Other, "handler failed"))
    } else if path.starts_with("/err") {
        Err(io::Error::new(io::ErrorKind::Other, "handler failed"))
    } else if path.starts_with("/close") {
        let mut h = Headers::new_nodate();
        h.set_connection_close();
        let d = describe(&ctx, b"");
        res.ok(&h, d)
    } else if let Some(n) = path.strip_prefix("/reader/") {
        let n: usize = n.parse().unwrap_or(0);
        let body: Vec<u8> = (0..n).map(|i| b'a' + (i % 26) as u8).collect();
        res.okr(&nd, &body[..])
    } else {
        // "/none" and everything else: respond without touching the body
        let d = describe(&ctx, b"");
        res.send(&Status::of(if path.starts_with("/none") { 200 } else { 404 }), &nd, d)
    }
}

pub fn build_server(max_head: usize) -> Server {
    let mut b = Server::builder("127.0.0.1:0").unwrap();
    // the other numeric settings are given values different from the head limit, before and after it:
    // the limit in force must be the one passed to max_request_head_size, whatever else is configured
    b.thread_count(max_head % 5 + 2);
    b.epoll_queue_max_events(max_head + 1000);
    b.max_request_head_size(max_head);
    b.epoll_queue_max_events(if max_head > 100 { max_head / 2 } else { max_head + 333 });
    b.thread_count(max_head % 3 + 1);
    b.fallback_route(app);
    b.pre_routing_hook(|req, res| {
        match req.headers.get("x-hook") {
            Some(b"answer") => {
                let _ = res.ok(&Headers::new_nodate(), b"hook");
                PreRoutingAction::Drop
            }
            Some(b"answer-close") => {
                let mut h = Headers::new_nodate();
                h.set_connection_close();
                let _ = res.ok(&h, b"hook");
                PreRoutingAction::Drop
            }
            _ => PreRoutingAction::Proceed,
        }
    });
    b.build()
}

/// state of a thread of this process: 'R' running, 'S' sleeping, ... ('?' if gone)
fn thread_state(tid: i32) -> char {
    match std::fs::read_to_string(format!("/proc/self/task/{tid}/stat")) {
        Ok(s) => s.rsplit(')').next().and_then(|r| r.trim_start().chars().next()).unwrap_or('?'),
        Err(_) => '?',
    }
}

fn unread(fd: i32) -> i32 {
    let mut n: libc::c_int = 0;
    unsafe { libc::ioctl(fd, libc::FIONREAD, &mut n) };
    n
}

pub struct Conn {
    pub client: TcpStream,
    server_fd: i32,
    tid: std::sync::Arc<AtomicI32>,
    handle: Option<std::thread::JoinHandle<io::Result<()>>>,
    rbuf: Vec<u8>,
}

pub enum Quiet { Blocked, Finished, Held, Timeout }

impl Conn {
    pub fn start(max_head: usize) -> Conn { Conn::start_warm(max_head, None) }

    /// `warm` = a connection served on the SAME thread beforehand by another server with the given head limit:
    /// ('o', limit): a plain exchange; ('r', limit): the peer resets the connection while the handler sleeps, so that the
    /// handler's body-less answer cannot be written (whatever a thread keeps from one connection to the next must not show)
    pub fn start_warm(max_head: usize, warm: Option<(char, usize)>) -> Conn { Conn::start_full(max_head, warm, None) }

    /// `timeout` = a read timeout (ms) on the server's side of the connection
    pub fn start_full(max_head: usize, warm: Option<(char, usize)>, timeout: Option<u64>) -> Conn {
        let listener = TcpListener::bind("127.0.0.1:0").unwrap();
        let addr = listener.local_addr().unwrap();
        let client = TcpStream::connect(addr).unwrap();
        client.set_nodelay(true).unwrap();
        let (srv, _) = listener.accept().unwrap();
        srv.set_nodelay(true).unwrap();
        if let Some(ms) = timeout { srv.set_read_timeout(Some(Duration::from_millis(ms))).unwrap(); }
        let server_fd = srv.as_raw_fd();
        let tid = std::sync::Arc::new(AtomicI32::new(0));
        let tid2 = tid.clone();
        HELD.store(false, Ordering::SeqCst);
        GO.store(false, Ordering::SeqCst);
        let handle = std::thread::spawn(move || {
            if let Some((kind, lim)) = warm {
                let l = TcpListener::bind("127.0.0.1:0").unwrap();
                let a = l.local_addr().unwrap();
                let ch = std::thread::spawn(move || {
                    let mut c = match TcpStream::connect(a) { Ok(c) => c, Err(_) => return };
                    if kind == 'o' {
                        let _ = c.write_all(b"GET /none HTTP/1.1\r\nConnection: close\r\n\r\n");
                        let mut v = Vec::new(); c.set_read_timeout(Some(Duration::from_secs(2))).ok(); let _ = c.read_to_end(&mut v);
                    } else {
                        let _ = c.write_all(b"GET /sleepthen0/30 HTTP/1.1\r\n\r\n");
                        std::thread::sleep(Duration::from_millis(5));
                        let lg = libc::linger { l_onoff: 1, l_linger: 0 };
                        unsafe { libc::setsockopt(c.as_raw_fd(), libc::SOL_SOCKET, libc::SO_LINGER, &lg as *const _ as *const libc::c_void, std::mem::size_of::<libc::linger>() as libc::socklen_t); }
                        drop(c);
                    }
                });
                if let Ok((s2, _)) = l.accept() {
                    let server2 = build_server(lim);
                    let _ = std::panic::catch_unwind(std::panic::AssertUnwindSafe(|| server2.handle(&s2)));
                }
                let _ = ch.join();
            }
            tid2.store(unsafe { libc::syscall(libc::SYS_gettid) } as i32, Ordering::SeqCst);
            let server = build_server(max_head);
            let r = std::panic::catch_unwind(std::panic::AssertUnwindSafe(|| server.handle(&srv)));
            // srv is dropped (closed) here
            match r { Ok(r) => r, Err(_) => Err(io::Error::new(io::ErrorKind::Other, "PANIC")) }
        });
        while tid.load(Ordering::SeqCst) == 0 { std::thread::yield_now(); }
        Conn { client, server_fd, tid, handle: Some(handle), rbuf: Vec::new() }
    }

    /// wait until the server thread can make no progress without us
    pub fn quiescent(&self) -> Quiet {
        let t0 = Instant::now();
        let tid = self.tid.load(Ordering::SeqCst);
        let mut streak = 0;
        loop {
            if self.handle.as_ref().map(|h| h.is_finished()).unwrap_or(true) { return Quiet::Finished; }
            if HELD.load(Ordering::SeqCst) { return Quiet::Held; }
            if thread_state(tid) == 'S' && unread(self.server_fd) == 0 {
                streak += 1;
                if streak >= 3 { return Quiet::Blocked; }
            } else {
                streak = 0;
            }
            if t0.elapsed() > Duration::from_secs(3) { return Quiet::Timeout; }
            std::thread::yield_now();
        }
    }

    pub fn deliver(&mut self, bytes: &[u8]) {
        match self.quiescent() {
            Quiet::Finished => return, // the server has closed: nothing to deliver to
            _ => {}
        }
        let _ = self.client.write_all(bytes);
    }

    /// read one HTTP response: (status, body, close-header) or a failure word
    pub fn read_response(&mut self) -> String {
        self.client.set_read_timeout(Some(Duration::from_millis(3000))).unwrap();
        let mut tmp = [0u8; 65536];
        loop {
            if let Some((used, s)) = parse_response(&self.rbuf) {
                self.rbuf.drain(..used);
                return s;
            }
            // nothing to read and the server is blocked waiting for input: no response will come
            if unread(self.client.as_raw_fd()) == 0 {
                if let Quiet::Blocked = self.quiescent() {
                    if unread(self.client.as_raw_fd()) == 0 { return "TIMEOUT".into(); }
                }
            }
            match self.client.read(&mut tmp) {
                Ok(0) => return "CLOSED".into(),
                Ok(n) => self.rbuf.extend_from_slice(&tmp[..n]),
                Err(e) if e.kind() == io::ErrorKind::WouldBlock || e.kind() == io::ErrorKind::TimedOut => return "TIMEOUT".into(),
                Err(_) => return "CLOSED".into(),
            }
        }
    }

    pub fn finish(mut self) -> String {
        // is the connection still open once the server has nothing more to do?
        let st = match self.quiescent() { Quiet::Finished => "EOF", Quiet::Blocked => "OPEN", Quiet::Held => "HELD", Quiet::Timeout => "BUSY" };
        let extra = if !self.rbuf.is_empty() { format!("+{}", hex(&self.rbuf)) } else { String::new() };
        GO.store(true, Ordering::SeqCst);
        let _ = self.client.shutdown(std::net::Shutdown::Both);
        let r = self.handle.take().unwrap().join();
        GO.store(false, Ordering::SeqCst);
        let res = match r { Ok(Ok(())) => "ok", Ok(Err(e)) if e.to_string() == "PANIC" => "PANIC", Ok(Err(_)) => "err", Err(_) => "PANIC" };
        format!("|{st}{extra}|{res}")
    }
}

/// minimal response parser of the harness: Some((bytes used, "<status>,<hex body>,<c|k>"))
pub fn parse_response(buf: &[u8]) -> Option<(usize, String)> {
    let he = buf.windows(4).position(|w| w == b"\r\n\r\n")? + 4;
    let head = &buf[..he];
    let text = String::from_utf8_lossy(head).to_string();
    let mut lines = text.split("\r\n");
    let status_line = lines.next()?;
    let status = status_line.split(' ').nth(1).unwrap_or("???").to_string();
    let (mut cl, mut chunked, mut close) = (None::<usize>, false, false);
    for l in lines {
        let ll = l.to_ascii_lowercase();
        if let Some(v) = ll.strip_prefix("content-length:") { cl = v.trim().parse().ok(); }
        if ll.starts_with("transfer-encoding:") && ll.contains("chunked") { chunked = true; }
        if ll.starts_with("connection:") && ll.contains("close") { close = true; }
    }
    let c = if close { "c" } else { "k" };
    if chunked {
        let mut i = he;
        let mut body = Vec::new();
        loop {
            let le = buf[i..].windows(2).position(|w| w == b"\r\n")? + i;
            let sz = usize::from_str_radix(std::str::from_utf8(&buf[i..le]).ok()?.split(';').next()?.trim(), 16).ok()?;
            i = le + 2;
            if sz == 0 {
                let te = buf[i..].windows(2).position(|w| w == b"\r\n")? + i;
                if te != i { return None; } // trailers: not produced by khttp
                return Some((te + 2, format!("{status},{},{c}", hex(&body))));
            }
            if buf.len() < i + sz + 2 { return None; }
            body.extend_from_slice(&buf[i..i + sz]);
            i += sz + 2;
        }
    } else {
        let n = cl.unwrap_or(0);
        if buf.len() < he + n { return None; }
        Some((he + n, format!("{status},{},{c}", hex(&buf[he..he + n]))))
    }
}

pub fn run(case: &str) -> String {
    crate::util::note_current(case);
    let mut steps = case.split(';');
    // `N=<limit>` or `N=<limit>,W<o|r><limit of the warm-up server>`
    let ntok = steps.next().unwrap().strip_prefix("N=").unwrap();
    let mut toks = ntok.split(',');
    let n: usize = toks.next().unwrap().parse().unwrap();
    let (mut warm, mut timeout): (Option<(char, usize)>, Option<u64>) = (None, None);
    for t in toks {
        match &t[..1] {
            "W" => warm = Some((t[1..].chars().next().unwrap(), t[2..].parse().unwrap())),
            "T" => timeout = Some(t[1..].parse().unwrap()),
            _ => panic!("bad setting"),
        }
    }
    let mut conn = Conn::start_full(n, warm, timeout);
    let mut outs: Vec<String> = Vec::new();
    for st in steps {
        if st.is_empty() { continue; }
        match &st[..1] {
            "D" => conn.deliver(&unhex(&st[1..])),
            "R" => outs.push(conn.read_response()),
            "G" => { if let Quiet::Held = conn.quiescent() { GO.store(true, Ordering::SeqCst); while HELD.load(Ordering::SeqCst) { std::thread::yield_now(); } } }
            "P" => std::thread::sleep(Duration::from_millis(st[1..].parse().unwrap())),
            "X" => { let _ = conn.quiescent(); let _ = conn.client.shutdown(std::net::Shutdown::Write); }
            _ => panic!("bad step"),
        }
    }
    let tail = conn.finish();
    format!("{}{}", outs.join(";"), tail)
}

// ---------------------------------------------------------------------------------------------
// stream `readloop` (C03 at connection level): the same request bytes under many segmentations
// case:  `<hex bytes> <cut,cut,..>|<cut,..>|...`   (each cut list = one segmentation; the client half-closes after sending)
// impl:  the transcript of each segmentation joined by '#'
pub fn run_readloop(case: &str) -> String {
    crate::util::note_current(case);
    let (h, segs) = case.split_once(' ').unwrap();
    let bytes = unhex(h);
    let mut outs = Vec::new();
    for cuts in segs.split('|') {
        let mut cs: Vec<usize> = cuts.split(',').filter(|x| !x.is_empty()).map(|x| x.parse().unwrap()).collect();
        cs.push(bytes.len());
        let mut script = String::from("N=4096");
        let mut prev = 0;
        for c in cs {
            if c > prev { script.push_str(&format!(";D{}", hex(&bytes[prev..c]))); prev = c; }
        }
        script.push_str(";X;R");
        outs.push(run(&script));
    }
    outs.join("#")
}

pub fn gen_readloop(ctx: &crate::Ctx) {
    let mut rng = Rng::new(ctx.seed, "readloop");
    let mut out = Out::new(&ctx.dir, "readloop");
    out.rule = "request heads (valid grammar heads, mutated heads, truncated heads; sometimes followed by a few body bytes) sent to a real Server::handle over loopback TCP, \
                each under: one segment, every single split point (heads <= 64 bytes) or 6 random ones, byte-by-byte (short heads), 3 random multi-splits; the client half-closes after the last segment. \
                non-trivial = the head is accepted or rejected (not merely incomplete)".into();
    let n = if ctx.thorough { 3000 } else { 250 };
    for i in 0..n {
        let (_, mut b) = crate::s_parse::gen_head(&mut rng);
        let class = match i % 5 {
            0 | 1 => "valid",
            2 => { crate::s_parse::mutate_pub(&mut rng, &mut b); "mutated" }
            3 => { let k = rng.below(b.len() as u64) as usize; b.truncate(k); "truncated" }
            _ => { b.extend_from_slice(b"hello"); "valid+body-bytes" }
        };
        if b.len() > 3000 { b.truncate(3000); }
        let mut segs: Vec<String> = vec![String::new()];
        if b.len() <= 64 { for c in 1..b.len() { segs.push(c.to_string()); } }
        else { for _ in 0..6 { segs.push(rng.range(1, b.len() as u64 - 1).to_string()); } }
        if b.len() <= 40 && b.len() > 1 { segs.push((1..b.len()).map(|c| c.to_string()).collect::<Vec<_>>().join(",")); }
        for _ in 0..3 {
            if b.len() < 3 { break; }
            let k = rng.range(2, 5.min(b.len() as u64 - 1));
            let mut cs: Vec<usize> = (0..k).map(|_| rng.range(1, b.len() as u64 - 1) as usize).collect();
            cs.sort(); cs.dedup();
            segs.push(cs.iter().map(|c| c.to_string()).collect::<Vec<_>>().join(","));
        }
        let case = format!("{} {}", hex(&b), segs.join("|"));
        let r = run_readloop(&case);
        let first = r.split('#').next().unwrap_or("");
        let nt = !first.starts_with("CLOSED");
        out.emit(&case, &r, &format!("{class}/{}", if first.starts_with("400") { "rejected" } else if first.starts_with("CLOSED") { "incomplete" } else { "answered" }), nt);
    }
    out.finish();
}

// ---------------------------------------------------------------------------------------------
// stream `clientread` (C03, client side): khttp::Client reading a response that arrives in segments
// case:  `<hex response bytes> <cut,..>|<cut,..>|...` ; impl: per segmentation `OK,<status>,<hex body>` | `ERR,<kind>` joined by '#'
pub fn run_clientread(case: &str) -> String {
    crate::util::note_current(case);
    let (h, segs) = case.split_once(' ').unwrap();
    let bytes = unhex(h);
    let mut outs: Vec<String> = Vec::new();
    for cuts in segs.split('|') {
        let mut cs: Vec<usize> = cuts.split(',').filter(|x| !x.is_empty()).map(|x| x.parse().unwrap()).collect();
        cs.push(bytes.len());
        let variant = outs.len();
        // a client that does not connect or does not finish within the bounded waits is reported, not waited for; the
        // segmentation is run once more first, so that a stall of the machine is not taken for one of the client
        let mut r = clientread_one(&bytes, &cs, variant);
        if r == "HANG" || r == "NOCONNECT" { r = clientread_one(&bytes, &cs, variant); }
        outs.push(r);
    }
    outs.join("#")
}

fn clientread_one(bytes: &[u8], cs: &[usize], variant: usize) -> String {
    use khttp::{Client, ClientError};
    let cs = cs.to_vec();
    let listener = TcpListener::bind("127.0.0.1:0").unwrap();
    let addr = listener.local_addr().unwrap();
    let tid = std::sync::Arc::new(AtomicI32::new(0));
    let tid2 = tid.clone();
            let th = std::thread::spawn(move || {
        tid2.store(unsafe { libc::syscall(libc::SYS_gettid) } as i32, Ordering::SeqCst);
        let mut c = Client::new(addr);
        let r = std::panic::catch_unwind(std::panic::AssertUnwindSafe(|| {
            // the entry points of the client in turn: get, post with a body, exchange with an extension method; the body is
            // read through body() or after into_parts()
            let first = match variant % 3 { 0 => c.get("/", Headers::empty_nodate()), 1 => c.post("/p", Headers::empty_nodate(), &b"request body"[..]),
                                            _ => c.exchange(&khttp::Method::from("PURGE"), "/x", Headers::empty_nodate(), std::io::empty()) };
            match first {
                Ok(mut resp) => {
                    let code = resp.status.code;
                    let _ = resp.stream().peer_addr();
                    let body = if variant % 2 == 0 { resp.body().vec() } else { let (_st, _h, mut b) = resp.into_parts(); b.vec() };
                    match body {
                        Ok(b) => format!("OK,{},{}", code, hex(&b)),
                        Err(_) => format!("OK,{},BODYERR", code),
                    }
                }
                Err(ClientError::ParsingFailure(khttp::HttpParsingError::UnexpectedEof)) => "ERR,incomplete".to_string(),
                Err(ClientError::UnexpectedEof) => "ERR,incomplete".to_string(),
                Err(ClientError::ParsingFailure(_)) => "ERR,rejected".to_string(),
                Err(_) => "ERR,io".to_string(),
            }
        }));
        r.unwrap_or_else(|_| "PANIC".into())
    });
    // (never wait for ever: a client that does not connect, or does not finish, is reported, not waited for)
    listener.set_nonblocking(true).unwrap();
    let ta = Instant::now();
    let accepted = loop { match listener.accept() { Ok(x) => break Some(x), Err(_) => { if ta.elapsed() > Duration::from_secs(3) { break None; } std::thread::sleep(Duration::from_millis(1)); } } };
    let (mut s, _) = match accepted { Some(x) => x, None => return "NOCONNECT".into() };
    s.set_nonblocking(false).unwrap();
    s.set_nodelay(true).unwrap();
    // read the request head
    let mut req = Vec::new();
    let mut tmp = [0u8; 4096];
    s.set_read_timeout(Some(Duration::from_secs(2))).unwrap();
    while !req.windows(4).any(|w| w == b"\r\n\r\n") {
        match s.read(&mut tmp) { Ok(0) | Err(_) => break, Ok(n) => req.extend_from_slice(&tmp[..n]) }
    }
    let t = tid.load(Ordering::SeqCst);
    let mut prev = 0;
    for c in cs {
        if c > prev {
            // wait until the client thread is blocked in its read again
            let t0 = Instant::now();
            let mut streak = 0;
            while streak < 3 && t0.elapsed() < Duration::from_secs(2) && !th.is_finished() {
                if thread_state(t) == 'S' { streak += 1 } else { streak = 0 }
                std::thread::yield_now();
            }
            if th.is_finished() { break; }
            let _ = s.write_all(&bytes[prev..c]);
            // let the segment be consumed before the next one is written
            std::thread::sleep(Duration::from_micros(300));
            prev = c;
        }
    }
    // wait for the client to block again (or finish), then end the stream
    let t0 = Instant::now();
    let mut streak = 0;
    while streak < 3 && t0.elapsed() < Duration::from_secs(2) && !th.is_finished() {
        if thread_state(t) == 'S' { streak += 1 } else { streak = 0 }
        std::thread::yield_now();
    }
    let _ = s.shutdown(std::net::Shutdown::Both);
    drop(s);
    let tj = Instant::now();
    while !th.is_finished() && tj.elapsed() < Duration::from_secs(5) { std::thread::sleep(Duration::from_millis(1)); }
    if th.is_finished() { th.join().unwrap_or_else(|_| "PANIC".into()) } else { "HANG".into() }
}

pub fn gen_clientread(ctx: &crate::Ctx) {
    let mut rng = Rng::new(ctx.seed, "clientread");
    let mut out = Out::new(&ctx.dir, "clientread");
    out.rule = "response messages (valid heads with content-length / chunked / EOF-delimited bodies, mutated and truncated heads) written to khttp::Client over loopback TCP: one segment, \
                every split point of the head (heads <= 64 bytes) or 6 random ones, 2 random multi-splits, one message in six byte by byte; the peer closes after the last segment. non-trivial = head accepted or rejected".into();
    let n = if ctx.thorough { 1500 } else { 150 };
    for i in 0..n {
        let body: Vec<u8> = (0..rng.below(20)).map(|_| b'a' + rng.below(26) as u8).collect();
        let code = *rng.pick(&[200u32, 204, 404, 500, 301]);
        let reason = *rng.pick(&["OK", "Not Found", "", "Fine  and\tdandy"]);
        let mut b = format!("HTTP/1.{} {} {}\r\n", rng.below(2), code, reason).into_bytes();
        for _ in 0..rng.below(3) { b.extend(format!("x-h{}: v{}\r\n", rng.below(9), rng.below(99)).as_bytes()); }
        match rng.below(3) {
            0 => { b.extend(format!("content-length: {}\r\n\r\n", body.len()).as_bytes()); b.extend(&body); }
            1 => { b.extend(*rng.pick(&[&b"transfer-encoding: chunked\r\n\r\n"[..], b"Transfer-Encoding: Chunked\r\n\r\n", b"TRANSFER-ENCODING:CHUNKED\r\n\r\n", b"transfer-encoding: chunked \r\n\r\n", b"transfer-encoding: gzip, chunked\t\r\n\r\n"]));
                   let e = crate::s_body::encode_chunked(&mut rng, &body); b.extend(e); }
            _ => { b.extend(b"\r\n"); b.extend(&body); }
        }
        let head_len = b.windows(4).position(|w| w == b"\r\n\r\n").unwrap() + 4;
        let class = match i % 4 {
            0 | 1 => "valid",
            2 => { let pos = rng.below(head_len as u64) as usize; b[pos] = *rng.pick(&[b'\r', b'\n', 0u8, 0xff, b' ', b':', b'x']); "mutated" }
            _ => { let k = rng.range(1, head_len as u64 - 1) as usize; b.truncate(k); "truncated" }
        };
        let hl = head_len.min(b.len());
        let mut segs: Vec<String> = vec![String::new()];
        if hl <= 64 { for c in 1..hl { segs.push(c.to_string()); } } else { for _ in 0..6 { segs.push(rng.range(1, hl as u64 - 1).to_string()); } }
        for _ in 0..2 {
            if b.len() < 4 { break; }
            let mut cs: Vec<usize> = (0..rng.range(2, 4)).map(|_| rng.range(1, b.len() as u64 - 1) as usize).collect();
            cs.sort(); cs.dedup();
            segs.push(cs.iter().map(|c| c.to_string()).collect::<Vec<_>>().join(","));
        }
        // one message in six is also delivered one byte at a time (heads of 65..400 bytes then need more than 64 reads: seed
        // C03-j gave up after 64)
        if rng.chance(1, 6) && b.len() >= 4 && b.len() <= 400 { segs.push((1..b.len()).map(|c| c.to_string()).collect::<Vec<_>>().join(",")); }
        let case = format!("{} {}", hex(&b), segs.join("|"));
        let r = run_clientread(&case);
        let first = r.split('#').next().unwrap_or("").to_string();
        out.emit(&case, &r, &format!("{class}/{}", first.split(',').take(2).collect::<Vec<_>>().join(",")), !first.starts_with("ERR,incomplete"));
    }
    out.finish();
}
