//! C20 stream `memory`: peak live heap (counting global allocator, see main.rs) around one khttp operation,
//! as a function of the body length.  Bodies are generated on the fly and discarded, so the only
//! allocations are khttp's own.
//! case: `<W|Q|R|S> <framing> <variant> <len,len,...>`
//!   W = HttpPrinter::write_response from a reader, Q = HttpPrinter::write_request (framing: cl | chunked | auto;
//!       variant = bytes the reader hands out per read call)
//!   R = BodyReader (framing: fixed | chunked | eof; variant: all = read to the end in 8 KiB pieces, none = dropped unread,
//!       part = 100 bytes read then dropped, bufread = fill_buf/consume to the end); the drop is inside the measurement
//!   S = the real Server::handle on a loopback connection (framing of the request body: cl | chunked;
//!       variant: count = handler reads the body in 8 KiB pieces, ignore = handler answers without reading,
//!       sniff = handler reads 100 bytes, echo = handler streams a response body of the same length from a reader (auto framing),
//!       echocl / echochunked = the same with declared length / declared chunked,
//!       stall = the handler sets a 200 ms read timeout and answers 408 when a read fails; the client pauses 600 ms after the first
//!       60 000 bytes and then sends the rest without a gap: the connection is closed, nothing of the rest is collected)
//! impl: per length `<len>:<peak bytes>:<allocations>:<ok>` separated by spaces
use crate::util::*;
use crate::Ctx;
use crate::{ALLOC_COUNT, LIVE, PEAK};
use khttp::{BodyReader, Headers, HttpPrinter, Status};
use std::io::{Read, Write};
use std::sync::atomic::Ordering;

/// yields `len` bytes of a repeating pattern in pieces of `piece`
struct Gen { left: u64, piece: usize }
impl Read for Gen {
    fn read(&mut self, buf: &mut [u8]) -> std::io::Result<usize> {
        if self.left == 0 || buf.is_empty() { return Ok(0); }
        let n = (self.left.min(buf.len() as u64) as usize).min(self.piece);
        for (i, b) in buf[..n].iter_mut().enumerate() { *b = b'a' + (i % 23) as u8; }
        self.left -= n as u64;
        Ok(n)
    }
}
/// a chunked encoding of `len` bytes in chunks of `chunk`, generated on the fly
struct ChunkedGen { left: u64, chunk: u64, pending: Vec<u8>, pos: usize, done: bool }
impl Read for ChunkedGen {
    fn read(&mut self, buf: &mut [u8]) -> std::io::Result<usize> {
        if self.pos >= self.pending.len() {
            if self.done { return Ok(0); }
            self.pending.clear(); self.pos = 0;
            if self.left == 0 { self.pending.extend_from_slice(b"0\r\n\r\n"); self.done = true; }
            else {
                let n = self.left.min(self.chunk);
                self.pending.extend_from_slice(format!("{:x}\r\n", n).as_bytes());
                self.pending.extend((0..n).map(|i| b'a' + (i % 23) as u8));
                self.pending.extend_from_slice(b"\r\n");
                self.left -= n;
            }
        }
        let n = (self.pending.len() - self.pos).min(buf.len());
        buf[..n].copy_from_slice(&self.pending[self.pos..self.pos + n]);
        self.pos += n;
        Ok(n)
    }
}
struct Sink(u64);
impl Write for Sink {
    fn write(&mut self, b: &[u8]) -> std::io::Result<usize> { self.0 += b.len() as u64; Ok(b.len()) }
    fn flush(&mut self) -> std::io::Result<()> { Ok(()) }
}


pub fn run(case: &str) -> String {
    crate::util::note_current(case);
    // one measurement per length
    let f: Vec<&str> = case.split(' ').collect();
    f[3].split(',').map(|l| run_one(f[0], f[1], f[2], l.parse().unwrap())).collect::<Vec<_>>().join(" ")
}

fn measure<T>(f: impl FnOnce() -> T) -> (T, usize, usize) {
    let base = LIVE.load(Ordering::SeqCst);
    PEAK.store(base, Ordering::SeqCst);
    let a0 = ALLOC_COUNT.load(Ordering::SeqCst);
    let r = f();
    (r, PEAK.load(Ordering::SeqCst).saturating_sub(base), ALLOC_COUNT.load(Ordering::SeqCst) - a0)
}

fn count_body<R: Read>(mut r: R) -> std::io::Result<u64> {
    let mut buf = [0u8; 8192];
    let mut total = 0u64;
    loop { match r.read(&mut buf)? { 0 => return Ok(total), n => total += n as u64 } }
}

fn mem_server() -> khttp::Server {
    use khttp::Method;
    let mut b = khttp::Server::builder("127.0.0.1:0").unwrap();
    b.route(Method::Post, "/count", |mut req, res| {
        let n = count_body(req.body())?;
        res.ok(&Headers::new_nodate(), n.to_string().as_bytes())
    });
    // the handler puts a 200 ms read timeout on the connection; when a read of the body fails it answers 408 and returns Ok
    // (the rest of the body cannot be discarded: the connection is closed after the answer, whatever the client still sends)
    b.route(Method::Post, "/stall", |mut req, res| {
        let _ = req.get_stream().set_read_timeout(Some(std::time::Duration::from_millis(200)));
        match count_body(req.body()) {
            Ok(n) => res.ok(&Headers::new_nodate(), n.to_string().as_bytes()),
            Err(_) => res.send(&Status::of(408), &Headers::new_nodate(), &b"timed out"[..]),
        }
    });
    b.route(Method::Post, "/ignore", |_req, res| res.ok(&Headers::new_nodate(), b"ignored"));
    b.route(Method::Post, "/sniff", |mut req, res| {
        let mut first = [0u8; 100];
        let mut got = 0;
        while got < first.len() { match req.body().read(&mut first[got..])? { 0 => break, n => got += n } }
        res.ok(&Headers::new_nodate(), got.to_string().as_bytes())
    });
    for (path, fr) in [("/echo", 0u8), ("/echocl", 1), ("/echochunked", 2)] {
        b.route(Method::Post, path, move |mut req, res| {
            let n = count_body(req.body())?;
            let mut h = Headers::new_nodate();
            match fr { 1 => h.set_content_length(Some(n)), 2 => h.set_transfer_encoding_chunked(), _ => {} }
            res.okr(&h, Gen { left: n, piece: 30000 })
        });
    }
    b.build()
}

/// client side of S: writes the request (body generated on the fly), reads and discards the response; returns the
/// number of response body bytes seen after de-framing (content-length or chunked)
fn client_exchange(c: &mut std::net::TcpStream, path: &str, framing: &str, len: u64) -> Result<u64, String> {
    // a variant ending in "10" speaks HTTP/1.0 on the request line (the route is the name without the suffix)
    let (path, version) = match path.strip_suffix("10") { Some(p) => (p, "1.0"), None => (path, "1.1") };
    let head = if framing == "cl" { format!("POST {path} HTTP/{version}\r\nHost: m\r\nContent-Length: {len}\r\nConnection: close\r\n\r\n") }
               else { format!("POST {path} HTTP/1.1\r\nHost: m\r\nTransfer-Encoding: chunked\r\nConnection: close\r\n\r\n") };
    c.write_all(head.as_bytes()).map_err(|e| e.to_string())?;
    // writer and reader run in turns on one thread would deadlock on large bodies: read in a second thread
    let mut rc = c.try_clone().map_err(|e| e.to_string())?;
    let stall = path == "/stall";
    let rd = std::thread::spawn(move || -> Result<u64, String> {
        crate::MUTED.with(|m| m.set(true));
        // de-frame incrementally with constant memory: find the head, then count the body
        let mut buf = vec![0u8; 65536];
        let mut headbuf: Vec<u8> = Vec::with_capacity(4096);
        let mut body_seen: u64 = 0;
        let mut in_body = false;
        let mut chunked = false;
        // chunked decoding state: remaining data bytes of the current chunk, and a small line buffer
        let (mut chunk_left, mut line, mut after_data, mut done) = (0u64, Vec::<u8>::with_capacity(64), 0u8, false);
        loop {
            let n = match rc.read(&mut buf) { Ok(0) => break, Ok(n) => n, Err(e) => return Err(e.to_string()) };
            let mut data = &buf[..n];
            if !in_body {
                headbuf.extend_from_slice(data);
                if let Some(p) = headbuf.windows(4).position(|w| w == b"\r\n\r\n") {
                    let h = String::from_utf8_lossy(&headbuf[..p]).to_ascii_lowercase();
                    if h.starts_with("http/1.1 408") && stall { return Ok(0); }
                    if !h.starts_with("http/1.1 200") { return Err(format!("status: {}", h.lines().next().unwrap_or(""))); }
                    chunked = h.contains("transfer-encoding: chunked");
                    in_body = true;
                    let rest: Vec<u8> = headbuf[p + 4..].to_vec();
                    headbuf.clear();
                    // fall through with the rest as data
                    let r = consume_body(&rest, chunked, &mut body_seen, &mut chunk_left, &mut line, &mut after_data, &mut done);
                    if let Err(e) = r { return Err(e); }
                }
                continue;
            }
            let r = consume_body(data, chunked, &mut body_seen, &mut chunk_left, &mut line, &mut after_data, &mut done);
            if let Err(e) = r { return Err(e); }
            data = &[];
            let _ = data;
        }
        if chunked && !done { return Err("chunked response not terminated".into()); }
        Ok(body_seen)
    });
    // the body
    let mut piece = vec![0u8; 65536];
    for (i, b) in piece.iter_mut().enumerate() { *b = b'a' + (i % 23) as u8; }
    let mut left = len;
    let mut werr = None;
    while left > 0 {
        let n = left.min(60000) as usize;
        let r = if framing == "cl" { c.write_all(&piece[..n]) } else {
            c.write_all(format!("{:x}\r\n", n).as_bytes()).and_then(|_| c.write_all(&piece[..n])).and_then(|_| c.write_all(b"\r\n"))
        };
        if let Err(e) = r { werr = Some(e.to_string()); break; }
        left -= n as u64;
        // stall: one pause of 600 ms (three read timeouts of the handler) after the first piece, then the rest without a gap
        if stall && left + n as u64 == len { std::thread::sleep(std::time::Duration::from_millis(600)); }
    }
    if werr.is_none() && framing != "cl" { let _ = c.write_all(b"0\r\n\r\n"); }
    let r = rd.join().map_err(|_| "reader panic".to_string())?;
    // (stall: the server has answered 408 and closed; that the rest of the upload could not be written is expected)
    if stall { return r; }
    if let Some(e) = werr { return Err(format!("write: {e}")); }
    r
}

fn consume_body(mut data: &[u8], chunked: bool, seen: &mut u64, chunk_left: &mut u64, line: &mut Vec<u8>, after: &mut u8, done: &mut bool) -> Result<(), String> {
    if !chunked { *seen += data.len() as u64; return Ok(()); }
    while !data.is_empty() && !*done {
        if *chunk_left > 0 {
            let n = (*chunk_left).min(data.len() as u64) as usize;
            *seen += n as u64; *chunk_left -= n as u64; data = &data[n..];
            if *chunk_left == 0 { *after = 2; }
        } else if *after > 0 {
            // CRLF after chunk data
            *after -= 1; data = &data[1..];
        } else {
            let b = data[0]; data = &data[1..];
            if b == b'\n' {
                let l = String::from_utf8_lossy(line).trim().to_string();
                line.clear();
                let sz = u64::from_str_radix(l.split(';').next().unwrap_or(""), 16).map_err(|_| format!("bad chunk size line {l:?}"))?;
                if sz == 0 { *done = true; } else { *chunk_left = sz; }
            } else { if line.len() > 60 { return Err("chunk size line too long".into()); } line.push(b); }
        }
    }
    Ok(())
}

fn run_one(dir: &str, framing: &str, variant: &str, len: u64) -> String {
    let mut ok;
    let (peak, allocs);
    if dir == "W" || dir == "Q" {
        let mut h = Headers::new_nodate();
        h.add("content-type", &b"application/octet-stream"[..]);
        // "cl1000": a length of 1000 is declared while the reader holds `len` bytes (a prefix of a large source is served)
        match framing { "cl" => h.set_content_length(Some(len)), "cl1000" => h.set_content_length(Some(1000.min(len))), "chunked" => h.set_transfer_encoding_chunked(), _ => {} }
        let reader = Gen { left: len, piece: variant.parse().unwrap() };
        let mut sink = Sink(0);
        let (r, p, a) = measure(|| if dir == "W" { HttpPrinter::write_response(&mut sink, &Status::OK, &h, reader) }
                                    else { HttpPrinter::write_request(&mut sink, &khttp::Method::Post, "/upload", &h, reader) });
        peak = p; allocs = a;
        ok = r.is_ok() && sink.0 >= if framing == "cl1000" { 1000.min(len) } else { len };
    } else if dir == "R" {
        let src: Box<dyn Read> = match framing {
            "chunked" => Box::new(ChunkedGen { left: len, chunk: 60000, pending: Vec::with_capacity(70000), pos: 0, done: false }),
            _ => Box::new(Gen { left: len, piece: 1 << 20 }),
        };
        let mut buf = vec![0u8; 8192];
        // the reader's own buffers are allocated by its constructor: measured too; so is its drop
        let (total, p, a) = measure(|| -> Result<u64, ()> {
            let mut rd: BodyReader<Box<dyn Read>> = match framing {
                "fixed" => BodyReader::new_fixed(&[], src, len as usize),
                "chunked" => BodyReader::new_chunked(&[], src),
                _ => BodyReader::new_eof(&[], src),
            };
            let mut total = 0u64;
            match variant {
                "none" => {}
                "part" => { let mut got = 0; while got < 100 { match rd.read(&mut buf[got..100]) { Ok(0) => break, Ok(n) => got += n, Err(_) => return Err(()) } } total = got as u64; }
                "bufread" => { use std::io::BufRead; loop { let n = match rd.fill_buf() { Ok(b) => b.len(), Err(_) => return Err(()) }; if n == 0 { break; } total += n as u64; rd.consume(n); } }
                _ => loop { match rd.read(&mut buf) { Ok(0) => break, Ok(n) => total += n as u64, Err(_) => return Err(()) } },
            }
            drop(rd);
            Ok(total)
        });
        peak = p; allocs = a;
        let want = match variant { "none" => 0, "part" => len.min(100), _ => len };
        ok = total == Ok(want);
    } else if variant == "bighead" {
        // S bighead: a head that never ends (`len` bytes of one header value, no CRLF) against a limit of 6000 bytes:
        // 431, and no more than the limit is ever buffered
        let listener = std::net::TcpListener::bind("127.0.0.1:0").unwrap();
        let mut client = std::net::TcpStream::connect(listener.local_addr().unwrap()).unwrap();
        let (srv, _) = listener.accept().unwrap();
        let mut b = khttp::Server::builder("127.0.0.1:0").unwrap();
        b.max_request_head_size(6000);
        b.fallback_route(|_r, res| res.ok(&Headers::new_nodate(), b"x"));
        let server = b.build();
        let ((sres, status), p, a) = measure(|| {
            crate::MUTED.with(|m| m.set(true));
            let th = std::thread::spawn(move || server.handle(&srv));
            let _ = client.write_all(b"GET / HTTP/1.1\r\nX: ");
            let piece = vec![b'a'; 65536];
            let mut left = len;
            while left > 0 { let n = left.min(65536) as usize; if client.write_all(&piece[..n]).is_err() { break; } left -= n as u64; }
            let _ = client.shutdown(std::net::Shutdown::Write);
            let mut buf = Vec::new();
            client.set_read_timeout(Some(std::time::Duration::from_secs(3))).ok();
            let mut tmp = [0u8; 4096];
            loop { match client.read(&mut tmp) { Ok(0) | Err(_) => break, Ok(n) => buf.extend_from_slice(&tmp[..n]) } }
            let status = String::from_utf8_lossy(&buf).split(' ').nth(1).unwrap_or("NONE").to_string();
            let sres = th.join().map_err(|_| "server panic".to_string()).and_then(|r| r.map_err(|e| e.to_string()));
            crate::MUTED.with(|m| m.set(false));
            (sres, status)
        });
        peak = p; allocs = a;
        // a head shorter than the limit that then ends with the stream is simply an incomplete request (no answer)
        // (19 bytes precede the value; exactly at the limit the buffer is full without a complete head: 431)
        ok = sres.is_ok() && status == if 19 + len >= 6000 { "431" } else { "NONE" };
        if !ok { eprintln!("memory S bighead {len}: server={sres:?} status={status}"); }
    } else {
        // S: the whole server path
        let listener = std::net::TcpListener::bind("127.0.0.1:0").unwrap();
        let mut client = std::net::TcpStream::connect(listener.local_addr().unwrap()).unwrap();
        let (srv, _) = listener.accept().unwrap();
        let server = mem_server();
        let path = format!("/{variant}");
        // only the server thread's allocations are counted: the client side is the harness's own
        let ((sres, cres), p, a) = measure(|| {
            crate::MUTED.with(|m| m.set(true));
            let th = std::thread::spawn(move || server.handle(&srv));
            let cres = client_exchange(&mut client, &path, framing, len);
            let sres = th.join().map_err(|_| "server panic".to_string()).and_then(|r| r.map_err(|e| e.to_string()));
            crate::MUTED.with(|m| m.set(false));
            (sres, cres)
        });
        peak = p; allocs = a;
        let want_resp = if variant.starts_with("echo") { Some(len) } else { None };
        ok = sres.is_ok() && match (&cres, want_resp) { (Ok(n), Some(w)) => *n == w, (Ok(_), None) => true, _ => false };
        if !ok { eprintln!("memory S {framing} {variant} {len}: server={sres:?} client={cres:?}"); }
    }
    format!("{}:{}:{}:{}", len, peak, allocs, ok as u8)
}

pub fn gen(ctx: &Ctx) {
    let mut out = Out::new(&ctx.dir, "memory");
    out.rule = "peak live heap bytes (counting global allocator) during one operation, for body lengths 1 KiB .. 64 MiB (thorough: .. 1 GiB), bodies generated on the fly and discarded: \
                write_response / write_request from a reader with {declared length, declared chunked, nothing declared} x reader piece sizes {1, 700, 4096, 65536, 1 MiB}; \
                BodyReader over {fixed, chunked, EOF-delimited} bodies x {read to the end, dropped unread, dropped after 100 bytes, fill_buf/consume}; \
                the real Server::handle on a loopback connection, request body {declared, chunked} x handler {counts the body, ignores it, reads 100 bytes, streams an equally long response}, also with an HTTP/1.0 request line; a declared length of 1000 with a much longer reader; a never-ending head against a limit of 6000 bytes (431, nothing beyond the limit buffered). \
                non-trivial = bodies above 16 KiB".into();
    let mut lens: Vec<u64> = vec![1 << 10, 8191, 8192, 8193, 1 << 16, (1 << 16) + 1, 1 << 17, 1 << 20, 1 << 24, 1 << 26];
    if ctx.thorough { lens.extend([1u64 << 28, 1 << 30]); }
    let ls = |max: u64| lens.iter().filter(|l| **l <= max).map(|l| l.to_string()).collect::<Vec<_>>().join(",");
    for d in ["W", "Q"] {
        for fr in ["cl", "chunked", "auto", "cl1000"] {
            for piece in ["1", "700", "4096", "65536", "1048576"] {
                if fr == "cl1000" && (piece == "1" || piece == "1048576") { continue; }
                if d == "Q" && (piece == "4096" || piece == "1048576") { continue; }
                // one-byte reads of a GiB take too long: smaller bodies there
                let case = format!("{d} {fr} {piece} {}", ls(if piece == "1" { 1 << 20 } else { u64::MAX }));
                let r = run(&case);
                out.emit(&case, &r, &format!("{d}/{fr}/piece"), true);
            }
        }
    }
    for fr in ["fixed", "chunked", "eof"] {
        for v in ["all", "none", "part", "bufread"] {
            let case = format!("R {fr} {v} {}", ls(u64::MAX));
            let r = run(&case);
            out.emit(&case, &r, &format!("R/{fr}/{v}"), true);
        }
    }
    {
        // lengths around the limit and between the limit and the next power of two (seed C20-h rounded the limit up to 8192)
        let case = format!("S cl bighead 5980,5981,6100,7000,{}", ls(if ctx.thorough { 1 << 28 } else { 1 << 24 }));
        let r = run(&case);
        out.emit(&case, &r, "S/bighead", true);
    }
    for fr in ["cl", "chunked"] {
        for v in ["count", "ignore", "sniff", "echo", "echocl", "echochunked", "echo10", "count10", "stall"] {
            if fr == "chunked" && v.ends_with("10") { continue; }
            let case = format!("S {fr} {v} {}", ls(if ctx.thorough { 1 << 28 } else { 1 << 24 }));
            let r = run(&case);
            out.emit(&case, &r, &format!("S/{fr}/{v}"), true);
        }
    }
    let _ = ctx.seed;
    out.finish();
}
