//! Generators for the connection streams conn10 / conn09 / conn05 / conn07 (all run by s_conn::run).
use crate::s_conn::run;
use crate::util::*;
use crate::Ctx;

pub struct Req {
    pub method: &'static str,
    pub path: String,
    pub fields: Vec<(String, Vec<u8>)>,
    pub body: Vec<u8>, // wire bytes after the head
}
impl Req {
    pub fn head(&self) -> Vec<u8> {
        // a pseudo field `#http10` asks for an HTTP/1.0 request line (it is not sent)
        let minor = if self.fields.iter().any(|(n, _)| n == "#http10") { 0 } else { 1 };
        let mut b = format!("{} {} HTTP/1.{minor}\r\n", self.method, self.path).into_bytes();
        for (n, v) in &self.fields { if n == "#http10" { continue; } b.extend(n.as_bytes()); b.extend(b": "); b.extend(v); b.extend(b"\r\n"); }
        b.extend(b"\r\n");
        b
    }
}

pub fn cut(rng: &mut Rng, data: &[u8], style: u64) -> Vec<Vec<u8>> {
    if data.is_empty() { return vec![]; }
    match style {
        0 => vec![data.to_vec()],
        1 => { let c = rng.range(1, data.len() as u64) as usize; if c == data.len() { vec![data.to_vec()] } else { vec![data[..c].to_vec(), data[c..].to_vec()] } }
        2 => data.chunks(1).map(|c| c.to_vec()).collect(),
        _ => { let mut v = Vec::new(); let mut i = 0; while i < data.len() { let n = rng.range(1, 7.min((data.len() - i) as u64)) as usize; v.push(data[i..i + n].to_vec()); i += n; } v }
    }
}

/// D steps for one request (head and body segmented independently, or glued) followed by R
/// one request in four uses another public entry point with the same behaviour (see the route list of s_conn)
fn vary(rng: &mut Rng, r: &Req) -> Req {
    let mut r = Req { method: r.method, path: r.path.clone(), fields: r.fields.clone(), body: r.body.clone() };
    if !rng.chance(1, 4) { return r; }
    let (p, q) = match r.path.split_once('?') { Some((p, q)) => (p.to_string(), format!("?{q}")), None => (r.path.clone(), String::new()) };
    let np = match p.as_str() {
        "/all" => Some(*rng.pick(&["/allparts", "/allvec"])),
        "/close" => Some(*rng.pick(&["/closev", "/closes"])),
        "/none" if q.is_empty() => Some("/empty0"),
        _ => None };
    if let Some(np) = np { r.path = format!("{np}{q}"); }
    r
}

pub fn exchange(rng: &mut Rng, r: &Req, glue: bool) -> Vec<String> {
    let r = &vary(rng, r);
    let head = r.head();
    let mut steps = Vec::new();
    if glue {
        let mut all = head.clone(); all.extend(&r.body);
        let st = rng.below(2);
        for s in cut(rng, &all, st) { steps.push(format!("D{}", hex(&s))); }
    } else {
        let hs = if head.len() > 60 { rng.below(2) } else { rng.below(4) };
        for s in cut(rng, &head, hs) { steps.push(format!("D{}", hex(&s))); }
        let bs = if r.body.len() > 60 { *rng.pick(&[0u64, 1, 3]) } else { rng.below(4) };
        for s in cut(rng, &r.body, bs) { steps.push(format!("D{}", hex(&s))); }
    }
    steps.push("R".into());
    steps
}

fn finish_case(out: &mut Out, n: usize, steps: Vec<String>, class: &str) { finish_case_warm(out, &n.to_string(), steps, class) }
fn finish_case_warm(out: &mut Out, n: &str, steps: Vec<String>, class: &str) {
    let case = format!("N={};{}", n, steps.join(";"));
    let r = run(&case);
    let answered = r.split(|c| c == ';' || c == '|').filter(|e| e.len() > 3 && e.as_bytes()[3] == b',').count();
    out.emit(&case, &r, class, answered >= 1);
}

fn chunked(body: &[u8], rng: &mut Rng) -> Vec<u8> { crate::s_body::encode_chunked(rng, body) }

static PROBE_NO: std::sync::atomic::AtomicUsize = std::sync::atomic::AtomicUsize::new(0);
/// probes are numbered so that a transcript shows WHICH request an answer belongs to
fn probe() -> Req {
    let k = PROBE_NO.fetch_add(1, std::sync::atomic::Ordering::SeqCst) % 7;
    Req { method: "GET", path: format!("/none?probe{k}"), fields: vec![], body: vec![] }
}

// ------------------------------------------------------------------------------------------ C10
pub fn gen10(ctx: &Ctx) {
    let mut rng = Rng::new(ctx.seed, "conn10");
    let mut out = Out::new(&ctx.dir, "conn10");
    out.rule = "head limit N in 1..64 (exhaustive) and 4096/16384 (plus 65535, 65536, 65636, 131072 with heads of 200 / 5000 bytes and around N): heads of length max(18,N-2)..N+2 and N+40 (padding a header or the path), with/without body bytes in the same segment, \
                3 segmentations each (one segment, split in two, small pieces); authority- / absolute- / asterisk-form heads against every limit up to their length + 2; then a probe request. non-trivial = at least one request answered".into();
    let mut ns: Vec<usize> = (1..=64).collect();
    ns.extend([100, 4096, 16384]);
    if !ctx.thorough { ns.retain(|n| *n <= 64 || *n == 4096); }
    for &n in &ns {
        let mut lens: Vec<usize> = (n.saturating_sub(2)..=n + 2).collect();
        lens.push(n + 40);
        if n > 30 { lens.push(n / 2); }
        for &l in &lens {
            for with_body in [false, true] {
                // minimal heads: "GET / HTTP/1.1\r\n\r\n" (18) / "POST /all HTTP/1.1\r\ncontent-length: 3\r\n\r\n" (41)
                let base = if with_body { 41 } else { 18 };
                if l < base { continue; }
                let pad = l - base;
                let mut r = if with_body {
                    Req { method: "POST", path: "/all".into(), fields: vec![("content-length".into(), b"3".to_vec())], body: b"abc".to_vec() }
                } else {
                    Req { method: "GET", path: "/".into(), fields: vec![], body: vec![] }
                };
                if pad >= 6 && rng.chance(1, 2) {
                    r.fields.insert(0, ("x".into(), vec![b'p'; pad - 5])); // "x: " + value + CRLF = value + 5
                } else {
                    r.path.push_str(&"a".repeat(pad));
                }
                assert_eq!(r.head().len(), l);
                for style in 0..3 {
                    let head = r.head();
                    let mut all = head.clone();
                    let glue = with_body && style != 1;
                    if glue { all.extend(&r.body); }
                    let mut steps: Vec<String> = cut(&mut rng, &all, [0, 1, 3][style]).iter().map(|s| format!("D{}", hex(s))).collect();
                    if with_body && !glue { steps.push(format!("D{}", hex(&r.body))); }
                    steps.push("R".into());
                    steps.extend(exchange(&mut rng, &probe(), false));
                    finish_case(&mut out, n, steps, &format!("{}/len-N={}", if with_body { "body" } else { "nobody" }, l as i64 - n as i64));
                }
            }
        }
    }
    // authority-, absolute- and asterisk-form targets against every limit up to their length + 2: the limit's own read cap cuts the
    // head at every position, also right after a colon (seed C10-j: the "://" look-ahead read one byte too far exactly there)
    for head in [&b"CONNECT example.com:443 HTTP/1.1\r\nHost: example.com:443\r\n\r\n"[..], b"GET http://example.com:80/a?b HTTP/1.1\r\n\r\n", b"OPTIONS * HTTP/1.1\r\n\r\n", b"GET ws://h HTTP/1.0\r\n\r\n"] {
        for n in 1..=head.len() + 2 {
            if !ctx.thorough && n > 64 && n < head.len() - 1 { continue; }
            for style in [0u64, 1] {
                if style == 1 && n % 3 != 0 { continue; }
                let mut steps: Vec<String> = cut(&mut rng, head, style).iter().map(|s| format!("D{}", hex(s))).collect();
                steps.push("R".into());
                steps.extend(exchange(&mut rng, &probe(), false));
                finish_case(&mut out, n, steps, &format!("other-target-form/len-N={}", head.len() as i64 - n as i64));
            }
        }
    }
    // history on the serving thread: the same thread has served another connection before, with a larger head limit (plain
    // exchange) or with an answer that could not be written (peer reset): the limit of THIS server applies all the same and
    // its 431 is the first thing on the wire (seeds C03-i: a request buffer that only grows; C10-i / C08-i: a per-thread head
    // buffer that keeps an undeliverable reply)
    for &n in &[64usize, 256] {
        for warm in ["o16384", "r4096", "o100"] {
            for l in [n - 2, n, n + 1, n + 40] {
                let mut r = Req { method: "GET", path: "/".into(), fields: vec![], body: vec![] };
                r.fields.insert(0, ("x".into(), vec![b'p'; l - 18 - 5]));
                for style in [0u64, 3] {
                    let mut steps: Vec<String> = cut(&mut rng, &r.head(), style).iter().map(|s| format!("D{}", hex(s))).collect();
                    steps.push("R".into());
                    steps.extend(exchange(&mut rng, &probe(), false));
                    finish_case_warm(&mut out, &format!("{n},W{warm}"), steps, &format!("thread-history/{}/len-N={}", &warm[..1], l as i64 - n as i64));
                }
            }
        }
    }
    // limits at and beyond 2^16 (a limit is a usize, not a 16-bit quantity): short heads far below the limit, and heads around it
    for &n in &[65535usize, 65536, 65636, 131072] {
        let mut lens = vec![200usize, 5000];
        if n <= 65636 { lens.extend([n - 1, n, n + 1]); }
        for &l in &lens {
            let mut r = Req { method: "GET", path: "/".into(), fields: vec![], body: vec![] };
            r.fields.insert(0, ("x".into(), vec![b'p'; l - 18 - 5]));
            assert_eq!(r.head().len(), l);
            for style in [0u64, 1] {
                let mut steps: Vec<String> = cut(&mut rng, &r.head(), style).iter().map(|s| format!("D{}", hex(s))).collect();
                steps.push("R".into());
                steps.extend(exchange(&mut rng, &probe(), false));
                finish_case(&mut out, n, steps, &format!("big-limit/len-N={}", l as i64 - n as i64));
            }
        }
    }
    out.finish();
}

// ------------------------------------------------------------------------------------------ C09
pub fn gen09(ctx: &Ctx) {
    let mut rng = Rng::new(ctx.seed, "conn09");
    let mut out = Out::new(&ctx.dir, "conn09");
    out.rule = "two- and three-request histories: first request with every spelling/placement of the close token in request Connection fields (none, close, Close, lists, OWS, repeated fields, near-misses) x \
                handler outcome (respond, respond with close - plain, streamed, streamed with a list value -, Err of several io::ErrorKinds, respond then Err, read body) x hook outcome (none, answer, answer with close) x malformed head; then probe requests. \
                non-trivial = at least one request answered".into();
    let conns: Vec<Vec<&[u8]>> = vec![
        vec![], vec![b"close"], vec![b"Close"], vec![b"CLOSE"], vec![b"keep-alive, close"], vec![b"close, keep-alive"], vec![b"close "], vec![b" close"], vec![b"\tclose\t"],
        vec![b"keep-alive"], vec![b"closed"], vec![b"x-close"], vec![b"clos"], vec![b"keep-alive", b"close"], vec![b"close", b"keep-alive"], vec![b"upgrade,\tClose ,x"], vec![b"\"close\""], vec![b""],
    ];
    let paths = ["/none", "/close", "/closer", "/closeka", "/closerep", "/err", "/errk/wb", "/errk/to", "/errk/intr", "/errk/pipe", "/errafter", "/all", "/first", "/k/2", "/reader/10", "/nosuch"];
    let hooks: [Option<&[u8]>; 3] = [None, Some(b"answer"), Some(b"answer-close")];
    let reps = if ctx.thorough { 6 } else { 1 };
    for _ in 0..reps {
        for c in &conns {
            for p in &paths {
                for h in &hooks {
                    let mut fields: Vec<(String, Vec<u8>)> = Vec::new();
                    let body: Vec<u8> = if *p == "/all" || *p == "/k/2" || *p == "/first" { b"hello".to_vec() } else { vec![] };
                    if !body.is_empty() { fields.push(("Content-Length".into(), b"5".to_vec())); }
                    for v in c { fields.push((rng.pick(&["Connection", "connection", "CONNECTION"]).to_string(), v.to_vec())); }
                    if let Some(hv) = h { fields.push(("x-hook".into(), hv.to_vec())); }
                    if rng.chance(1, 2) { fields.reverse(); }
                    let r = Req { method: if body.is_empty() { "GET" } else { "POST" }, path: p.to_string(), fields, body };
                    let g = rng.chance(1, 2);
                    let mut steps = exchange(&mut rng, &r, g);
                    steps.extend(exchange(&mut rng, &probe(), false));
                    if rng.chance(1, 3) { steps.extend(exchange(&mut rng, &probe(), false)); }
                    finish_case(&mut out, 4096, steps, &format!("conn={}/{}", c.len(), p));
                }
            }
        }
        // malformed first head, then probe
        for bad in [&b"GET / HTTP/1.1\r\nbad header\r\n\r\n"[..], b"GET  HTTP/1.1\r\n\r\n", b"GET / HTTP/2.0\r\n\r\n", b"GET / HTTP/1.1\r\nContent-Length: x\r\n\r\n",
                    b"POST /all HTTP/1.1\r\nTransfer-Encoding: gzip\r\n\r\n", b"POST /all HTTP/1.1\r\nTransfer-Encoding: chunked, gzip\r\n\r\n", b"POST /none HTTP/1.1\r\nHost: x\r\nTransfer-Encoding: identity\r\n\r\n"] {
            let mut steps = vec![format!("D{}", hex(bad)), "R".to_string()];
            steps.extend(exchange(&mut rng, &probe(), false));
            finish_case(&mut out, 4096, steps, "malformed-head");
        }
        // a head that fills the limit without ending (431): the connection is closed at once, whatever follows in the socket
        // (nothing, exactly 1 KiB, 2 KiB, or a few bytes)
        for extra in [0usize, 7, 1024, 2048, 1030] {
            let mut h = b"GET /none HTTP/1.1\r\nX: ".to_vec();
            while h.len() < 4096 + extra { h.push(b'p'); }
            let steps0 = vec![format!("D{}", hex(&h)), "R".to_string()];
            // without anything further from the client: the server must have closed by itself
            finish_case(&mut out, 4096, steps0.clone(), "head-too-large");
            let mut steps = steps0;
            steps.extend(exchange(&mut rng, &probe(), false));
            finish_case(&mut out, 4096, steps, "head-too-large");
        }
    }
    out.finish();
}

// ------------------------------------------------------------------------------------------ C05
pub fn gen05(ctx: &Ctx) {
    let mut rng = Rng::new(ctx.seed, "conn05");
    let mut out = Out::new(&ctx.dir, "conn05");
    out.rule = "first request to /all (method POST, GET, HEAD, TRACE, PUT, DELETE or a custom one) with every combination of Content-Length fields {absent, 5, +5, 5x, '5, 5', two equal, two different, 2^64, 20 digits, padded, 05, 0} x \
                Transfer-Encoding fields {absent, chunked, CHUNKED, 'chunked ', HT chunked, 'gzip, chunked', 'chunked, gzip', gzip, split over two lines both ways, empty}, both field orders, \
                body sent as a chunked encoding of 'hello' or as 5 raw bytes, head and body in the same or separate segments, one request in six with an HTTP/1.0 request line; then a probe request; unread bodies of 65535..140000 bytes (fixed and chunked) followed by a probe. non-trivial = at least one request answered".into();
    let cls: Vec<Vec<&[u8]>> = vec![vec![], vec![b"5"], vec![b"+5"], vec![b"5x"], vec![b"5, 5"], vec![b"5", b"5"], vec![b"5", b"6"], vec![b"18446744073709551616"],
        vec![b"99999999999999999999"], vec![b" 5\t"], vec![b"05"], vec![b"0"], vec![b""], vec![b"-5"], vec![b"5", b"x"], vec![b"\x0c5"], vec![b"\x0b5"], vec![b"5\x0c"]];
    let tes: Vec<Vec<&[u8]>> = vec![vec![], vec![b"chunked"], vec![b"CHUNKED"], vec![b"chunked "], vec![b"\tchunked"], vec![b"gzip, chunked"], vec![b"chunked, gzip"], vec![b"gzip"],
        vec![b"gzip", b"chunked"], vec![b"chunked", b"gzip"], vec![b""], vec![b"chunked, chunked"], vec![b"x-chunked"], vec![b"\x0cchunked"]];
    let reps = if ctx.thorough { 4 } else { 1 };
    for _ in 0..reps {
        for cl in &cls { for te in &tes { for order in 0..2 { for bodykind in 0..2 {
            let mut f1: Vec<(String, Vec<u8>)> = cl.iter().map(|v| (rng.pick(&["Content-Length", "content-length", "CONTENT-LENGTH"]).to_string(), v.to_vec())).collect();
            let f2: Vec<(String, Vec<u8>)> = te.iter().map(|v| (rng.pick(&["Transfer-Encoding", "transfer-encoding"]).to_string(), v.to_vec())).collect();
            let mut fields = if order == 0 { f1.extend(f2); f1 } else { let mut f = f2; f.extend(f1); f };
            // one request in five is answered by the pre-routing hook: the framing decision (incl. the 400 for an unframeable
            // request) does not depend on who answers
            // (only where the body sent is a well-formed instance of the announced framing: a malformed body that nobody reads is
            // finding F21, property C07)
            if rng.chance(1, 5) && (te.is_empty() || bodykind == 0) { fields.push(("x-hook".into(), b"answer".to_vec())); }
            // one request in six is an HTTP/1.0 request: the version plays no part in the framing decision either (seed C05-i
            // dropped Transfer-Encoding from HTTP/1.0 requests)
            if rng.chance(1, 6) { fields.push(("#http10".into(), vec![])); }
            // no framing field at all (or an explicit zero length): the request has no body, and a lock-step
            // client sends nothing before the response
            let bodyless = (cl.is_empty() && te.is_empty()) || (te.is_empty() && cl.iter().all(|v| *v == b"0"));
            // a chunked encoding is only sent when some Transfer-Encoding field announces one
            let body = if bodyless { vec![] } else if bodykind == 0 && !te.is_empty() { chunked(b"hello", &mut rng) } else { b"hello".to_vec() };
            // the method plays no part in RFC 9112 6.3
            let r = Req { method: *rng.pick(&["POST", "POST", "GET", "HEAD", "TRACE", "PUT", "DELETE", "PURGE"]), path: "/all".into(), fields, body };
            let g = rng.chance(1, 2);
                    let mut steps = exchange(&mut rng, &r, g);
            steps.extend(exchange(&mut rng, &probe(), false));
            finish_case(&mut out, 4096, steps, &format!("cl={}/te={}/{}", cl.len(), te.len(), if bodykind == 0 { "chunked-body" } else { "raw-body" }));
        } } } }
    }
    // bodies of 64 KiB and more that the handler does not read (or reads 3 bytes of): the next request starts after the whole
    // body all the same (seed C05-j capped the discard of an unread body at 64 KiB)
    for len in [65535usize, 65536, 65537, 70000, 140000] {
        for chunkedb in [false, true] {
            for path in ["/none", "/k/3", "/nosuch"] {
                if len > 70000 && path != "/none" { continue; }
                let payload: Vec<u8> = (0..len).map(|i| b'a' + (i % 23) as u8).collect();
                let (fields, body) = if chunkedb { (vec![("Transfer-Encoding".to_string(), b"chunked".to_vec())], { let mut e = Vec::new(); for c in payload.chunks(4096) { e.extend(format!("{:x}\r\n", c.len()).into_bytes()); e.extend(c); e.extend(b"\r\n"); } e.extend(b"0\r\n\r\n"); e }) }
                                     else { (vec![("Content-Length".to_string(), len.to_string().into_bytes())], payload.clone()) };
                let r = Req { method: "POST", path: path.into(), fields, body };
                let mut steps = vec![format!("D{}", hex(&r.head()))];
                for c in r.body.chunks(50000) { steps.push(format!("D{}", hex(c))); }
                steps.push("R".into());
                steps.extend(exchange(&mut rng, &probe(), false));
                finish_case(&mut out, 4096, steps, &format!("big-unread-body/{}{path}", if chunkedb { "chunked" } else { "fixed" }));
            }
        }
    }
    gen_timeouts(&mut out, &mut rng, if ctx.thorough { 16 } else { 4 });
    out.finish();
}

/// a read timeout on the server's socket (400 ms) and a sender that pauses for longer (700 ms) in the middle of a body: the
/// read fails where it stands; whoever was reading (the handler, or the server discarding the rest), the position of the
/// next request is not established and the connection is closed after the response - the rest of the body and a further
/// request, sent after the pause, are never looked at.  The first history is the one of seed C05-l: the pause falls inside
/// a chunk-size line (`3|0`), and the remaining bytes read, by themselves, as a last chunk followed by a request.
fn gen_timeouts(out: &mut Out, rng: &mut Rng, count: usize) {
    for i in 0..count {
        let crafted = i % 3 == 0;
        let (path, head_part, rest, first_answers): (&str, Vec<u8>, Vec<u8>, bool) = if crafted {
            let path = *rng.pick(&["/first", "/firstl", "/none"]);
            let r = Req { method: "POST", path: path.into(), fields: vec![("Transfer-Encoding".into(), b"chunked".to_vec())], body: vec![] };
            let mut a = r.head(); a.extend(b"3");
            let inner = b"\r\nGET /none?smuggled HTTP/1.1\r\n\r\n".to_vec();
            let mut data = inner.clone(); while data.len() < 0x30 { data.push(b'x'); }
            let mut b = b"0\r\n".to_vec(); b.extend(&data); b.extend(b"\r\n0\r\n\r\n");
            (path, a, b, true)
        } else {
            let path = *rng.pick(&["/all", "/first", "/none", "/k/1000", "/alll", "/firstl", "/k/2"]);
            let blen = rng.range(8, 200) as usize;
            let payload: Vec<u8> = (0..blen).map(|j| b'a' + (j % 26) as u8).collect();
            let fixed = rng.chance(1, 2);
            let (fields, body) = if fixed { (vec![("Content-Length".to_string(), blen.to_string().into_bytes())], payload.clone()) }
                                 else { (vec![("Transfer-Encoding".to_string(), b"chunked".to_vec())], chunked(&payload, rng)) };
            let r = Req { method: "POST", path: path.into(), fields, body };
            let c = rng.range(1, r.body.len() as u64 - 1) as usize;
            let mut a = r.head(); a.extend(&r.body[..c]);
            let mut b = r.body[c..].to_vec(); b.extend(probe().head());
            // /k/2 has its two bytes and answers before the pause as well
            (path, a, b, path.starts_with("/first") || path == "/none" || (path == "/k/2" && c >= 2 && fixed))
        };
        let mut steps = vec![format!("D{}", hex(&head_part))];
        if first_answers { steps.push("R".into()); }
        // (a read that has delivered part of a chunk returns those bytes and the next one waits once more: the reader gives up
        // within two timeouts, 800 ms; in the crafted history nothing of a chunk has been delivered: one timeout, and the rest
        // arrives within the next one - the window in which the changed code of seed C05-l goes on reading)
        steps.push((if crafted { "P700" } else { "P1200" }).into());
        steps.push(format!("D{}", hex(&rest)));
        steps.push("R".into()); steps.push("R".into());
        finish_case_warm(out, "4096,T400", steps, &format!("read-timeout/{}{path}", if crafted { "size-line" } else { "mid-body" }));
    }
}

// ------------------------------------------------------------------------------------------ C07
pub fn gen07(ctx: &Ctx) {
    let mut rng = Rng::new(ctx.seed, "conn07");
    let mut out = Out::new(&ctx.dir, "conn07");
    out.rule = "histories of 1..5 lock-step requests on one connection mixing no body / fixed / chunked bodies (0..300 bytes, some 5000; chunked spelled chunked / Chunked / CHUNKED / with trailing OWS / as last list member; any method, also GET HEAD TRACE DELETE with a body) x handler behaviours {read all, read k, read nothing, \
                respond first, respond+close, Err, hook answers} x segmentations (one segment, head|body, byte-by-byte, small pieces); and `hold` histories where the next request is delivered \
                together with the unread rest of the body while the handler that already responded is held. non-trivial = at least two requests answered".into();
    let n = if ctx.thorough { 6000 } else { 500 };
    for i in 0..n {
        let k = rng.range(1, 5);
        let mut steps = Vec::new();
        let mut class = String::new();
        for j in 0..k {
            let blen = match rng.below(6) { 0 => 0, 1 => 1, 5 if i % 10 == 0 => 5000, _ => rng.below(300) as usize };
            let payload: Vec<u8> = (0..blen).map(|_| match rng.below(6) { 0 => b'\r', 1 => b'\n', _ => b'a' + rng.below(26) as u8 }).collect();
            let framing = if blen == 0 { rng.below(3) } else { 1 + rng.below(2) };
            let (mut fields, body): (Vec<(String, Vec<u8>)>, Vec<u8>) = match framing {
                0 => (vec![], vec![]),
                1 => (vec![("Content-Length".into(), blen.to_string().into_bytes())], payload.clone()),
                // every spelling whose final coding is chunked (single coding in any case, with trailing OWS, last member of a list)
                _ => (vec![(rng.pick(&["Transfer-Encoding", "transfer-encoding", "TRANSFER-ENCODING"]).to_string(),
                            rng.pick(&[&b"chunked"[..], b"chunked", b"Chunked", b"CHUNKED", b"chunked ", b"chunked\t", b"gzip, chunked", b"gzip , Chunked "]).to_vec())], chunked(&payload, &mut rng)),
            };
            let path = match rng.below(12) {
                0..=3 => "/all".to_string(), 4 => format!("/k/{}", rng.below(blen as u64 + 3)), 5 => "/none".into(), 6 => "/first".into(),
                7 => "/nosuch".into(), 8 => format!("/reader/{}", rng.below(3000)), 9 if j + 1 == k => "/close".into(), 10 if j + 1 == k => "/err".into(), _ => "/all?x=1".into(),
            };
            if rng.chance(1, 12) { fields.push(("x-hook".into(), b"answer".to_vec())); }
            if rng.chance(1, 4) { fields.push(("Host".into(), b"example.com".to_vec())); }
            class.push_str(["n", "f", "c"][framing as usize]);
            // framing is decided by the framing fields, never by the method: bodies also ride on GET, HEAD, TRACE, DELETE, custom methods
            let method = if rng.chance(1, 3) { *rng.pick(&["GET", "HEAD", "TRACE", "DELETE", "PUT", "OPTIONS", "PURGE", "get"]) } else if body.is_empty() { "GET" } else { "POST" };
            let r = Req { method, path, fields, body };
            let g = rng.chance(1, 3);
            steps.extend(exchange(&mut rng, &r, g));
        }
        finish_case(&mut out, 4096, steps, &format!("lockstep/{class}"));
    }
    // a head limit above the body reader's 4 KiB buffer, and a body of 5..13 KB that arrives in one segment with the head:
    // the bytes read with the head (the leftover) are consumed over several reads
    for _ in 0..(if ctx.thorough { 60 } else { 8 }) {
        let blen = rng.range(5000, 13000) as usize;
        let payload: Vec<u8> = (0..blen).map(|i| b'a' + ((i * 7 + i / 251) % 26) as u8).collect();
        let chunkedb = rng.chance(1, 2);
        let (fields, body) = if chunkedb { (vec![("Transfer-Encoding".to_string(), b"chunked".to_vec())], chunked(&payload, &mut rng)) }
                             else { (vec![("Content-Length".to_string(), blen.to_string().into_bytes())], payload.clone()) };
        let r = Req { method: "POST", path: rng.pick(&["/all", "/k/9000", "/first"]).to_string(), fields, body };
        let mut all = r.head(); all.extend(&r.body);
        let mut steps = vec![format!("D{}", hex(&all)), "R".to_string()];
        steps.extend(exchange(&mut rng, &probe(), false));
        finish_case(&mut out, 16384, steps, if chunkedb { "big-leftover/chunked" } else { "big-leftover/fixed" });
    }
    // malformed or truncated bodies: the handler either reads the body (error -> close) or ignores it
    let mb = if ctx.thorough { 400 } else { 60 };
    for _ in 0..mb {
        let good = chunked(b"hello world", &mut rng);
        let (fields, body, kind): (Vec<(String, Vec<u8>)>, Vec<u8>, &str) = match rng.below(5) {
            // a chunk size above 2^64 that agrees with the data modulo 2^64 (seed C07-i)
            4 => { (vec![("Transfer-Encoding".to_string(), b"chunked".to_vec())], b"10000000000000005\r\nhello\r\n0\r\n\r\n".to_vec(), "overflow-size") }
            0 => { let mut b = good.clone(); b[0] = b'x'; (vec![("Transfer-Encoding".to_string(), b"chunked".to_vec())], b, "bad-size") }
            1 => { let pos = good.windows(2).rposition(|w| w == b"\r\n").unwrap(); let mut b = good.clone(); b[pos] = b'Z'; (vec![("Transfer-Encoding".to_string(), b"chunked".to_vec())], b, "bad-end") }
            2 => { let mut b = b"5\r\nhelloXX".to_vec(); b.extend(b"0\r\n\r\n"); (vec![("Transfer-Encoding".to_string(), b"chunked".to_vec())], b, "bad-crlf") }
            _ => { (vec![("Transfer-Encoding".to_string(), b"chunked".to_vec())], b"zz\r\nhello\r\n0\r\n\r\n".to_vec(), "bad-size") }
        };
        // (/alll and /firstl: the handler reads through the BufRead face)
        let path = *rng.pick(&["/all", "/none", "/first", "/k/3", "/close", "/firstl", "/alll", "/firstl"]);
        let r = Req { method: "POST", path: path.into(), fields, body };
        let g = rng.chance(1, 2);
        let mut steps = exchange(&mut rng, &r, g);
        steps.extend(exchange(&mut rng, &probe(), false));
        finish_case(&mut out, 4096, steps, &format!("malformed-body/{kind}{path}"));
    }
    // pipelined requests (since the repair of F20c nothing read beyond a request's body is lost): 2..4 requests sent without
    // waiting for the answers, as one segment, cut anywhere, or in small pieces; every one is answered, in order
    let np = if ctx.thorough { 600 } else { 80 };
    for _ in 0..np {
        let k = rng.range(2, 4) as usize;
        let mut all: Vec<u8> = Vec::new();
        for j in 0..k {
            let blen = rng.range(0, 30) as usize;
            let payload: Vec<u8> = (0..blen).map(|_| b'a' + rng.below(26) as u8).collect();
            let (fields, body) = match rng.below(3) {
                0 => (vec![], vec![]),
                1 => (vec![("Content-Length".to_string(), blen.to_string().into_bytes())], payload.clone()),
                _ => (vec![("Transfer-Encoding".to_string(), b"chunked".to_vec())], chunked(&payload, &mut rng)),
            };
            let path = match rng.below(6) { 0 => "/none".to_string(), 1 => "/first".to_string(), 2 => format!("/k/{}", rng.below(5)), 3 => "/nosuch".to_string(), _ => format!("/all?p={j}") };
            let r = Req { method: if body.is_empty() && fields.is_empty() { "GET" } else { "POST" }, path, fields, body };
            all.extend(r.head()); all.extend(&r.body);
        }
        let style = *rng.pick(&[0u64, 1, 1, 3]);
        let mut steps: Vec<String> = cut(&mut rng, &all, style).iter().map(|s| format!("D{}", hex(s))).collect();
        for _ in 0..k { steps.push("R".into()); }
        steps.extend(exchange(&mut rng, &probe(), false));
        finish_case(&mut out, 4096, steps, &format!("pipelined/{k}"));
    }
    // pipelining against small head limits: a chunked first request whose body runs past the first N bytes of its segment (so the
    // body reader goes to the socket with its 4 KiB read-ahead), followed in the same segment by more than N bytes of further
    // requests - the carry is then longer than the head limit (round-6 seeds cut, dropped or rejected it there); also a carried
    // head of N+1 bytes (431 all the same), carried requests with fixed-length bodies, and long pipelines of small requests
    for &n in &[64usize, 256, 1024, 4096, 16384] {
        for variant in 0..(if ctx.thorough { 12 } else { 4 }) {
            let blen = n + 40 + rng.below(200) as usize;
            let payload: Vec<u8> = (0..blen).map(|i| b'a' + (i % 26) as u8).collect();
            let first = Req { method: "POST", path: (*rng.pick(&["/all?first", "/none", "/first", "/k/5"])).to_string(), fields: vec![("Transfer-Encoding".to_string(), b"chunked".to_vec())], body: chunked(&payload, &mut rng) };
            let mut all: Vec<u8> = first.head(); all.extend(&first.body);
            let mut nreq = 1;
            // further requests: at least N + 100 bytes of them
            let start = all.len();
            while all.len() - start < n + 100 || nreq < 3 {
                let r = match rng.below(4) {
                    0 => { let b: Vec<u8> = (0..rng.range(1, 60)).map(|i| b'A' + (i % 26) as u8).collect(); Req { method: "POST", path: format!("/all?n={nreq}"), fields: vec![("Content-Length".to_string(), b.len().to_string().into_bytes())], body: b } }
                    1 => Req { method: "GET", path: format!("/none?n={nreq}"), fields: vec![], body: vec![] },
                    2 => Req { method: "POST", path: format!("/all?c={nreq}"), fields: vec![("Transfer-Encoding".to_string(), b"chunked".to_vec())], body: chunked(b"carried chunked body", &mut rng) },
                    _ => Req { method: "GET", path: format!("/nosuch/{nreq}"), fields: vec![], body: vec![] },
                };
                if r.head().len() + 4 > n { if n <= 64 { let g = Req { method: "GET", path: "/".into(), fields: vec![], body: vec![] }; all.extend(g.head()); nreq += 1; } continue; }
                all.extend(r.head()); all.extend(&r.body); nreq += 1;
                if nreq > 400 { break; }
            }
            // (only where the whole tail is certain to have been read together with the first body - limits of 64 / 256 and a
            // tail below 3000 bytes: a server that closes while bytes are still unread in its socket resets the connection,
            // and a reset discards the answers the client has not read yet)
            if variant % 4 == 3 && n <= 256 && all.len() - start < 2800 {
                // the last carried head is one byte too long for the limit: 431 and close, whatever was carried
                let mut r = Req { method: "GET", path: "/none".into(), fields: vec![], body: vec![] };
                let base = r.head().len(); if n + 1 > base + 5 { r.fields.insert(0, ("x".into(), vec![b'p'; n + 1 - base - 5])); all.extend(r.head()); nreq += 1; }
            }
            let style = [0u64, 1, 0, 0][variant % 4];
            let mut steps: Vec<String> = cut(&mut rng, &all, style).iter().map(|s| format!("D{}", hex(s))).collect();
            for _ in 0..nreq { steps.push("R".into()); }
            finish_case(&mut out, n, steps, &format!("pipelined-small-limit/N={n}"));
        }
    }
    // a close signalled by the response (or by a hook answer) with a further request pipelined behind it: nothing more is answered
    for first in ["/close", "/closer", "/none+close", "/none+hookclose", "/err", "/errafter"] {
        for _ in 0..(if ctx.thorough { 6 } else { 2 }) {
            let (path, fields): (&str, Vec<(String, Vec<u8>)>) = match first {
                "/none+close" => ("/none", vec![("Connection".to_string(), b"close".to_vec())]),
                "/none+hookclose" => ("/none", vec![("x-hook".to_string(), b"answer-close".to_vec())]),
                p => (p, vec![]) };
            let r1 = Req { method: "GET", path: path.into(), fields, body: vec![] };
            let r2 = Req { method: "GET", path: "/none?behind".into(), fields: vec![], body: vec![] };
            let mut all = r1.head(); all.extend(r2.head());
            // (one segment: bytes that arrive after the server has closed would reset the connection)
            let mut steps: Vec<String> = vec![format!("D{}", hex(&all))];
            steps.push("R".into()); steps.push("R".into());
            finish_case(&mut out, 4096, steps, &format!("pipelined-behind-close{first}"));
        }
    }
    // a carried prefix that is already malformed but has no blank line yet: 400 at once, not "incomplete"
    {
        let mut all = Req { method: "GET", path: "/none?a".into(), fields: vec![], body: vec![] }.head();
        all.extend(b"GET /b HTTP/1.1\r\nthis header line has no colon\r\n");
        finish_case(&mut out, 4096, vec![format!("D{}", hex(&all)), "R".into(), "R".into()], "pipelined-malformed-prefix");
    }
    gen_timeouts(&mut out, &mut rng, if ctx.thorough { 24 } else { 6 });
    // hold histories: request i answers before its body is read; the rest of its body and the whole next
    // request reach the server in one piece while the handler is held
    let m = if ctx.thorough { 600 } else { 60 };
    for _ in 0..m {
        let blen = rng.range(1, 40) as usize;
        let payload: Vec<u8> = (0..blen).map(|_| b'a' + rng.below(26) as u8).collect();
        let fixed = rng.chance(1, 2);
        let (fields, body) = if fixed { (vec![("Content-Length".to_string(), blen.to_string().into_bytes())], payload.clone()) }
                             else { (vec![("Transfer-Encoding".to_string(), b"chunked".to_vec())], chunked(&payload, &mut rng)) };
        let r = Req { method: "POST", path: "/hold".into(), fields, body };
        let mut steps = vec![format!("D{}", hex(&r.head())), "R".to_string()];
        let mut merged = r.body.clone(); merged.extend(probe().head());
        steps.push(format!("D{}", hex(&merged)));
        steps.push("G".into());
        steps.push("R".into());
        steps.extend(exchange(&mut rng, &probe(), false));
        finish_case(&mut out, 4096, steps, if fixed { "hold/fixed" } else { "hold/chunked" });
    }
    out.finish();
}


fn small_req(rng: &mut Rng, nreq: usize) -> Req {
    match rng.below(4) {
        0 => { let b: Vec<u8> = (0..rng.range(1, 60)).map(|i| b'A' + ((i + nreq as u64) % 26) as u8).collect(); Req { method: "POST", path: format!("/all?n={nreq}"), fields: vec![("Content-Length".to_string(), b.len().to_string().into_bytes())], body: b } }
        1 => Req { method: "GET", path: format!("/none?n={nreq}"), fields: vec![], body: vec![] },
        2 => { let b = format!("carried chunked body {nreq}"); Req { method: "POST", path: format!("/all?c={nreq}"), fields: vec![("Transfer-Encoding".to_string(), b"chunked".to_vec())], body: chunked(b.as_bytes(), rng) } }
        _ => Req { method: "GET", path: format!("/nosuch/{nreq}"), fields: vec![], body: vec![] },
    }
}

/// a chunked first request whose body runs past the first N bytes of its segment, followed by more than N bytes of further
/// requests (variant % 4 == 2: more than N + 4096, so that part of them is still in the socket when the body reader has read
/// ahead; variant % 4 == 3 and N <= 256: ending with a head of N + 1 bytes): (bytes, number of requests, ends in 431, long)
pub fn carry_beyond_limit(rng: &mut Rng, n: usize, variant: usize) -> (Vec<u8>, usize, bool, bool) {
    let blen = n + 40 + rng.below(200) as usize;
    let payload: Vec<u8> = (0..blen).map(|i| b'a' + (i % 26) as u8).collect();
    let first = Req { method: "POST", path: (*rng.pick(&["/all?first", "/none", "/first", "/k/5"])).to_string(), fields: vec![("Transfer-Encoding".to_string(), b"chunked".to_vec())], body: chunked(&payload, rng) };
    let mut all: Vec<u8> = first.head(); all.extend(&first.body);
    let mut nreq = 1;
    let start = all.len();
    let long = variant % 4 == 2 && n <= 4096;
    let want = if long { n + 4096 + 1500 } else { n + 100 };
    while all.len() - start < want || nreq < 3 {
        let r = small_req(rng, nreq);
        if r.head().len() + 4 > n { if n <= 64 { let g = Req { method: "GET", path: "/".into(), fields: vec![], body: vec![] }; all.extend(g.head()); nreq += 1; } continue; }
        all.extend(r.head()); all.extend(&r.body); nreq += 1;
        if nreq > 600 { break; }
    }
    let mut tail431 = variant % 4 == 3 && n <= 256 && all.len() - start < 2800;
    if tail431 {
        let mut r = Req { method: "GET", path: "/none".into(), fields: vec![], body: vec![] };
        let base = r.head().len(); if n + 1 > base + 5 { r.fields.insert(0, ("x".into(), vec![b'p'; n + 1 - base - 5])); all.extend(r.head()); nreq += 1; } else { tail431 = false; }
    }
    (all, nreq, tail431, long)
}

// ------------------------------------------------------------------------------------------ pipelined histories (C03 C05 C06 C09 C10)
/// stream `connpipe`: requests sent without waiting for the answers, against head limits from 64 to 16384 bytes; the same
/// bytes under several segmentations (scripts joined by '#', as in `segpair`).  What is read beyond a request's body is
/// carried over to the next request: however much that is (more than the head limit, more than the body reader's 4 KiB
/// buffer, more than both), every request whose head fits the limit is answered, in order, from its own bytes.
pub fn gen_pipe(ctx: &Ctx) {
    let mut rng = Rng::new(ctx.seed, "connpipe");
    let mut out = Out::new(&ctx.dir, "connpipe");
    out.rule = "pipelined requests on one connection under head limits N in {64, 256, 1024, 4096, 16384}: (a) a chunked first request whose body runs past the first N bytes of its segment, followed by more than N \
                (or more than N + 4096) bytes of further requests with fixed-length / chunked / no bodies, optionally ending with a head of N+1 bytes; (b) N = 16384: a short chunked first request followed in the same \
                segment by 5..12 KB of further requests; (c) a response that closes with a request pipelined behind it; (d) a carried malformed prefix without a blank line. Each as one segment, cut at a random point, \
                and in small pieces where no close is involved: all segmentations must give the same transcript, and it must be the sequential reading of the bytes. non-trivial = at least two requests answered".into();
    let emit = |out: &mut Out, rng: &mut Rng, n: usize, all: &[u8], nreq: usize, styles: &[u64], class: &str| {
        let scripts: Vec<String> = styles.iter().map(|&st| {
            let mut steps: Vec<String> = cut(rng, all, st).iter().map(|s| format!("D{}", hex(s))).collect();
            for _ in 0..nreq { steps.push("R".into()); }
            format!("N={n};{}", steps.join(";"))
        }).collect();
        let case = scripts.join("#");
        let res = run_segpair(&case);
        let answered = res.split('#').next().unwrap_or("").split(|c| c == ';' || c == '|').filter(|e| e.len() > 3 && e.as_bytes()[3] == b',').count();
        out.emit(&case, &res, class, answered >= 2);
    };
    // (a)
    for &n in &[64usize, 256, 1024, 4096, 16384] {
        for variant in 0..(if ctx.thorough { 16 } else { 4 }) {
            let (all, nreq, tail431, long) = carry_beyond_limit(&mut rng, n, variant);
            // (a close with bytes still unread in the server's socket resets the connection and the client loses the answers it
            // has not read yet: the history that ends in 431 is delivered as one segment only)
            let styles: &[u64] = if tail431 { &[0] } else { &[0, 1, 3] };
            emit(&mut out, &mut rng, n, &all, nreq, styles, &format!("carry-beyond-limit/N={n}{}", if tail431 { "/431" } else if long { "/long" } else { "" }));
        }
    }
    // (b)
    for _ in 0..(if ctx.thorough { 12 } else { 3 }) {
        let payload: Vec<u8> = (0..rng.range(1, 300)).map(|i| b'a' + (i % 26) as u8).collect();
        let first = Req { method: "POST", path: (*rng.pick(&["/all?first", "/none", "/first"])).to_string(), fields: vec![("Transfer-Encoding".to_string(), b"chunked".to_vec())], body: chunked(&payload, &mut rng) };
        let mut all: Vec<u8> = first.head(); all.extend(&first.body);
        let mut nreq = 1;
        let start = all.len();
        let want = rng.range(5000, 12000) as usize;
        while all.len() - start < want { let r = small_req(&mut rng, nreq); all.extend(r.head()); all.extend(&r.body); nreq += 1; }
        emit(&mut out, &mut rng, 16384, &all, nreq, &[0, 1, 3], "arrived-with-the-head/N=16384");
    }
    // (c)
    for first in ["/close", "/closer", "/none+close", "/none+hookclose", "/err", "/errafter"] {
        let (path, fields): (&str, Vec<(String, Vec<u8>)>) = match first {
            "/none+close" => ("/none", vec![("Connection".to_string(), b"close".to_vec())]),
            "/none+hookclose" => ("/none", vec![("x-hook".to_string(), b"answer-close".to_vec())]),
            p => (p, vec![]) };
        let r1 = Req { method: "GET", path: path.into(), fields, body: vec![] };
        let r2 = Req { method: "GET", path: "/none?behind".into(), fields: vec![], body: vec![] };
        let mut all = r1.head(); all.extend(r2.head());
        emit(&mut out, &mut rng, 4096, &all, 2, &[0], &format!("behind-close{first}"));
    }
    // (d)
    {
        let mut all = Req { method: "GET", path: "/none?a".into(), fields: vec![], body: vec![] }.head();
        all.extend(b"GET /b HTTP/1.1\r\nthis header line has no colon\r\n");
        emit(&mut out, &mut rng, 4096, &all, 2, &[0], "malformed-prefix");
    }
    out.finish();
}

// ------------------------------------------------------------------------------------------ C03 (pairs)
/// stream `segpair`: a request with a body followed (lock-step) by a probe, the first request delivered under several
/// segmentations; case = the scripts joined by '#', impl = the transcripts joined by '#'
pub fn run_segpair(case: &str) -> String {
    crate::util::note_current(case);
    case.split('#').map(run).collect::<Vec<_>>().join("#")
}
pub fn gen_segpair(ctx: &Ctx) {
    let mut rng = Rng::new(ctx.seed, "segpair");
    let mut out = Out::new(&ctx.dir, "segpair");
    out.rule = "a request with a fixed-length body (handler reads all / none / 2 bytes / answers first; pre-routing hook proceeds / answers / answers with close; any method) followed in lock-step by a \
                probe request; the first request's bytes are delivered as one segment, head | body, head + 1 body byte | rest, a cut inside the head, and small pieces: every segmentation must give \
                the same transcript. non-trivial = all".into();
    let n = if ctx.thorough { 600 } else { 60 };
    for _ in 0..n {
        let blen = rng.range(2, 60) as usize;
        let body: Vec<u8> = (0..blen).map(|_| b'a' + rng.below(26) as u8).collect();
        let mut fields: Vec<(String, Vec<u8>)> = vec![("Content-Length".into(), blen.to_string().into_bytes())];
        match rng.below(4) { 0 => fields.push(("x-hook".into(), b"answer".to_vec())), 1 => fields.push(("x-hook".into(), b"answer-close".to_vec())), _ => {} }
        if rng.chance(1, 2) { fields.reverse(); }
        let path = *rng.pick(&["/all", "/none", "/k/2", "/first", "/nosuch"]);
        let r = Req { method: *rng.pick(&["POST", "PUT", "GET", "DELETE"]), path: path.into(), fields, body };
        let head = r.head();
        let mut all = head.clone(); all.extend(&r.body);
        let hc = rng.range(1, head.len() as u64 - 1) as usize;
        let segs: Vec<Vec<Vec<u8>>> = vec![
            vec![all.clone()],
            vec![head.clone(), r.body.clone()],
            vec![all[..head.len() + 1].to_vec(), all[head.len() + 1..].to_vec()],
            vec![all[..hc].to_vec(), all[hc..].to_vec()],
            cut(&mut rng, &all, 3),
        ];
        let tail = exchange(&mut rng, &probe(), false);
        let scripts: Vec<String> = segs.iter().map(|sg| {
            let mut steps: Vec<String> = sg.iter().filter(|x| !x.is_empty()).map(|x| format!("D{}", hex(x))).collect();
            steps.push("R".into());
            steps.extend(tail.clone());
            format!("N=4096;{}", steps.join(";"))
        }).collect();
        let case = scripts.join("#");
        let res = run_segpair(&case);
        out.emit(&case, &res, &format!("first={path}"), true);
    }
    // a head longer than the limit, on a thread that has served a connection under a larger limit before: whether it arrives
    // in one segment (jumping over the limit) or in pieces that land on it, the answer is the same (seed C03-i)
    for (n, hl) in [(256usize, 320usize), (256, 257), (64, 100), (1000, 1300)] {
        let mut r = Req { method: "GET", path: "/none".into(), fields: vec![], body: vec![] };
        let base = r.head().len();
        r.fields.insert(0, ("x".into(), vec![b'p'; hl - base - 5]));
        let head = r.head();
        let tail = exchange(&mut rng, &probe(), false);
        let segs: Vec<Vec<Vec<u8>>> = vec![vec![head.clone()], head.chunks(32).map(|c| c.to_vec()).collect(), vec![head[..n].to_vec(), head[n..].to_vec()], vec![head[..n - 1].to_vec(), head[n - 1..].to_vec()], cut(&mut rng, &head, 1)];
        let scripts: Vec<String> = segs.iter().map(|sg| {
            let mut steps: Vec<String> = sg.iter().filter(|x| !x.is_empty()).map(|x| format!("D{}", hex(x))).collect();
            steps.push("R".into());
            steps.extend(tail.clone());
            format!("N={n},Wo16384;{}", steps.join(";"))
        }).collect();
        let case = scripts.join("#");
        let res = run_segpair(&case);
        out.emit(&case, &res, "over-limit-after-larger-limit", true);
    }
    out.finish();
}
