//! C14 / C15 stream `epoll`: real serve_epoll runs with concurrent clients, recorded through hook H3.
//! case:  `<workers> <conns> <maxreqs> <addfail> <salt>`  (addfail = number of connections whose EPOLL_CTL_ADD is made to fail)
//! impl:  `<trace> clients=<ok|bad:...> accepted=<n> freed=<n> dropped=<n>` with trace tokens (connection = index of
//!        the record incarnation in order of first appearance); recalloc / recfree = allocations / deallocations of 64-byte-aligned
//!        blocks seen by the harness's global allocator during the run (the connection records)
//!        A<i> accept, A<i>! ADD failed, V<i> event seen, S<i> closed seen (stale), O<i> CAS ok (dispatched), F<i> free,
//!        B batch end, J<i> job start, R<i> re-arm, D<i> DEL, X<i> stream drop, C<i> closed store, G<i> record handed back (graveyard)
use crate::s_conn::{app, parse_response};
use crate::util::*;
use crate::Ctx;
use khttp::verif::{self, Event};
use khttp::{ConnectionSetupAction, Server};
use std::collections::HashMap;
use std::io::{Read, Write};
use std::net::TcpStream;
use std::sync::atomic::{AtomicBool, Ordering};
use std::sync::Arc;
use std::time::{Duration, Instant};

fn read_one(s: &mut TcpStream, rbuf: &mut Vec<u8>) -> Option<String> {
    let mut tmp = [0u8; 16384];
    loop {
        if let Some((used, r)) = parse_response(rbuf) { rbuf.drain(..used); return Some(r); }
        match s.read(&mut tmp) { Ok(0) => return None, Ok(n) => rbuf.extend_from_slice(&tmp[..n]), Err(_) => return None }
    }
}

pub fn run(case: &str) -> String {
    crate::util::note_current(case);
    let f: Vec<u64> = case.split(' ').map(|x| x.parse().unwrap()).collect();
    let (workers, nconn, maxreq, addfail, salt) = (f[0] as usize, f[1] as usize, f[2], f[3] as usize, f[4]);
    let _ = verif::take_log();
    let (a64a0, a64f0) = (crate::A64_ALLOCS.load(Ordering::SeqCst), crate::A64_FREES.load(Ordering::SeqCst));
    let port = listen_port();
    let stop = Arc::new(AtomicBool::new(false));
    let mut b = Server::builder(("127.0.0.1", port)).unwrap();
    b.thread_count(workers);
    b.fallback_route(app);
    // the setup hook runs on the event-loop thread: when it lingers, workers finish (and close) connections whose
    // events are already in the loop's current batch - the path on which the loop itself reclaims a record
    let hook_us = [0u64, 0, 300, 1500, 4000][(salt % 5) as usize];
    let stagger = salt % 3 != 0;
    let clone_streams = (salt / 5) % 3 == 0;
    let signals = (salt / 15) % 4 == 0;
    let burst = workers == 1 && nconn > 60;
    { let stop = stop.clone(); b.connection_setup_hook(move |c| {
        if stop.load(Ordering::SeqCst) { return ConnectionSetupAction::StopAccepting; }
        if hook_us > 0 { std::thread::sleep(Duration::from_micros(hook_us)); }
        match c {
            // every third run hands back a clone of the accepted stream (another descriptor for the same connection)
            Ok((s, _)) => if clone_streams { match s.try_clone() { Ok(c2) => { drop(s); ConnectionSetupAction::Proceed(c2) } Err(_) => ConnectionSetupAction::Proceed(s) } } else { ConnectionSetupAction::Proceed(s) },
            Err(_) => ConnectionSetupAction::Drop } }); }
    let server = b.build();
    let th = std::thread::spawn(move || { let _ = server.serve_epoll(); });
    // every fourth run interrupts the event loop's epoll_wait a few times (a signal with a handler, delivered to that thread)
    let sig_stop = Arc::new(AtomicBool::new(false));
    let sig_thread = if signals {
        use std::os::unix::thread::JoinHandleExt;
        extern "C" fn noop(_: libc::c_int) {}
        unsafe {
            let mut sa: libc::sigaction = std::mem::zeroed();
            sa.sa_sigaction = noop as usize;
            libc::sigaction(libc::SIGUSR1, &sa, std::ptr::null_mut());
        }
        let pt = th.as_pthread_t();
        let stop2 = sig_stop.clone();
        Some(std::thread::spawn(move || {
            for k in 0..6 {
                std::thread::sleep(Duration::from_micros(300 + 1700 * k));
                if stop2.load(Ordering::SeqCst) { break; }
                unsafe { libc::pthread_kill(pt, libc::SIGUSR1); }
            }
        }))
    } else { None };
    let connect = || -> Option<TcpStream> {
        let t = Instant::now();
        loop { match TcpStream::connect(("127.0.0.1", port)) { Ok(s) => return Some(s), Err(_) => { if t.elapsed() > Duration::from_secs(2) { return None; } std::thread::sleep(Duration::from_millis(1)); } } }
    };
    // connections whose registration fails: made first, one at a time, so that the injected failures hit them
    let mut bad: Vec<String> = Vec::new();
    for _ in 0..addfail {
        verif::fail_next_adds(1);
        if let Some(mut s) = connect() {
            s.set_read_timeout(Some(Duration::from_millis(1000))).unwrap();
            let _ = s.write_all(b"GET /none HTTP/1.1\r\n\r\n");
            let mut tmp = [0u8; 64];
            match s.read(&mut tmp) { Ok(0) => {}, Ok(_) => bad.push("addfail-conn-answered".into()), Err(e) if e.kind() == std::io::ErrorKind::WouldBlock || e.kind() == std::io::ErrorKind::TimedOut => bad.push("addfail-conn-left-open".into()), Err(_) => {} }
        }
    }
    verif::fail_next_adds(0);
    // stalled clients (every third run with at least two workers): the first workers-1 clients send half a request head and
    // complete it only when every other client has finished (or after 6 s, more than the other clients' 5 s timeout): each of
    // them occupies one worker, and the remaining worker must serve all the other connections (seed C14-g: a pool one
    // thread smaller than configured)
    let nstall = if workers >= 2 && nconn >= workers && (salt / 7) % 3 == 0 && !(workers == 1 && nconn > 60) { workers - 1 } else { 0 };
    let others_done = Arc::new(std::sync::atomic::AtomicUsize::new(0));
    // concurrent lock-step clients
    let mut hs = Vec::new();
    for ci in 0..nconn {
        let others_done = others_done.clone();
        let staller = ci < nstall;
        let mut rng = Rng::new(salt.wrapping_add(ci as u64 * 7919), "epollclient");
        let nreq = rng.range(1, maxreq.max(1));
        // 0 client close, 1 connection: close on last request, 2 handler Err (of several io::ErrorKinds), 3 /close route,
        // 4 the client resets the connection (RST) while its last request is still in the handler
        // 5 the client sends half a request head and then half-closes: the server must give the connection up
        let ending = rng.below(6);
        let errpath = *rng.pick(&["/err", "/errk/wb", "/errk/to", "/errk/intr", "/err"]);
        // an eager client uses slow handlers (the response is sent first, then the handler lingers): its next request,
        // or its close, reaches the server while the previous request is still in flight on a worker
        let eager = rng.chance(1, 3);
        // burst runs: one worker, many connections, the first one keeps the worker busy for 20 ms while all the others become ready
        let hog = burst && ci == 0;
        let hh = std::thread::spawn(move || -> Result<(), String> {
          let r = (|| -> Result<(), String> {
            if burst { if ci > 0 { std::thread::sleep(Duration::from_millis(2)); } } else if stagger { std::thread::sleep(Duration::from_micros(rng.below(9000))); }
            let mut s = {
                let t = Instant::now();
                loop { match TcpStream::connect(("127.0.0.1", port)) { Ok(s) => break s, Err(_) => { if t.elapsed() > Duration::from_secs(2) { return Err("connect".to_string()); } std::thread::sleep(Duration::from_millis(1)); } } }
            };
            s.set_nodelay(true).ok();
            s.set_read_timeout(Some(Duration::from_secs(5))).unwrap();
            let mut rbuf = Vec::new();
            if staller {
                let req = format!("POST /all?c={ci}&r=0 HTTP/1.1\r\nContent-Length: 2\r\n\r\nst");
                s.write_all(&req.as_bytes()[..17]).map_err(|_| "write")?;
                let t = Instant::now();
                while others_done.load(Ordering::SeqCst) < nconn - nstall && t.elapsed() < Duration::from_secs(6) { std::thread::sleep(Duration::from_millis(1)); }
                s.write_all(&req.as_bytes()[17..]).map_err(|_| "write")?;
                let want = format!("200,{},k", hex(format!("POST /all c={ci}&r=0 {}", hex(b"st")).as_bytes()));
                return match read_one(&mut s, &mut rbuf) { Some(r) if r == want => Ok(()), other => Err(format!("conn {ci} (stalled): got {other:?}")) };
            }
            // one client in five pipelines: 34..80 small requests in ONE write, then reads the answers - every one of them
            // is complete and unanswered from the moment it arrives, whether the worker finds it in the socket or has read it
            // ahead with an earlier one (round-6 seeds C14-k / C17-k: a job that gave the connection back with requests it
            // had already taken out of the socket)
            if !hog && rng.chance(1, 5) {
                let k = rng.range(34, 80);
                let mut all = Vec::new();
                for j in 0..k { all.extend(format!("GET /none?c={ci}&p={j} HTTP/1.1\r\n\r\n").as_bytes()); }
                s.write_all(&all).map_err(|_| "write")?;
                for j in 0..k {
                    let want = format!("200,{},k", hex(format!("GET /none c={ci}&p={j} {}", hex(b"")).as_bytes()));
                    match read_one(&mut s, &mut rbuf) { Some(r) if r == want => {}, other => return Err(format!("conn {ci}: pipelined request {j} of {k} got {other:?}")) }
                }
            }
            for j in 0..nreq {
                if rng.chance(1, 3) { std::thread::sleep(Duration::from_micros(rng.below(300))); }
                let last = j + 1 == nreq;
                let slow = hog || (eager && rng.chance(2, 3)) || (last && ending == 4);
                let path = if last && ending == 2 { errpath.to_string() } else if last && ending == 3 { "/close".to_string() }
                           else if slow { format!("/slow/{}?c={ci}&r={j}", if hog { 12 } else { rng.range(2, 12) }) } else { format!("/all?c={ci}&r={j}") };
                let extra = if last && ending == 1 { "Connection: close\r\n" } else { "" };
                let body = format!("c{ci}r{j}");
                let req = format!("POST {path} HTTP/1.1\r\nContent-Length: {}\r\n{extra}\r\n{body}", body.len());
                // sometimes in two segments
                if rng.chance(1, 3) { let cut = rng.range(1, req.len() as u64 - 1) as usize; s.write_all(&req.as_bytes()[..cut]).map_err(|_| "write")?; std::thread::sleep(Duration::from_micros(200)); s.write_all(&req.as_bytes()[cut..]).map_err(|_| "write")?; }
                else { s.write_all(req.as_bytes()).map_err(|_| "write")?; }
                if last && ending == 2 {
                    // handler error (whatever its kind): no response, connection closed by the server
                    s.set_read_timeout(Some(Duration::from_secs(2))).unwrap();
                    let mut tmp = [0u8; 64];
                    return match s.read(&mut tmp) {
                        Ok(0) => Ok(()),
                        Ok(n) => Err(format!("conn {ci}: {n} bytes after handler error {errpath}")),
                        Err(e) if e.kind() == std::io::ErrorKind::WouldBlock || e.kind() == std::io::ErrorKind::TimedOut => Err(format!("conn {ci}: not closed by the server after handler error {errpath}")),
                        Err(_) => Ok(()) };
                }
                if last && ending == 4 {
                    // reset while the handler runs: SO_LINGER 0 turns the close into an RST
                    use std::os::unix::io::AsRawFd;
                    std::thread::sleep(Duration::from_micros(rng.below(1500)));
                    let lg = libc::linger { l_onoff: 1, l_linger: 0 };
                    unsafe { libc::setsockopt(s.as_raw_fd(), libc::SOL_SOCKET, libc::SO_LINGER, &lg as *const _ as *const libc::c_void, std::mem::size_of::<libc::linger>() as libc::socklen_t); }
                    drop(s);
                    return Ok(());
                }
                match read_one(&mut s, &mut rbuf) {
                    None => return Err(format!("conn {ci}: no response to request {j} within 5 s")),
                    Some(r) => {
                        // responses must come back in request order, each computed from its own request
                        if path.starts_with("/all") {
                            let want = format!("200,{},k", hex(format!("POST /all c={ci}&r={j} {}", hex(body.as_bytes())).as_bytes()));
                            let wantc = want.replace(",k", ",c");
                            if r != want && r != wantc { return Err(format!("conn {ci}: request {j} got {r}")); }
                        } else if path.starts_with("/slow/") {
                            let p = path.split('?').next().unwrap();
                            let want = format!("200,{},k", hex(format!("POST {p} c={ci}&r={j} {}", hex(b"")).as_bytes()));
                            if r != want && r != want.replace(",k", ",c") { return Err(format!("conn {ci}: request {j} got {r}")); }
                        } else if !r.starts_with("200,") { return Err(format!("conn {ci}: {path} got {r}")); }
                    }
                }
            }
            if ending == 5 {
                // (seed C15-j: an end of stream inside a head was handed back to the parser as "incomplete", for ever)
                s.write_all(b"GET /none HT").map_err(|_| "write")?;
                let _ = s.shutdown(std::net::Shutdown::Write);
                s.set_read_timeout(Some(Duration::from_secs(2))).unwrap();
                let mut tmp = [0u8; 64];
                return match s.read(&mut tmp) {
                    Ok(0) => Ok(()),
                    Ok(n) => Err(format!("conn {ci}: {n} bytes in answer to half a head")),
                    Err(e) if e.kind() == std::io::ErrorKind::WouldBlock || e.kind() == std::io::ErrorKind::TimedOut => Err(format!("conn {ci}: not closed by the server after the end of the stream inside a head")),
                    Err(_) => Ok(()) };
            }
            if ending == 0 {
                // half of the closing clients only shut down their sending side and wait for the server's close
                if rng.chance(1, 2) {
                    let _ = s.shutdown(std::net::Shutdown::Write);
                    let mut tmp = [0u8; 16];
                    match s.read(&mut tmp) { Ok(0) => {}, Ok(_) => return Err(format!("conn {ci}: data after close")), Err(e) if e.kind() == std::io::ErrorKind::WouldBlock || e.kind() == std::io::ErrorKind::TimedOut => return Err(format!("conn {ci}: not closed by the server after the client's FIN")), Err(_) => {} }
                }
                drop(s);
            } else {
                // the server must close: wait for EOF
                let mut tmp = [0u8; 16];
                match s.read(&mut tmp) { Ok(0) => {}, Ok(_) => return Err(format!("conn {ci}: data after close")), Err(e) if e.kind() == std::io::ErrorKind::WouldBlock || e.kind() == std::io::ErrorKind::TimedOut => return Err(format!("conn {ci}: not closed by the server")), Err(_) => {} }
            }
            Ok(())
          })();
          if !staller { others_done.fetch_add(1, Ordering::SeqCst); }
          r
        });
        hs.push(hh);
    }
    for h in hs { match h.join() { Ok(Ok(())) => {}, Ok(Err(e)) => bad.push(e), Err(_) => bad.push("client panic".into()) } }
    sig_stop.store(true, Ordering::SeqCst);
    if let Some(t) = sig_thread { let _ = t.join(); }
    // let the server finish closing what the clients closed: wait until the log shows a stream drop for every accept
    // (at most 1.5 s - a connection that is never closed is a finding, not something to wait for), then a little longer
    let mut log: Vec<Event> = Vec::new();
    let t_wait = Instant::now();
    loop {
        log.extend(verif::take_log());
        let acc_n = log.iter().filter(|e| matches!(e, Event::EpAccept(_))).count();
        let drop_n = log.iter().filter(|e| matches!(e, Event::EpStreamDrop(_))).count();
        let closed_n = log.iter().filter(|e| matches!(e, Event::EpClosedStore(_))).count() + log.iter().filter(|e| matches!(e, Event::EpAddFailed(_))).count();
        if (acc_n >= nconn + addfail && drop_n >= acc_n && closed_n >= acc_n) || t_wait.elapsed() > Duration::from_millis(1500) { break; }
        std::thread::sleep(Duration::from_millis(2));
    }
    std::thread::sleep(Duration::from_millis(10));
    // one run in six: the server is left alone for 1.3 s (longer than its reclaim interval) BEFORE it is stopped: by then it
    // must have freed the record of every connection that has ended, by itself (round-6 seed C15-k: no wake-up while accepting)
    let quiet = if salt % 6 == 0 {
        std::thread::sleep(Duration::from_millis(1300));
        let live = (crate::A64_ALLOCS.load(Ordering::SeqCst) - a64a0) as i64 - (crate::A64_FREES.load(Ordering::SeqCst) - a64f0) as i64;
        if live == 0 { "ok".to_string() } else { format!("records-still-held:{live}") }
    } else { "skipped".to_string() };
    // one run in six: a keep-alive connection is open and idle when the server is told to stop accepting, and stays idle for
    // 1.3 s (longer than the loop's wake-up interval): it is served afterwards all the same, and serve_epoll returns only when
    // it has ended and its record is freed (round-6 seed C15-l: the loop left on its first quiet interval)
    let mut lingerer = if salt % 6 == 3 { connect() } else { None };
    if let Some(s) = lingerer.as_mut() {
        s.set_nodelay(true).ok();
        s.set_read_timeout(Some(Duration::from_secs(3))).unwrap();
        let mut rb = Vec::new();
        let _ = s.write_all(b"GET /none?linger=1 HTTP/1.1\r\n\r\n");
        match read_one(s, &mut rb) { Some(r) if r.starts_with("200,") => {}, other => bad.push(format!("lingering connection: first request got {other:?}")) }
    }
    stop.store(true, Ordering::SeqCst);
    let _ = connect();
    if let Some(mut s) = lingerer.take() {
        std::thread::sleep(Duration::from_millis(1300));
        let mut rb = Vec::new();
        let _ = s.write_all(b"GET /none?linger=2 HTTP/1.1\r\n\r\n");
        match read_one(&mut s, &mut rb) { Some(r) if r.starts_with("200,") => {}, other => bad.push(format!("connection left idle across StopAccepting: not served afterwards, got {other:?}")) }
        drop(s);
    }
    let t0 = Instant::now();
    while !th.is_finished() && t0.elapsed() < Duration::from_secs(3) { std::thread::sleep(Duration::from_millis(2)); }
    if th.is_finished() { let _ = th.join(); } else { bad.push("serve_epoll did not return".into()); }
    log.extend(verif::take_log());
    // pointer -> incarnation index
    let mut cur: HashMap<u64, usize> = HashMap::new();
    let mut next = 0usize;
    let mut toks: Vec<String> = Vec::new();
    let (mut acc, mut freed, mut dropped) = (0usize, 0usize, 0usize);
    let mut idx = |p: u64, cur: &HashMap<u64, usize>| -> String { cur.get(&p).map(|i| i.to_string()).unwrap_or_else(|| format!("?{p:x}")) };
    for e in &log {
        match e {
            Event::EpAccept(p) => { cur.insert(*p, next); toks.push(format!("A{next}")); next += 1; acc += 1; }
            Event::EpAddFailed(p) => { let i = idx(*p, &cur); if let Some(last) = toks.iter().rposition(|t| *t == format!("A{i}")) { toks[last] = format!("A{i}!"); } }
            Event::EpEvent(p) => toks.push(format!("V{}", idx(*p, &cur))),
            Event::EpClosedSeen(p) => toks.push(format!("S{}", idx(*p, &cur))),
            Event::EpCasOk(p) => toks.push(format!("O{}", idx(*p, &cur))),
            Event::EpFree(p) => { toks.push(format!("F{}", idx(*p, &cur))); freed += 1; }
            Event::EpBatchEnd => toks.push("B".into()),
            Event::EpJobStart(p) => toks.push(format!("J{}", idx(*p, &cur))),
            Event::EpRearm(p) => toks.push(format!("R{}", idx(*p, &cur))),
            Event::EpDel(p) => toks.push(format!("D{}", idx(*p, &cur))),
            Event::EpStreamDrop(p) => { toks.push(format!("X{}", idx(*p, &cur))); dropped += 1; }
            Event::EpClosedStore(p) => toks.push(format!("C{}", idx(*p, &cur))),
            Event::EpGrave(p) => toks.push(format!("G{}", idx(*p, &cur))),
            _ => {} // pool events of the worker pool are not part of this stream
        }
    }
    // run-length encode identical consecutive batches (a level-triggered loop re-reports a busy connection many times)
    let mut groups: Vec<(Vec<String>, usize)> = Vec::new();
    let mut cur_g: Vec<String> = Vec::new();
    for t in toks {
        let is_b = t == "B";
        cur_g.push(t);
        if is_b {
            match groups.last_mut() { Some((g, n)) if *g == cur_g => *n += 1, _ => groups.push((cur_g.clone(), 1)) }
            cur_g.clear();
        }
    }
    if !cur_g.is_empty() { groups.push((cur_g, 1)); }
    let enc: Vec<String> = groups.iter().map(|(g, n)| if *n > 1 { format!("{}*{}", g.join(","), n) } else { g.join(",") }).collect();
    // what the allocator saw: allocations / deallocations of 64-byte-aligned blocks (the connection records) during this run
    let (reca, recf) = (crate::A64_ALLOCS.load(Ordering::SeqCst) - a64a0, crate::A64_FREES.load(Ordering::SeqCst) - a64f0);
    format!("{} clients={} accepted={} freed={} dropped={} recalloc={} recfree={} quiet={quiet}", enc.join(";"), if bad.is_empty() { "ok".to_string() } else { format!("bad:{}", bad.join("/").replace(' ', "_")) }, acc, freed, dropped, reca, recf)
}

pub fn gen(ctx: &Ctx) {
    let mut rng = Rng::new(ctx.seed, "epoll");
    let mut out = Out::new(&ctx.dir, "epoll");
    out.rule = "real serve_epoll executions: 1..4 workers, 1..8 concurrent lock-step clients with 1..5 requests each (one client in five first pipelines 34..80 requests in one write) (requests sometimes split in two segments, random sub-millisecond pauses), a third of the clients eager \
                (slow handlers that answer first and linger 2-12 ms, so the next request or the close arrives while the previous request is in flight), endings \
                {client close or half-close, Connection: close, handler Err of kinds Other / WouldBlock / TimedOut / Interrupted, response with close, RST while the last request is in its handler, half a request head followed by the client's FIN}; every third run with >= 2 workers has workers-1 stalled clients (half a head until all others are done), 0..2 injected EPOLL_CTL_ADD failures; client connects staggered over 9 ms in two thirds of the runs and a setup hook that lingers 0 / 0.3 / 1.5 / 4 ms on the event-loop thread (so that \
                connections are closed by workers while their events sit in the loop's batch: the loop-side reclamation path); every third run's setup hook hands back a clone of the accepted stream; every fourth run interrupts the loop's epoll_wait with signals; a burst run (one worker held 12 ms while 89 connections become ready); one run in six leaves the server alone for 1.3 s before the stop (records reclaimed by the loop itself), one in six keeps an idle keep-alive connection open across StopAccepting for 1.3 s and uses it afterwards; every client checks that its responses arrive in order and belong to its \
                own requests; the hook event log is replayed through the Coq transition system. Schedules are sampled. non-trivial = at least 2 connections".into();
    let n = if ctx.thorough { 1500 } else { 80 };
    for _ in 0..n {
        let case = format!("{} {} {} {} {}", rng.range(1, 4), rng.range(1, 8), rng.range(1, 5), if rng.chance(1, 4) { rng.range(1, 2) } else { 0 }, rng.below(1 << 30));
        let r = run(&case);
        let nt = case.split(' ').nth(1).unwrap().parse::<u32>().unwrap() >= 2;
        out.emit(&case, &r, if r.contains("clients=ok") { "ok" } else { "client-check-failed" }, nt);
    }
    // bursts: one worker held for 12 ms while 89 other connections become ready (every one of them must still be served)
    for _ in 0..(if ctx.thorough { 10 } else { 1 }) {
        let case = format!("1 90 1 0 {}", rng.below(1 << 30));
        let r = run(&case);
        out.emit(&case, &r, if r.contains("clients=ok") { "burst/ok" } else { "burst/client-check-failed" }, true);
    }
    out.finish();
}
