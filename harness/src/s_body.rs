//! C06 stream `body`: BodyReader over scripted Read objects.
//! case: `<F<n>|C|E> <leftover> <seg,seg,...|-> <R|B><k,k,...>`   (hex fields; R = Read with these buffer
//!        sizes, B = BufRead taking min(amt, available) per step)
//!        a segment written `!<hex>` is preceded by one read that fails with Interrupted; modes V (BodyReader::vec) and L (a read_until
//!        loop) take no sizes
//! impl: `<out hex> <EOF|ERR|MORE|ERREOF>`   (ERREOF: a cut-short fixed-length body reported an error and, asked again, a normal end)
use crate::util::*;
use crate::Ctx;
use khttp::BodyReader;
use std::io::{BufRead, Read};

pub struct Script {
    pub segs: Vec<Vec<u8>>,
    pub i: usize,
    pub off: usize,
    /// segment indices before which one read fails with ErrorKind::Interrupted (nothing is consumed)
    pub intr: Vec<usize>,
    /// segment indices before which one read fails with ErrorKind::TimedOut (nothing is consumed; std's loops do not retry it)
    pub fail: Vec<usize>,
}
impl Read for Script {
    fn read(&mut self, buf: &mut [u8]) -> std::io::Result<usize> {
        while self.i < self.segs.len() && self.off >= self.segs[self.i].len() {
            self.i += 1;
            self.off = 0;
        }
        if self.i >= self.segs.len() || buf.is_empty() {
            return Ok(0);
        }
        if self.off == 0 {
            if let Some(p) = self.intr.iter().position(|&k| k == self.i) {
                self.intr.remove(p);
                return Err(std::io::Error::new(std::io::ErrorKind::Interrupted, "interrupted"));
            }
            if let Some(p) = self.fail.iter().position(|&k| k == self.i) {
                self.fail.remove(p);
                return Err(std::io::Error::new(std::io::ErrorKind::TimedOut, "timed out"));
            }
        }
        let s = &self.segs[self.i][self.off..];
        let n = s.len().min(buf.len());
        buf[..n].copy_from_slice(&s[..n]);
        self.off += n;
        Ok(n)
    }
}

pub fn run(case: &str) -> String {
    crate::util::note_current(case);
    let f: Vec<&str> = case.split(' ').collect();
    let leftover = unhex(f[1]);
    // a segment written `!<hex>`: the read that would deliver it fails once with Interrupted first
    let toks: Vec<&str> = if f[2] == "-" { vec![] } else { f[2].split(',').collect() };
    let intr: Vec<usize> = toks.iter().enumerate().filter(|(_, t)| t.starts_with('!')).map(|(i, _)| i).collect();
    // a segment written `^<hex>`: the read that would deliver it fails once with TimedOut first (a caller that swallows the
    // error and goes on calling: modes R / B continue after it)
    let fail: Vec<usize> = toks.iter().enumerate().filter(|(_, t)| t.starts_with('^')).map(|(i, _)| i).collect();
    let segs: Vec<Vec<u8>> = toks.iter().map(|t| unhex(t.trim_start_matches(|c| c == '!' || c == '^'))).collect();
    let mode = &f[3][..1];
    // sizes are run-length encoded: `k*count`
    let mut sizes: Vec<usize> = Vec::new();
    for t in f[3][1..].split(',').filter(|x| !x.is_empty()) {
        match t.split_once('*') {
            Some((k, c)) => { let k: usize = k.parse().unwrap(); for _ in 0..c.parse::<usize>().unwrap() { sizes.push(k); } }
            None => sizes.push(t.parse().unwrap()),
        }
    }
    let kind = f[0].to_string();
    let r = guarded(move || {
        let script = Script { segs, i: 0, off: 0, intr, fail };
        let mut rd = if let Some(n) = kind.strip_prefix('F') {
            BodyReader::new_fixed(&leftover, script, n.parse().unwrap())
        } else if kind == "C" {
            BodyReader::new_chunked(&leftover, script)
        } else {
            BodyReader::new_eof(&leftover, script)
        };
        let mut out: Vec<u8> = Vec::new();
        let mut status = "MORE";
        let mut buf = vec![0u8; 1 << 18];
        // modes V and L: the callers that retry an interrupted read by themselves - BodyReader::vec (read_to_end) and read_until
        if mode == "V" {
            return match rd.vec() { Ok(v) => { std::mem::forget(rd); format!("{} EOF", hex(&v)) } Err(_) => { std::mem::forget(rd); "- ERR".to_string() } };
        }
        if mode == "L" {
            let st = loop { match rd.read_until(b'\n', &mut out) { Ok(0) => break "EOF", Ok(_) => {}, Err(_) => break "ERR" } };
            std::mem::forget(rd);
            return format!("{} {}", hex(&out), st);
        }
        let fixed_kind = kind.starts_with('F');
        for (idx, &k) in sizes.iter().enumerate() {
            // mode M: both faces on one reader, read and fill_buf/consume taking turns
            if mode == "R" || (mode == "M" && idx % 2 == 0) {
                match rd.read(&mut buf[..k]) {
                    Ok(0) if k == 0 => {}   // an empty buffer: nothing read, nothing learnt
                    Ok(0) => { status = "EOF"; break; }
                    Ok(n) => out.extend_from_slice(&buf[..n]),
                    // an interrupted read delivers nothing; the caller goes on with its next read
                    Err(e) if e.kind() == std::io::ErrorKind::Interrupted || e.kind() == std::io::ErrorKind::TimedOut => {}
                    // a fixed-length body that was cut short: asked again, the reader must not report a normal end
                    Err(_) => { status = if fixed_kind && matches!(rd.read(&mut buf[..16]), Ok(0)) { "ERREOF" } else { "ERR" }; break; }
                }
            } else {
                let n = match rd.fill_buf() {
                    Ok(a) if a.is_empty() => { status = "EOF"; break; }
                    Ok(a) => { let n = k.min(a.len()); out.extend_from_slice(&a[..n]); n }
                    Err(e) if e.kind() == std::io::ErrorKind::Interrupted || e.kind() == std::io::ErrorKind::TimedOut => 0,
                    Err(_) => { status = if fixed_kind && matches!(rd.fill_buf(), Ok(a) if a.is_empty()) { "ERREOF" } else { "ERR" }; break; }
                };
                rd.consume(n);
            }
        }
        std::mem::forget(rd); // the drain on drop is exercised by the connection streams, not here
        format!("{} {}", hex(&out), status)
    });
    r.unwrap_or_else(|_| "PANIC".into())
}

fn hexnum(rng: &mut Rng, n: usize) -> Vec<u8> {
    let mut s = if rng.chance(1, 2) { format!("{:x}", n) } else { format!("{:X}", n) };
    if rng.chance(1, 4) { s = format!("{}{}", "0".repeat(rng.range(1, 3) as usize), s); }
    s.into_bytes()
}

/// a valid chunked encoding of `payload`
pub fn encode_chunked(rng: &mut Rng, payload: &[u8]) -> Vec<u8> {
    let mut e = Vec::new();
    let mut i = 0;
    let style = rng.below(4);
    while i < payload.len() {
        let rem = payload.len() - i;
        let n = match style { 0 => 1, 1 => rem, 2 => rng.range(1, 16.min(rem as u64)) as usize, _ => rng.range(1, rem as u64) as usize };
        e.extend(hexnum(rng, n));
        if rng.chance(1, 4) { e.extend_from_slice(*rng.pick(&[&b";x"[..], b";name=value", b";a=\"q s\"", b"; sp", b";"])); }
        e.extend(b"\r\n");
        e.extend(&payload[i..i + n]);
        e.extend(b"\r\n");
        i += n;
    }
    e.extend(if rng.chance(1, 4) { &b"000"[..] } else { &b"0"[..] });
    if rng.chance(1, 5) { e.extend(b";last"); }
    e.extend(b"\r\n");
    for _ in 0..(if rng.chance(1, 3) { rng.range(1, 3) } else { 0 }) {
        e.extend_from_slice(*rng.pick(&[&b"X-Trailer: v"[..], b"Expires: never", b"a:b"]));
        e.extend(b"\r\n");
    }
    e.extend(b"\r\n");
    e
}

fn payload(rng: &mut Rng, n: usize) -> Vec<u8> {
    (0..n).map(|_| match rng.below(8) { 0 => b'\r', 1 => b'\n', 2 => b'0', 3 => rng.below(256) as u8, _ => b'a' + rng.below(26) as u8 }).collect()
}

fn split_segs(rng: &mut Rng, data: &[u8]) -> (Vec<u8>, Vec<Vec<u8>>) {
    // leftover | stream split, then the stream into segments
    let cut = match rng.below(4) { 0 => 0, 1 => data.len(), _ => rng.below(data.len() as u64 + 1) as usize };
    let (lo, st) = data.split_at(cut);
    let mut segs = Vec::new();
    let mut i = 0;
    let style = rng.below(4);
    while i < st.len() {
        let rem = st.len() - i;
        let n = match style { 0 => rem, 1 => 1, 2 => rng.range(1, 8.min(rem as u64)) as usize, _ => rng.range(1, rem as u64) as usize };
        segs.push(st[i..i + n].to_vec());
        i += n;
    }
    (lo.to_vec(), segs)
}

fn sizes(rng: &mut Rng, need: usize) -> String {
    // enough reads of the chosen size(s) to deliver `need` bytes and then see the end
    // byte-at-a-time reads only for small payloads (the model costs O(total) per read)
    let all = [1usize, 2, 3, 7, 64, 1000, 4095, 4096, 4097, 8192, 70000];
    let choices: &[usize] = if need > 400 { &all[4..] } else { &all[..] };
    let fixed = rng.chance(2, 3);
    let k0 = *rng.pick(choices);
    // each read may deliver as little as one byte: need + 3 reads always suffice
    if fixed {
        return format!("{}*{}", k0, need + 3);
    }
    let mut v = Vec::new();
    // one mixed pattern in three also has zero-sized requests (an empty caller buffer / consume(0)): they deliver nothing and
    // must neither fail nor be taken for the end of the body
    let zeros = rng.chance(1, 3);
    for _ in 0..need + 3 {
        if zeros && rng.chance(1, 4) { v.push("0".to_string()); }
        v.push(rng.pick(choices).to_string());
    }
    v.join(",")
}

pub fn gen(ctx: &Ctx) {
    let mut rng = Rng::new(ctx.seed, "body");
    let mut out = Out::new(&ctx.dir, "body");
    out.rule = "payloads (0..300 bytes mostly, some to 10000; thorough: 131073) in valid fixed-length and chunked encodings (chunk sizes 1 / whole / small / random, upper/lower-case \
                hex with leading zeros, extensions, trailers); every leftover|stream split style and stream segmentation (whole, 1-byte, small, random); read sizes from \
                {1,2,3,7,64,1000,4095,4096,4097,8192,70000} through Read and through BufRead and through both in turn on one reader, with zero-sized requests in between; every truncation point and every single-byte corruption of small encodings; chunk sizes above 2^64 that agree with the data modulo 2^64; EOF-delimited bodies. \
                non-trivial = a non-empty payload was delivered".into();
    let mut emit = |out: &mut Out, kind: &str, data: &[u8], rng: &mut Rng, need: usize, class: &str| {
        let (lo, segs) = split_segs(rng, data);
        let mode = match rng.below(5) { 0 | 1 => "R", 2 | 3 => "B", _ => "M" };
        let case = format!("{} {} {} {}{}", kind, hex(&lo), if segs.is_empty() { "-".to_string() } else { segs.iter().map(|s| hex(s)).collect::<Vec<_>>().join(",") }, mode, sizes(rng, need));
        let r = run(&case);
        let nt = !r.starts_with("- ");
        let st = r.rsplit(' ').next().unwrap_or("?").to_string();
        out.emit(&case, &r, &format!("{class}/{mode}/{st}"), nt);
    };
    let n = if ctx.thorough { 60000 } else { 6000 };
    for i in 0..n {
        let len = match rng.below(10) { 0 => 0, 1 => 1, 2..=7 => rng.below(300) as usize, 8 => rng.range(4000, 4200) as usize, _ => if i % 20 == 0 { rng.range(8000, 10000) as usize } else { rng.below(2000) as usize } };
        let p = payload(&mut rng, len);
        // fixed
        let mut d = p.clone();
        if rng.chance(1, 3) { d.extend(b"GET / HTTP/1.1\r\n\r\n"); } // bytes after the body
        emit(&mut out, &format!("F{}", p.len()), &d, &mut rng, p.len(), "fixed-valid");
        // chunked
        let mut e = encode_chunked(&mut rng, &p);
        if rng.chance(1, 3) { e.extend(b"GET / HTTP/1.1\r\n\r\n"); }
        emit(&mut out, "C", &e, &mut rng, p.len(), "chunked-valid");
        if i % 10 == 0 { emit(&mut out, "E", &p, &mut rng, p.len(), "eof-delimited"); }
    }
    // a stream whose reads are interrupted (EINTR) now and then, under the callers that retry by themselves: BodyReader::vec
    // (read_to_end) and read_until; the body is delivered whole all the same
    for i in 0..(if ctx.thorough { 6000 } else { 600 }) {
        let len = match rng.below(6) { 0 => 1, 1 => rng.range(4000, 9000) as usize, _ => rng.range(2, 300) as usize };
        let p = payload(&mut rng, len);
        let (kind, mut d) = if i % 2 == 0 { (format!("F{}", p.len()), p.clone()) } else { ("C".to_string(), encode_chunked(&mut rng, &p)) };
        if rng.chance(1, 3) { d.extend(b"GET / HTTP/1.1\r\n\r\n"); }
        let (lo, segs) = split_segs(&mut rng, &d);
        if segs.is_empty() { continue; }
        let marks: Vec<bool> = (0..segs.len()).map(|j| rng.chance(1, 3) || j == segs.len() / 2).collect();
        // V / L: the callers of std that retry by themselves; R / B: read-by-read against the model with events (Model/BodyIntr.v)
        let nint = marks.iter().filter(|m| **m).count();
        let mode = match i % 8 { 0 | 1 => "V".to_string(), 2 | 3 => "L".to_string(), 4 | 5 => format!("R{}", sizes(&mut rng, len + nint)), _ => format!("B{}", sizes(&mut rng, len + nint)) };
        let case = format!("{} {} {} {}", kind, hex(&lo), segs.iter().zip(&marks).map(|(s, m)| format!("{}{}", if *m { "!" } else { "" }, hex(s))).collect::<Vec<_>>().join(","), mode);
        let r = run(&case);
        let st = r.rsplit(' ').next().unwrap_or("?").to_string();
        out.emit(&case, &r, &format!("interrupted/{}/{}/{st}", &kind[..1], &mode[..1]), !r.starts_with("- "));
    }
    // a stream whose reads time out now and then (not retried by std: inside the chunked framing the bytes consumed so far are
    // lost), under a caller that swallows the error and goes on reading: call by call against Model/BodyFail.v
    for i in 0..(if ctx.thorough { 4000 } else { 400 }) {
        let len = match rng.below(6) { 0 => 1, 1 => rng.range(4000, 6000) as usize, _ => rng.range(2, 120) as usize };
        let p = payload(&mut rng, len);
        let (kind, mut d) = if i % 3 == 0 { (format!("F{}", p.len()), p.clone()) } else { ("C".to_string(), encode_chunked(&mut rng, &p)) };
        if rng.chance(1, 3) { d.extend(b"GET / HTTP/1.1\r\n\r\n"); }
        let (lo, segs) = split_segs(&mut rng, &d);
        if segs.is_empty() { continue; }
        let marks: Vec<u8> = (0..segs.len()).map(|j| if rng.chance(1, 4) || j == segs.len() / 2 { b'^' } else if rng.chance(1, 8) { b'!' } else { b' ' }).collect();
        let nint = marks.iter().filter(|m| **m != b' ').count();
        let mode = if i % 2 == 0 { format!("R{}", sizes(&mut rng, len + nint)) } else { format!("B{}", sizes(&mut rng, len + nint)) };
        let case = format!("{} {} {} {}", kind, hex(&lo), segs.iter().zip(&marks).map(|(s, m)| format!("{}{}", if *m == b' ' { String::new() } else { (*m as char).to_string() }, hex(s))).collect::<Vec<_>>().join(","), mode);
        let r = run(&case);
        let st = r.rsplit(' ').next().unwrap_or("?").to_string();
        out.emit(&case, &r, &format!("timed-out/{}/{}/{st}", &kind[..1], &mode[..1]), !r.starts_with("- "));
    }
    if ctx.thorough {
        for _ in 0..6 {
            let p = payload(&mut rng, 131073);
            emit(&mut out, "F131073", &p, &mut rng, 300, "fixed-large");
            let e = encode_chunked(&mut rng, &p);
            emit(&mut out, "C", &e, &mut rng, 300, "chunked-large");
        }
    }
    // every truncation point and every single-byte corruption of small encodings
    let m = if ctx.thorough { 600 } else { 60 };
    for _ in 0..m {
        let pl = rng.range(1, 24) as usize;
        let p = payload(&mut rng, pl);
        let e = encode_chunked(&mut rng, &p);
        for cut in 0..e.len() {
            emit(&mut out, "C", &e[..cut], &mut rng, p.len(), "chunked-truncated");
        }
        for pos in 0..e.len() {
            for b in [b'\r', b'\n', b'x', b'+', b' ', b'0', b';', 0xffu8] {
                if e[pos] == b { continue; }
                let mut c = e.clone(); c[pos] = b;
                emit(&mut out, "C", &c, &mut rng, p.len() + 16, "chunked-corrupted");
            }
        }
        for cut in 0..p.len() {
            emit(&mut out, &format!("F{}", p.len()), &p[..cut], &mut rng, p.len(), "fixed-truncated");
        }
    }
    // chunk sizes that do not fit in 64 bits but agree with the data modulo 2^64 (seeds C06-i / C07-i folded the digits with a
    // shift and lost the high bits): 1<16 hex digits of n>, ff<16 digits>, and 2^64 itself in place of the last-chunk size
    for _ in 0..(if ctx.thorough { 200 } else { 40 }) {
        let pl = rng.range(1, 40) as usize;
        let p = payload(&mut rng, pl);
        let big = |pre: &str, n: usize| format!("{pre}{:016x}", n).into_bytes();
        let mut variants: Vec<Vec<u8>> = Vec::new();
        for pre in ["1", "ff", "100", "00001"] {
            let mut e = big(pre, p.len()); e.extend(b"\r\n"); e.extend(&p); e.extend(b"\r\n0\r\n\r\n"); variants.push(e);
        }
        { let mut e = format!("{:x}\r\n", p.len()).into_bytes(); e.extend(&p); e.extend(b"\r\n10000000000000000\r\n\r\n"); variants.push(e); }
        { let mut e = format!("{:x}\r\n", p.len()).into_bytes(); e.extend(&p); e.extend(b"\r\n"); e.extend(big("3", 0)); e.extend(b"\r\n\r\n"); variants.push(e); }
        for mut e in variants {
            if rng.chance(1, 2) { e.extend(b"GET / HTTP/1.1\r\n\r\n"); }
            emit(&mut out, "C", &e, &mut rng, p.len() + 8, "chunk-size-overflow");
        }
    }
    out.finish();
}
