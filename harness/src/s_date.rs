//! C18 streams.  `date`: get_date_from_secs on every day of 1970..9999 (at seed-chosen and boundary
//! seconds) and on every second of three days.  `datecache`: get_date_now under the test clock
//! (hook H4), one fresh thread per history so that the thread-local cache starts at its initial state.
use crate::util::*;
use crate::Ctx;

const N_DAYS: i64 = 2_932_897;

pub fn run_date(case: &str) -> String {
    crate::util::note_current(case);
    let secs: i64 = case.trim().parse().unwrap();
    match guarded(move || khttp::date::get_date_from_secs(secs)) {
        Ok(b) => hex(&b),
        Err(_) => "PANIC".into(),
    }
}

pub fn gen_date(ctx: &Ctx) {
    let mut rng = Rng::new(ctx.seed, "date");
    let mut out = Out::new(&ctx.dir, "date");
    out.rule = "every day 1970-01-01..9999-12-31 at a seed-chosen second (thorough: also 00:00:00, 23:59:59 and a second random second), \
                plus every second of days 0, 11016 (2000-02-29) and 2932896; all cases are in the property's domain, \
                non-trivial = all; distinct = distinct instants".into();
    let mut one = |out: &mut Out, secs: i64, class: &str| {
        let c = secs.to_string();
        let r = run_date(&c);
        out.emit(&c, &r, class, true);
    };
    for d in 0..N_DAYS {
        one(&mut out, d * 86400 + rng.below(86400) as i64, "day@random-second");
        if ctx.thorough {
            one(&mut out, d * 86400, "day@00:00:00");
            one(&mut out, d * 86400 + 86399, "day@23:59:59");
            one(&mut out, d * 86400 + rng.below(86400) as i64, "day@random-second");
        }
    }
    for d in [0i64, 11016, N_DAYS - 1] {
        for s in 0..86400 {
            one(&mut out, d * 86400 + s, "every-second-of-day");
        }
    }
    out.finish();
}

pub fn run_cache(case: &str) -> String {
    crate::util::note_current(case);
    let readings: Vec<i64> = case.split(',').map(|x| x.trim().parse().unwrap()).collect();
    let h = std::thread::spawn(move || {
        let mut outs = Vec::new();
        for t in readings {
            khttp::verif::set_test_clock(Some(t));
            let b = khttp::date::get_date_now();
            outs.push(hex(&b));
        }
        khttp::verif::set_test_clock(None);
        outs.join(",")
    });
    match h.join() {
        Ok(s) => s,
        Err(_) => "PANIC".into(),
    }
}

pub fn gen_cache(ctx: &Ctx) {
    let mut rng = Rng::new(ctx.seed, "datecache");
    let mut out = Out::new(&ctx.dir, "datecache");
    out.rule = "histories of 1..12 clock readings in [0, 253402300799] seen by one fresh thread: monotone, repeated, \
                backward and far-apart readings, half of them starting within 3 s of a day/hour/minute boundary; non-trivial = history contains both a repeated and a changed reading".into();
    let n = if ctx.thorough { 20000 } else { 2000 };
    for _ in 0..n {
        let len = rng.range(1, 12) as usize;
        // half of the histories start within a few seconds of a day / hour / minute boundary
        let mut t: i64 = match rng.below(4) {
            0 => rng.below(253_402_300_799) as i64,
            1 => rng.below(2_932_896) as i64 * 86400 + 86400 - rng.range(0, 3) as i64,
            2 => rng.below(2_932_896) as i64 * 86400 + 3600 * rng.range(1, 23) as i64 - rng.range(0, 2) as i64,
            _ => rng.below(2_932_896) as i64 * 86400 + 60 * rng.range(1, 1439) as i64 - rng.range(0, 2) as i64,
        };
        let mut rs = Vec::new();
        let (mut rep, mut chg) = (false, false);
        for _ in 0..len {
            rs.push(t);
            match rng.below(6) {
                0 | 1 => rep = true, // same second again
                2 => { t = (t + 1).min(253_402_300_799); chg = true }
                3 => { t = (t - rng.range(1, 3) as i64).max(0); chg = true }
                4 => { t = rng.below(253_402_300_799) as i64; chg = true }
                _ => { t = (t + rng.range(1, 100000) as i64).min(253_402_300_799); chg = true }
            }
        }
        let c = rs.iter().map(|x| x.to_string()).collect::<Vec<_>>().join(",");
        let r = run_cache(&c);
        out.emit(&c, &r, if rep && chg { "mixed" } else if rep { "repeat-only" } else { "change-only" }, rep && chg);
    }
    out.finish();
}
