//! C18 streams.  `date`: get_date_from_secs on every day of 1970..9999 (at seed-chosen and boundary
//! seconds) and on every second of three days.  `datecache`: get_date_now under the test clock
//! (hook H4), one fresh thread per history so that the thread-local cache starts at its initial state.
use crate::util::*;
use crate::Ctx;

const N_DAYS: i64 = 2_932_897;

pub fn run_date(case: &str) -> String {
    crate::util::note_current(case);
    let secs: i64 = case.trim().parse().unwrap();
    match guarded(move || khttp::date::get_date_from_secs(secs)) {
        Ok(b) => hex(&b),
        Err(_) => "PANIC".into(),
    }
}

pub fn gen_date(ctx: &Ctx) {
    let mut rng = Rng::new(ctx.seed, "date");
    let mut out = Out::new(&ctx.dir, "date");
    out.rule = "every day 1970-01-01..9999-12-31 at a seed-chosen second (thorough: also 00:00:00, 23:59:59 and a second random second), \
                plus every second of days 0, 11016 (2000-02-29) and 2932896; all cases are in the property's domain, \
                non-trivial = all; distinct = distinct instants".into();
    let mut one = |out: &mut Out, secs: i64, class: &str| {
        let c = secs.to_string();
        let r = run_date(&c);
        out.emit(&c, &r, class, true);
    };
    for d in 0..N_DAYS {
        one(&mut out, d * 86400 + rng.below(86400) as i64, "day@random-second");
        if ctx.thorough {
            one(&mut out, d * 86400, "day@00:00:00");
            one(&mut out, d * 86400 + 86399, "day@23:59:59");
            one(&mut out, d * 86400 + rng.below(86400) as i64, "day@random-second");
        }
    }
    for d in [0i64, 11016, N_DAYS - 1] {
        for s in 0..86400 {
            one(&mut out, d * 86400 + s, "every-second-of-day");
        }
    }
    out.finish();
}

pub fn run_cache(case: &str) -> String {
    crate::util::note_current(case);
    // an entry `f<secs>` is a call of get_date_from_secs(secs) (and `u` one of get_date_now_uncached at the current test clock) in between: neither may disturb the cache
    let readings: Vec<String> = case.split(',').map(|x| x.trim().to_string()).collect();
    let h = std::thread::spawn(move || {
        let mut outs = Vec::new();
        for t in readings {
            if let Some(f) = t.strip_prefix('f') { outs.push(hex(&khttp::date::get_date_from_secs(f.parse().unwrap()))); continue; }
            if t == "u" { outs.push(hex(&khttp::date::get_date_now_uncached())); continue; }
            khttp::verif::set_test_clock(Some(t.parse().unwrap()));
            let b = khttp::date::get_date_now();
            outs.push(hex(&b));
        }
        khttp::verif::set_test_clock(None);
        outs.join(",")
    });
    match h.join() {
        Ok(s) => s,
        Err(_) => "PANIC".into(),
    }
}

pub fn gen_cache(ctx: &Ctx) {
    let mut rng = Rng::new(ctx.seed, "datecache");
    let mut out = Out::new(&ctx.dir, "datecache");
    out.rule = "histories of 1..12 clock readings in [0, 253402300799] seen by one fresh thread: monotone, repeated, \
                backward and far-apart readings, half of them starting within 3 s of a day/hour/minute boundary; one history in three interleaves get_date_from_secs / get_date_now_uncached calls; non-trivial = history contains both a repeated and a changed reading".into();
    let n = if ctx.thorough { 20000 } else { 2000 };
    for _ in 0..n {
        let len = rng.range(1, 12) as usize;
        // half of the histories start within a few seconds of a day / hour / minute boundary
        let mut t: i64 = match rng.below(4) {
            0 => rng.below(253_402_300_799) as i64,
            1 => rng.below(2_932_896) as i64 * 86400 + 86400 - rng.range(0, 3) as i64,
            2 => rng.below(2_932_896) as i64 * 86400 + 3600 * rng.range(1, 23) as i64 - rng.range(0, 2) as i64,
            _ => rng.below(2_932_896) as i64 * 86400 + 60 * rng.range(1, 1439) as i64 - rng.range(0, 2) as i64,
        };
        let mut rs = Vec::new();
        let (mut rep, mut chg) = (false, false);
        for _ in 0..len {
            rs.push(t);
            match rng.below(6) {
                0 | 1 => rep = true, // same second again
                2 => { t = (t + 1).min(253_402_300_799); chg = true }
                3 => { t = (t - rng.range(1, 3) as i64).max(0); chg = true }
                4 => { t = rng.below(253_402_300_799) as i64; chg = true }
                _ => { t = (t + rng.range(1, 100000) as i64).min(253_402_300_799); chg = true }
            }
        }
        // one history in three interleaves get_date_from_secs / get_date_now_uncached calls (seed C18-j: from_secs wrote into the cache's buffer)
        let mut items: Vec<String> = Vec::new();
        let inter = rng.chance(1, 3);
        for (i, x) in rs.iter().enumerate() {
            items.push(x.to_string());
            if inter && rng.chance(1, 2) { items.push(format!("f{}", match rng.below(3) { 0 => *x, 1 => rng.below(253_402_300_799) as i64, _ => rs[rng.below(i as u64 + 1) as usize] })); }
            if inter && rng.chance(1, 5) { items.push("u".into()); }
        }
        let c = items.join(",");
        let r = run_cache(&c);
        out.emit(&c, &r, if rep && chg { "mixed" } else if rep { "repeat-only" } else { "change-only" }, rep && chg);
    }
    out.finish();
}


// ---------------------------------------------------------------------------------------------
// stream `dateresp` (C18): the Date field of a message is the clock reading at the moment the head is emitted,
// also when the body source makes the clock advance before anything is written.
// case: `<R|Q|B|E> <t0> <adv> <len> <cl|chunked|auto> [<after>]` (the clock advances at the first read after <after> bytes were delivered): entry point (write_response from a reader / write_request / bytes / empty),
//       clock t0 at the call, the reader's first read advances it by adv seconds
// impl: `<hex of the date line in the emitted head> <clock reading at the writer's first write>`
thread_local! { static NOW: std::cell::Cell<i64> = const { std::cell::Cell::new(0) }; }
fn set_now(t: i64) { NOW.with(|c| c.set(t)); khttp::verif::set_test_clock(Some(t)); }
struct TickReader { left: usize, adv: i64, ticked: bool, after: usize, given: usize }
impl std::io::Read for TickReader {
    fn read(&mut self, buf: &mut [u8]) -> std::io::Result<usize> {
        // the source stalls (the clock advances) at the first read once `after` bytes have been delivered
        if !self.ticked && self.given >= self.after { self.ticked = true; let t = NOW.with(|c| c.get()); set_now(t + self.adv); }
        let n = self.left.min(buf.len()).min(1000);
        for b in buf[..n].iter_mut() { *b = b'x'; }
        self.left -= n;
        self.given += n;
        Ok(n)
    }
}
struct StampWriter { out: Vec<u8>, first: Option<i64> }
impl std::io::Write for StampWriter {
    fn write(&mut self, b: &[u8]) -> std::io::Result<usize> {
        if self.first.is_none() && !b.is_empty() { self.first = Some(NOW.with(|c| c.get())); }
        self.out.extend_from_slice(b); Ok(b.len())
    }
    fn flush(&mut self) -> std::io::Result<()> { Ok(()) }
}
pub fn run_resp(case: &str) -> String {
    crate::util::note_current(case);
    let f: Vec<String> = case.split(' ').map(|x| x.to_string()).collect();
    let h = std::thread::spawn(move || {
        use khttp::{Headers, HttpPrinter, Method, Status};
        let (t0, adv, len): (i64, i64, usize) = (f[1].parse().unwrap(), f[2].parse().unwrap(), f[3].parse().unwrap());
        let after: usize = f.get(5).map(|x| x.parse().unwrap()).unwrap_or(0);
        // warm the thread's date cache one second earlier, as a serving thread would have
        set_now((t0 - 1).max(0));
        let _ = khttp::date::get_date_now();
        set_now(t0);
        let mut hs = Headers::new();
        match f[4].as_str() { "cl" => hs.set_content_length(Some(len as u64)), "chunked" => hs.set_transfer_encoding_chunked(), _ => {} }
        let mut w = StampWriter { out: Vec::new(), first: None };
        let body = vec![b'x'; len];
        let _ = match f[0].as_str() {
            "R" => HttpPrinter::write_response(&mut w, &Status::OK, &hs, TickReader { left: len, adv, ticked: false, after, given: 0 }),
            "Q" => HttpPrinter::write_request(&mut w, &Method::Post, "/u", &hs, TickReader { left: len, adv, ticked: false, after, given: 0 }),
            "B" => HttpPrinter::write_response_bytes(&mut w, &Status::OK, &hs, &body),
            _ => HttpPrinter::write_response_empty(&mut w, &Status::OK, &hs),
        };
        khttp::verif::set_test_clock(None);
        let head_end = w.out.windows(4).position(|x| x == b"\r\n\r\n").map(|p| p + 2).unwrap_or(w.out.len());
        let head = &w.out[..head_end];
        let mut date = Vec::new();
        let mut i = 0;
        while i < head.len() {
            let e = head[i..].windows(2).position(|x| x == b"\r\n").map(|p| i + p + 2).unwrap_or(head.len());
            if head[i..e].to_ascii_lowercase().starts_with(b"date:") { date = head[i..e].to_vec(); }
            i = e;
        }
        format!("{} {}", hex(&date), w.first.unwrap_or(-1))
    });
    h.join().unwrap_or_else(|_| "PANIC".into())
}

pub fn gen_resp(ctx: &Ctx) {
    let mut rng = Rng::new(ctx.seed, "dateresp");
    let mut out = Out::new(&ctx.dir, "dateresp");
    out.rule = "messages printed under the test clock by the four entry points that emit a Date (write_response from a reader, write_request, write_response_bytes, write_response_empty) x \
                {declared length, chunked, nothing declared} x body lengths {0, 10, 5000, 20000}; the body reader's first read advances the clock by 0..5 s (a slow source); the Date must be \
                the reading at the moment the head is written. non-trivial = the clock advanced".into();
    let n = if ctx.thorough { 3000 } else { 300 };
    for _ in 0..n {
        let ep = *rng.pick(&["R", "R", "Q", "B", "E"]);
        let t0 = match rng.below(3) { 0 => rng.below(253_402_300_000) as i64, 1 => rng.below(2_932_896) as i64 * 86400 + 86400 - rng.range(1, 3) as i64, _ => 1_700_000_000 + rng.below(100_000_000) as i64 };
        let adv = *rng.pick(&[0i64, 1, 1, 2, 5]);
        let len = if ep == "E" { 0 } else { *rng.pick(&[0usize, 10, 5000, 20000, 20000, 40000]) };
        // the stall comes at the first read, or after 9000 / 12000 bytes were delivered promptly
        let after = if len >= 20000 { *rng.pick(&[0usize, 0, 9000, 12000]) } else { 0 };
        let case = format!("{ep} {t0} {adv} {len} {} {after}", rng.pick(&["cl", "chunked", "auto"]));
        let r = run_resp(&case);
        out.emit(&case, &r, &format!("{ep}/adv{}", adv.min(2)), adv > 0 && (ep == "R" || ep == "Q") && len > 0);
    }
    out.finish();
}

// ---------------------------------------------------------------------------------------------
// stream `dateclock` (C18): the real clock path (no test clock).  `get_date_now` / `get_date_now_uncached` are polled
// for the given time, each call bracketed by two precise SystemTime readings; the distinct (before, after, date)
// triples are reported and the oracle requires every date to be the formatted second s for some before-1 <= s <= after
// ("the current second", never ahead of the clock, never more than a second behind).  Seed C18-g rounded a coarse
// reading in the last 10 ms of a second up to the next second: only a poll across a second boundary sees that.
pub fn run_clock(case: &str) -> String {
    crate::util::note_current(case);
    let ms: u64 = case.split(' ').nth(1).unwrap().parse().unwrap();
    let h = std::thread::spawn(move || {
        khttp::verif::set_test_clock(None);
        let secs = || std::time::SystemTime::now().duration_since(std::time::UNIX_EPOCH).unwrap().as_secs();
        let t0 = std::time::Instant::now();
        let mut seen: Vec<(u8, u64, u64, [u8; 37])> = Vec::new();
        let mut k = 0u8;
        while t0.elapsed() < std::time::Duration::from_millis(ms) {
            let tb = secs();
            let d = if k == 0 { khttp::date::get_date_now() } else { khttp::date::get_date_now_uncached() };
            let ta = secs();
            if !seen.iter().rev().take(8).any(|x| *x == (k, tb, ta, d)) { seen.push((k, tb, ta, d)); }
            k ^= 1;
        }
        seen.iter().map(|(k, tb, ta, d)| format!("{}:{}:{}:{}", if *k == 0 { "c" } else { "u" }, tb, ta, hex(d))).collect::<Vec<_>>().join(",")
    });
    h.join().unwrap_or_else(|_| "PANIC".into())
}

pub fn gen_clock(ctx: &Ctx) {
    let mut out = Out::new(&ctx.dir, "dateclock");
    out.rule = "get_date_now (cached) and get_date_now_uncached polled alternately on the real clock for 1.25 s (thorough: 4 x 2.2 s), every call bracketed by two \
                SystemTime readings; every distinct (before, after, date) triple is checked: the date is the formatted second s for some before-1 <= s <= after. non-trivial = the poll crossed a second boundary".into();
    let runs: Vec<u64> = if ctx.thorough { vec![2200, 2200, 2200, 2200] } else { vec![1250] };
    for ms in runs {
        let case = format!("poll {ms}");
        let r = run_clock(&case);
        let crossed = { let mut ds: Vec<&str> = r.split(',').filter_map(|t| t.split(':').nth(3)).collect(); ds.sort(); ds.dedup(); ds.len() >= 2 };
        out.emit(&case, &r, if crossed { "crossed-a-second" } else { "within-one-second" }, crossed);
    }
    out.finish();
}
