//! C13 stream `pool`: real runs of the thread pool through the hook `verif_run_pool`, recorded as event
//! traces and replayed through the Coq transition system by the oracle.
//! case: `T <workers> <jobs> <style> <salt>`  (style: 0 no-op jobs, 1 yielding, 2 sleeping 0-200us, 3 mixed)
//!       `P <workers>`                        (parallelism: jobs 0..k-2 each wait until job k-1 has started)
//!       `W <workers> <jobs> <style> <salt>`  (paced submission: jobs take 0.2-2 ms; before job i is handed to execute() the submitter
//!                                             waits 0-400 us, or until job i-1 has started - so submissions meet busy workers and a non-empty queue)
//!       `U <workers> <jobs> 0 <salt>`      (the submitting thread panics after <jobs> jobs: the pool is shut down by unwinding)
//! impl: `<trace> counts=<ok|bad:j=c> [par=<ok|TIMEOUT>]` with trace tokens
//!       S D J R L<w> U<w> X<w> B<j>.<w> E<j>
use crate::util::*;
use crate::Ctx;
use khttp::verif::{self, Event, Task};
use std::sync::atomic::{AtomicBool, AtomicUsize, Ordering};
use std::sync::Arc;
use std::time::{Duration, Instant};

struct Job { id: usize, counts: Arc<Vec<AtomicUsize>>, work: u64, wait_for: Option<Arc<AtomicBool>>, signal: Option<Arc<AtomicBool>>, timed_out: Arc<AtomicBool> }
impl Task for Job {
    fn run(self) {
        verif::emit(Event::JobStart(self.id, verif::current_worker()));
        if let Some(s) = &self.signal { s.store(true, Ordering::SeqCst); }
        if let Some(w) = &self.wait_for {
            let t0 = Instant::now();
            while !w.load(Ordering::SeqCst) {
                if t0.elapsed() > Duration::from_secs(5) { self.timed_out.store(true, Ordering::SeqCst); break; }
                std::thread::yield_now();
            }
        }
        match self.work { 0 => {}, 1 => std::thread::yield_now(), n => std::thread::sleep(Duration::from_micros(n)) }
        self.counts[self.id].fetch_add(1, Ordering::SeqCst);
        verif::emit(Event::JobEnd(self.id));
    }
}

fn show(log: &[Event]) -> String {
    let mut v = Vec::with_capacity(log.len());
    for e in log {
        v.push(match e {
            Event::Send => "S".to_string(), Event::DropSender => "D".into(), Event::Joined => "J".into(), Event::Returned => "R".into(),
            Event::Lock(w) => format!("L{w}"), Event::Unlock(w) => format!("U{w}"), Event::Exit(w) => format!("X{w}"),
            Event::JobStart(j, w) => format!("B{j}.{w}"), Event::JobEnd(j) => format!("E{j}"),
            other => format!("?{:?}", other).replace(' ', ""),
        });
    }
    v.join(",")
}

pub fn run(case: &str) -> String {
    crate::util::note_current(case);
    let f: Vec<&str> = case.split(' ').collect();
    let _ = verif::take_log();
    let timed_out = Arc::new(AtomicBool::new(false));
    if f[0] == "P" {
        let k: usize = f[1].parse().unwrap();
        let counts: Arc<Vec<AtomicUsize>> = Arc::new((0..k).map(|_| AtomicUsize::new(0)).collect());
        let flag = Arc::new(AtomicBool::new(false));
        let jobs: Vec<Job> = (0..k).map(|i| Job { id: i, counts: counts.clone(), work: 0,
            wait_for: if i + 1 < k { Some(flag.clone()) } else { None }, signal: if i + 1 == k { Some(flag.clone()) } else { None }, timed_out: timed_out.clone() }).collect();
        verif::verif_run_pool(k, jobs);
        let log = verif::take_log();
        let bad: Vec<String> = counts.iter().enumerate().filter(|(_, c)| c.load(Ordering::SeqCst) != 1).map(|(i, c)| format!("{}={}", i, c.load(Ordering::SeqCst))).collect();
        return format!("{} counts={} par={}", show(&log), if bad.is_empty() { "ok".to_string() } else { format!("bad:{}", bad.join("/")) }, if timed_out.load(Ordering::SeqCst) { "TIMEOUT" } else { "ok" });
    }
    let workers: usize = f[1].parse().unwrap();
    let njobs: usize = f[2].parse().unwrap();
    let style: u64 = f[3].parse().unwrap();
    let mut rng = Rng::new(f[4].parse().unwrap(), "pooljobs");
    if f[0] == "W" {
        let counts: Arc<Vec<AtomicUsize>> = Arc::new((0..njobs).map(|_| AtomicUsize::new(0)).collect());
        let started: Vec<Arc<AtomicBool>> = (0..njobs).map(|_| Arc::new(AtomicBool::new(false))).collect();
        let plan: Vec<(u64, u64)> = (0..njobs).map(|_| (200 + rng.below(1800), match style { 0 => 0, 1 => rng.below(400), 2 => u64::MAX, _ => *rng.pick(&[0u64, 50, 300, u64::MAX]) })).collect();
        let (counts2, started2, to2) = (counts.clone(), started.clone(), timed_out.clone());
        let it = (0..njobs).map(move |i| {
            // pacing happens here, on the submitting thread, between two execute() calls
            match plan[i].1 {
                0 => {}
                u64::MAX => if i > 0 { let t0 = Instant::now(); while !started2[i - 1].load(Ordering::SeqCst) && t0.elapsed() < Duration::from_secs(2) { std::thread::yield_now(); } }
                us => std::thread::sleep(Duration::from_micros(us)),
            }
            Job { id: i, counts: counts2.clone(), work: plan[i].0, wait_for: None, signal: Some(started2[i].clone()), timed_out: to2.clone() }
        });
        verif::verif_run_pool(workers, it);
        // checked at once, with no grace period: shutdown must not return before every job has finished
        let bad: Vec<String> = counts.iter().enumerate().filter(|(_, c)| c.load(Ordering::SeqCst) != 1).map(|(i, c)| format!("{}={}", i, c.load(Ordering::SeqCst))).collect();
        let log = verif::take_log();
        return format!("{} counts={}", show(&log), if bad.is_empty() { "ok".to_string() } else { format!("bad:{}", bad.join("/")) });
    }
    if f[0] == "U" {
        // the submitting thread panics after handing over `njobs` jobs (jobs of 1-3 ms, so some are queued or in flight): the pool
        // is shut down by unwinding, and that shutdown too returns only after every submitted job has finished
        let counts: Arc<Vec<AtomicUsize>> = Arc::new((0..njobs).map(|_| AtomicUsize::new(0)).collect());
        let plan: Vec<u64> = (0..njobs).map(|_| 1000 + rng.below(2000)).collect();
        let (counts2, to2) = (counts.clone(), timed_out.clone());
        let it = (0..=njobs).map(move |i| {
            if i == njobs { panic!("scripted panic of the submitting thread"); }
            Job { id: i, counts: counts2.clone(), work: plan[i], wait_for: None, signal: None, timed_out: to2.clone() }
        });
        let prev = std::panic::take_hook();
        std::panic::set_hook(Box::new(|_| {}));
        let r = std::panic::catch_unwind(std::panic::AssertUnwindSafe(|| verif::verif_run_pool(workers, it)));
        let bad: Vec<String> = counts.iter().enumerate().filter(|(_, c)| c.load(Ordering::SeqCst) != 1).map(|(i, c)| format!("{}={}", i, c.load(Ordering::SeqCst))).collect();
        std::panic::set_hook(prev);
        let log = verif::take_log();
        return format!("{} counts={} unwound={}", show(&log), if bad.is_empty() { "ok".to_string() } else { format!("bad:{}", bad.join("/")) }, if r.is_err() { "ok" } else { "NOPANIC" });
    }
    let counts: Arc<Vec<AtomicUsize>> = Arc::new((0..njobs).map(|_| AtomicUsize::new(0)).collect());
    let jobs: Vec<Job> = (0..njobs).map(|i| Job { id: i, counts: counts.clone(),
        work: match style { 0 => 0, 1 => 1, 2 => 2 + rng.below(200), _ => *rng.pick(&[0u64, 0, 1, 1, 20, 150]) }, wait_for: None, signal: None, timed_out: timed_out.clone() }).collect();
    verif::verif_run_pool(workers, jobs);
    let log = verif::take_log();
    let bad: Vec<String> = counts.iter().enumerate().filter(|(_, c)| c.load(Ordering::SeqCst) != 1).map(|(i, c)| format!("{}={}", i, c.load(Ordering::SeqCst))).collect();
    format!("{} counts={}", show(&log), if bad.is_empty() { "ok".to_string() } else { format!("bad:{}", bad.join("/")) })
}

pub fn gen(ctx: &Ctx) {
    let mut rng = Rng::new(ctx.seed, "pool");
    let mut out = Out::new(&ctx.dir, "pool");
    out.rule = "real executions of the pool (1..8 workers, 0..200 jobs; no-op / yielding / sleeping / mixed jobs) recorded as event traces; plus paced submissions (1..4 workers, 2..12 jobs of 0.2-2 ms, each handed to execute() after a 0-400 us pause or once its predecessor has started, so that submissions meet busy workers); plus runs whose submitting thread panics after 1..10 jobs of 1-3 ms (shutdown by unwinding); plus parallelism runs where k-1 jobs wait for the k-th \
                to start on a k-worker pool (5 s timeout). Schedules are whatever the OS produces (sampled, not enumerated). non-trivial = at least 2 jobs and 2 workers".into();
    let n = if ctx.thorough { 5000 } else { 200 };
    for _ in 0..n {
        let w = rng.range(1, 8);
        let j = match rng.below(4) { 0 => rng.below(4), 1 => rng.below(20), _ => rng.below(200) };
        let case = format!("T {} {} {} {}", w, j, rng.below(4), rng.below(1 << 30));
        let r = run(&case);
        out.emit(&case, &r, &format!("trace/w{}", if w == 1 { "1" } else if w <= 3 { "2-3" } else { "4-8" }), w >= 2 && j >= 2);
    }
    for _ in 0..(if ctx.thorough { 1500 } else { 60 }) {
        let w = rng.range(1, 4);
        let case = format!("W {} {} {} {}", w, rng.range(2, 12), rng.below(4), rng.below(1 << 30));
        let r = run(&case);
        out.emit(&case, &r, &format!("paced/w{w}"), true);
    }
    for _ in 0..(if ctx.thorough { 200 } else { 12 }) {
        let w = rng.range(1, 4);
        let case = format!("U {} {} 0 {}", w, rng.range(1, 10), rng.below(1 << 30));
        let r = run(&case);
        out.emit(&case, &r, &format!("unwinding-shutdown/w{w}"), true);
    }
    for k in 2..=8 {
        for rep in 0..(if ctx.thorough { 10 } else { 3 }) {
            let case = format!("P {k}");
            let r = run(&case);
            out.emit(&format!("{case} #{rep}"), &r, "parallel", true);
        }
    }
    out.finish();
}


// ---------------------------------------------------------------------------------------------
// stream `poolsrv` (C13 at server level): serve() / serve_epoll() configured with thread_count(k) must let k handlers
// make progress at the same time, whatever the other settings are.
// case: `<pool|epoll> <k> <epoll_queue_max_events>`; impl: the k response statuses
pub fn run_srv(case: &str) -> String {
    crate::util::note_current(case);
    use std::io::{Read, Write};
    let f: Vec<&str> = case.split(' ').collect();
    let (mode, k, maxev): (String, usize, usize) = (f[0].to_string(), f[1].parse().unwrap(), f[2].parse().unwrap());
    // optional fourth field: an idle gap in ms after which the rendezvous is repeated on the same server (own counter)
    let idle: u64 = f.get(3).map(|x| x.parse().unwrap()).unwrap_or(0);
    let (meet, route) = if idle > 0 { (&crate::s_conn::MEETB, "meetb") } else { (&crate::s_conn::MEET, "meet") };
    meet.store(0, Ordering::SeqCst);
    let port = crate::util::listen_port();
    let stop = Arc::new(AtomicBool::new(false));
    let mut b = khttp::Server::builder(("127.0.0.1", port)).unwrap();
    b.thread_count(k);
    b.epoll_queue_max_events(maxev);
    b.fallback_route(crate::s_conn::app);
    { let stop = stop.clone(); b.connection_setup_hook(move |c| {
        if stop.load(Ordering::SeqCst) { return khttp::ConnectionSetupAction::StopAccepting; }
        match c { Ok((s, _)) => khttp::ConnectionSetupAction::Proceed(s), Err(_) => khttp::ConnectionSetupAction::Drop } }); }
    let server = b.build();
    let th = std::thread::spawn(move || { let _ = if mode == "pool" { server.serve() } else { server.serve_epoll() }; });
    let connect = move || -> Option<std::net::TcpStream> {
        let t = Instant::now();
        loop { match std::net::TcpStream::connect(("127.0.0.1", port)) { Ok(s) => return Some(s), Err(_) => { if t.elapsed() > Duration::from_secs(2) { return None; } std::thread::sleep(Duration::from_millis(1)); } } }
    };
    let mut all_outs: Vec<String> = Vec::new();
    for round in 0..(if idle > 0 { 2 } else { 1 }) {
    if round > 0 { std::thread::sleep(Duration::from_millis(idle)); meet.store(0, Ordering::SeqCst); }
    let hs: Vec<_> = (0..k).map(|_| std::thread::spawn(move || -> String {
        let mut s = match connect() { Some(s) => s, None => return "NOCONNECT".into() };
        s.set_read_timeout(Some(Duration::from_secs(4))).unwrap();
        let _ = s.write_all(format!("GET /{route}/{k} HTTP/1.1\r\nConnection: close\r\n\r\n").as_bytes());
        let mut buf = Vec::new();
        let mut tmp = [0u8; 1024];
        loop { match s.read(&mut tmp) { Ok(0) | Err(_) => break, Ok(n) => { buf.extend_from_slice(&tmp[..n]); if buf.windows(4).any(|w| w == b"\r\n\r\n") && buf.len() > 40 { break; } } } }
        String::from_utf8_lossy(&buf).split(' ').nth(1).unwrap_or("NORESPONSE").to_string()
    })).collect();
    let outs: Vec<String> = hs.into_iter().map(|h| h.join().unwrap_or_else(|_| "PANIC".into())).collect();
    all_outs.extend(outs);
    }
    let outs = all_outs;
    stop.store(true, Ordering::SeqCst);
    let _ = connect();
    let t0 = Instant::now();
    while !th.is_finished() && t0.elapsed() < Duration::from_secs(3) { std::thread::sleep(Duration::from_millis(2)); }
    let _ = verif::take_log();
    outs.join(",")
}

pub fn gen_srv(ctx: &Ctx) {
    let mut out = Out::new(&ctx.dir, "poolsrv");
    out.rule = "serve() and serve_epoll() with thread_count k in 2..4 (thorough ..8) and epoll_queue_max_events in {1, 2, 512}: k connections whose handlers answer 200 only once all k are running \
                at the same time (503 after 2 s); one history (thorough: three) repeats the rendezvous on the same server after an idle gap of 5.6 s. non-trivial = all".into();
    let kmax = if ctx.thorough { 8 } else { 4 };
    // idle gaps: after a first rendezvous the server is left alone for 5.6 s (thorough: also 2 x 5.6 s on another server), then
    // the k handlers must meet again - all workers must still be there (seed C13-h: an idle worker gave up after 5 s).  These
    // histories run beside the others (they mostly sleep) on their own rendezvous counter.
    let idle_cases: Vec<String> = if ctx.thorough { vec!["pool 2 512 5600".into(), "epoll 3 512 5600".into(), "pool 3 512 11200".into()] } else { vec!["pool 2 512 5600".into()] };
    let idle_thread = { let cs = idle_cases.clone(); std::thread::spawn(move || cs.iter().map(|c| run_srv(c)).collect::<Vec<String>>()) };
    for mode in ["pool", "epoll"] {
        for k in 2..=kmax {
            for maxev in [1usize, 2, 512] {
                if mode == "pool" && maxev != 512 && k > 2 { continue; }
                let case = format!("{mode} {k} {maxev}");
                let r = run_srv(&case);
                out.emit(&case, &r, &format!("{mode}/maxev{maxev}"), true);
            }
        }
    }
    let rs = idle_thread.join().unwrap_or_default();
    for (c, r) in idle_cases.iter().zip(rs.iter()) { out.emit(c, r, "idle-gap", true); }
    let _ = ctx.seed;
    out.finish();
}
