//! C16 / C17 stream `modes`: the same scripted multi-connection history against serve(), serve_threaded()
//! and serve_epoll() on real listeners, with logging lifecycle hooks.
//! case:  `[T<n>!]<conn>/<conn>/...` ; conn = `<kind>:` steps `D<hex>`,`R`,`X` joined by ';'  (T<n>! = thread_count n, default 4)
//!        kind P = the setup hook proceeds with the accepted stream, C = proceeds with a clone of it (the accepted one is dropped),
//!        X = the setup hook drops it, K = proceed, and the client keeps the connection open across StopAccepting,
//!        Q = proceed; the client sends its bytes at once but reads the responses only after the server was told to stop and
//!        the K connections were closed (with every pool worker held by a K connection its job waits in the queue meanwhile).
//!        W = proceed after shutting down the write half of the accepted stream.  Prefix `B!` = all connections are made at once.
//!        Connections are made one after the other; a final extra connection makes the setup hook answer StopAccepting.
//! impl:  per mode `mode=<name> conns=[<transcript>#hooks=<S,P*,T(ok|err)>|...] returned=<0|1>` joined by ' ## '
use crate::s_conn::{app, parse_response};
use crate::util::*;
use crate::Ctx;
use khttp::{ConnectionSetupAction, Headers, PreRoutingAction, Server};
use std::io::{Read, Write};
use std::net::TcpStream;
use std::sync::atomic::{AtomicBool, AtomicUsize, Ordering};
use std::sync::{Arc, Mutex};
use std::time::{Duration, Instant};

#[derive(Default)]
struct HookLog {
    // per accepted connection (in accept order): events
    conns: Vec<Vec<String>>,
    // peer port -> connection index
    by_port: Vec<(u16, usize)>,
    // descriptor of the stream handed to the server -> connection index (latest entry wins: a descriptor number is reused only
    // after its connection is gone).  getpeername fails on a connection the peer has already reset, the descriptor does not.
    by_fd: Vec<(i32, usize)>,
}

fn free_port() -> u16 { listen_port() }

fn run_mode(mode: &str, port: u16, conns: &[(bool, Vec<String>)], keep: &[bool], kinds: &[char], threads: usize, max_head: usize, linger_ms: u64, burst: bool) -> String {
    let log: Arc<Mutex<HookLog>> = Arc::new(Mutex::new(HookLog::default()));
    let stop = Arc::new(AtomicBool::new(false));
    let decisions: Arc<Vec<bool>> = Arc::new(conns.iter().map(|c| c.0).collect());
    let clones: Arc<Vec<bool>> = Arc::new(kinds.iter().map(|k| *k == 'C').collect());
    // kind W: the setup hook shuts down the write half of the accepted stream before it proceeds (stand-in for a peer that
    // reset the connection): every response write on this connection fails, and the teardown hook must be told so
    let wshut: Arc<Vec<bool>> = Arc::new(kinds.iter().map(|k| *k == 'W').collect());
    let accepted = Arc::new(AtomicUsize::new(0));
    let mut b = Server::builder(("127.0.0.1", port)).unwrap();
    b.thread_count(threads);
    if max_head > 0 { b.max_request_head_size(max_head); }
    b.fallback_route(app);
    {
        let (log, stop, decisions, accepted) = (log.clone(), stop.clone(), decisions.clone(), accepted.clone());
        let clones = clones.clone();
        let wshut = wshut.clone();
        b.connection_setup_hook(move |c| {
            if stop.load(Ordering::SeqCst) { return ConnectionSetupAction::StopAccepting; }
            match c {
                Ok((stream, peer)) => {
                    let i = accepted.fetch_add(1, Ordering::SeqCst);
                    let mut l = log.lock().unwrap();
                    l.conns.push(vec!["S".to_string()]);
                    l.by_port.push((peer.port(), i));
                    drop(l);
                    // burst histories: the hook of the first connection lingers, so that all the others are waiting in the
                    // listen backlog when the accept loop goes on
                    if burst && i == 0 { std::thread::sleep(Duration::from_millis(5)); }
                    if !decisions.get(i).copied().unwrap_or(true) { return ConnectionSetupAction::Drop; }
                    if wshut.get(i).copied().unwrap_or(false) { let _ = stream.shutdown(std::net::Shutdown::Write); }
                    use std::os::unix::io::AsRawFd;
                    let out = if clones.get(i).copied().unwrap_or(false) {
                        // hand back a different TcpStream object (another descriptor) for the same connection
                        match stream.try_clone() { Ok(c) => { drop(stream); c } Err(_) => stream }
                    } else { stream };
                    log.lock().unwrap().by_fd.push((out.as_raw_fd(), i));
                    ConnectionSetupAction::Proceed(out)
                }
                Err(_) => ConnectionSetupAction::Drop,
            }
        });
    }
    {
        let log = log.clone();
        b.pre_routing_hook(move |req, res| {
            let port = res.get_stream().peer_addr().map(|a| a.port()).unwrap_or(0);
            if req.headers.get("x-nolog").is_none() {
                use std::os::unix::io::AsRawFd;
                let fd = res.get_stream().as_raw_fd();
                let mut l = log.lock().unwrap();
                let idx = l.by_fd.iter().rev().find(|(f, _)| *f == fd).map(|(_, i)| *i).or_else(|| l.by_port.iter().find(|(p, _)| *p == port).map(|(_, i)| *i));
                if let Some(i) = idx { l.conns[i].push("P".into()); }
            }
            match req.headers.get("x-hook") {
                Some(b"answer") => { let _ = res.ok(&Headers::new_nodate(), b"hook"); PreRoutingAction::Drop }
                Some(b"answer-close") => { let mut h = Headers::new_nodate(); h.set_connection_close(); let _ = res.ok(&h, b"hook"); PreRoutingAction::Drop }
                _ => PreRoutingAction::Proceed,
            }
        });
    }
    {
        let log = log.clone();
        b.connection_teardown_hook(move |stream, result| {
            let port = stream.peer_addr().map(|a| a.port()).unwrap_or(0);
            {
                use std::os::unix::io::AsRawFd;
                let fd = stream.as_raw_fd();
                let mut l = log.lock().unwrap();
                let idx = l.by_fd.iter().rev().find(|(f, _)| *f == fd).map(|(_, i)| *i).or_else(|| l.by_port.iter().find(|(p, _)| *p == port).map(|(_, i)| *i));
                if let Some(i) = idx {
                    l.conns[i].push(format!("T({})", if result.is_ok() { "ok" } else { "err" }));
                } else {
                    l.conns.push(vec![format!("T?({})", if result.is_ok() { "ok" } else { "err" })]);
                }
            }
            // a hook whose output depends on the result it is handed: a last-gasp 599 on an error (all modes must agree on it)
            if result.is_err() { let _ = (&stream).write_all(b"HTTP/1.1 599 Teardown Saw Error\r\ncontent-length: 0\r\n\r\n"); }
            // a hook that closes the socket and then keeps working for a while: whatever the server still does for
            // this connection afterwards must not touch a later connection that got the same descriptor number
            if linger_ms > 0 { drop(stream); std::thread::sleep(Duration::from_millis(linger_ms)); }
        });
    }
    let server = b.build();
    let returned = Arc::new(AtomicBool::new(false));
    let returned2 = returned.clone();
    let mode_s = mode.to_string();
    let th = std::thread::spawn(move || {
        let r = match mode_s.as_str() { "pool" => server.serve(), "threaded" => server.serve_threaded(), _ => server.serve_epoll() };
        returned2.store(true, Ordering::SeqCst);
        r.is_ok()
    });
    // wait for the listener
    let t0 = Instant::now();
    let connect = |timeout: Duration| -> Option<TcpStream> {
        let t = Instant::now();
        loop {
            match TcpStream::connect(("127.0.0.1", port)) { Ok(s) => return Some(s), Err(_) => { if t.elapsed() > timeout { return None; } std::thread::sleep(Duration::from_millis(1)); } }
        }
    };
    let mut transcripts = Vec::new();
    let mut held: Vec<(usize, TcpStream)> = Vec::new();
    let mut queued: Vec<(usize, TcpStream, usize)> = Vec::new();
    let read_one = |s: &mut TcpStream, rbuf: &mut Vec<u8>| -> String {
        let mut tmp = [0u8; 65536];
        loop {
            if let Some((used, r)) = parse_response(rbuf) { rbuf.drain(..used); break r; }
            match s.read(&mut tmp) { Ok(0) => break "CLOSED".to_string(), Ok(n) => rbuf.extend_from_slice(&tmp[..n]), Err(e) if e.kind() == std::io::ErrorKind::WouldBlock || e.kind() == std::io::ErrorKind::TimedOut => break "TIMEOUT".to_string(), Err(_) => break "CLOSED".to_string() }
        }
    };
    // burst histories: every connection is made before any of them is used
    let mut pre: Vec<Option<TcpStream>> = if burst { conns.iter().map(|_| connect(Duration::from_secs(2))).collect() } else { Vec::new() };
    for (ci, (_, steps)) in conns.iter().enumerate() {
        let made = if burst { pre[ci].take() } else { connect(Duration::from_secs(2)) };
        let mut s = match made { Some(s) => s, None => { transcripts.push("NOCONNECT".to_string()); continue; } };
        let _ = t0;
        // the server's setup hook must have seen this connection before the script goes on (otherwise, on a slow machine,
        // a connection still in the listen backlog would meet a later decision, e.g. StopAccepting)
        { let ta = Instant::now(); while accepted.load(Ordering::SeqCst) < ci + 1 && ta.elapsed() < Duration::from_secs(3) { std::thread::sleep(Duration::from_micros(200)); } }
        s.set_nodelay(true).unwrap();
        s.set_read_timeout(Some(Duration::from_millis(3000))).unwrap();
        let mut rbuf: Vec<u8> = Vec::new();
        let mut outs = Vec::new();
        if kinds[ci] == 'Q' {
            for st in steps { if st.starts_with('D') { let _ = s.write_all(&unhex(&st[1..])); std::thread::sleep(Duration::from_micros(700)); } }
            queued.push((ci, s, steps.iter().filter(|x| x.as_str() == "R").count()));
            transcripts.push(String::new());
            continue;
        }
        for (si, st) in steps.iter().enumerate() {
            match &st[..1] {
                // (no pause before an immediately following FIN: both are to be pending together)
                "D" => { let _ = s.write_all(&unhex(&st[1..])); if steps.get(si + 1).map(|x| x.as_str()) != Some("X") { std::thread::sleep(Duration::from_micros(700)); } }
                "X" => { let _ = s.shutdown(std::net::Shutdown::Write); }
                _ => { let r = read_one(&mut s, &mut rbuf); outs.push(r); }
            }
        }
        // final state: does the server close within 400 ms?  (complete responses that still arrive - the teardown hook's
        // 599 - are appended to the transcript; anything else is DATA)
        s.set_read_timeout(Some(Duration::from_millis(400))).unwrap();
        let mut tmp = [0u8; 1024];
        let fin = loop {
            while let Some((used, r)) = parse_response(&rbuf) { rbuf.drain(..used); outs.push(r); }
            match s.read(&mut tmp) { Ok(0) => break if rbuf.is_empty() { "EOF" } else { "DATA" }, Ok(n) => rbuf.extend_from_slice(&tmp[..n]), Err(e) if e.kind() == std::io::ErrorKind::WouldBlock || e.kind() == std::io::ErrorKind::TimedOut => break if rbuf.is_empty() { "OPEN" } else { "DATA" }, Err(_) => break "EOF" }
        };
        if keep[ci] { held.push((ci, s)); transcripts.push(format!("{}|{}", outs.join(";"), fin)); continue; }
        drop(s);
        // give the server time to notice the close and run its teardown for this connection
        let want_teardown = conns[ci].0;
        let t1 = Instant::now();
        loop {
            let done = { let l = log.lock().unwrap(); l.conns.get(ci).map(|c| !want_teardown || c.iter().any(|e| e.starts_with("T("))).unwrap_or(false) };
            if done || t1.elapsed() > Duration::from_millis(400) { break; }
            std::thread::sleep(Duration::from_millis(2));
        }
        transcripts.push(format!("{}|{}", outs.join(";"), fin));
    }
    // stop the server
    stop.store(true, Ordering::SeqCst);
    let _ = connect(Duration::from_millis(500));
    std::thread::sleep(Duration::from_millis(30));
    // connections that were kept open across StopAccepting: in one history in three the server is first left alone for 1.3 s
    // (longer than serve_epoll's reclaim interval) and must then still serve a request on each of them (round-6 seed C15-l: the
    // loop left on its first quiet interval); they are closed by the client only after that
    let mut held_ids: Vec<usize> = held.iter().map(|h| h.0).collect();
    let quiet = !held.is_empty() && (conns.len() + conns.iter().map(|c| c.1.len()).sum::<usize>()) % 3 == 0;
    if quiet {
        std::thread::sleep(Duration::from_millis(1300));
        for (ci, s) in held.iter_mut() {
            // (only connections the server has left open; the extra request is not entered in the hook log)
            if !transcripts[*ci].ends_with("|OPEN") { continue; }
            let _ = s.write_all(b"GET /none?after-stop HTTP/1.1\r\nx-nolog: 1\r\n\r\n");
            s.set_read_timeout(Some(Duration::from_millis(3000))).unwrap();
            let mut rbuf = Vec::new();
            let r = read_one(s, &mut rbuf);
            let want = format!("200,{},k", hex(b"GET /none after-stop -"));
            if r != want { transcripts[*ci] = format!("{}|NOT-SERVED-AFTER-STOP({})", transcripts[*ci], r); }
        }
    }
    drop(held);
    // now the deferred reads of the Q connections, then their close
    for (ci, mut s, nr) in queued {
        let mut rbuf = Vec::new();
        let outs: Vec<String> = (0..nr).map(|_| read_one(&mut s, &mut rbuf)).collect();
        s.set_read_timeout(Some(Duration::from_millis(400))).unwrap();
        let mut tmp = [0u8; 1024];
        let fin = match s.read(&mut tmp) { Ok(0) => "EOF", Ok(_) => "DATA", Err(e) if e.kind() == std::io::ErrorKind::WouldBlock || e.kind() == std::io::ErrorKind::TimedOut => "OPEN", Err(_) => "EOF" };
        transcripts[ci] = format!("{}|{}", outs.join(";"), fin);
        drop(s);
        held_ids.push(ci);
    }
    let t3 = Instant::now();
    loop {
        let done = { let l = log.lock().unwrap(); held_ids.iter().all(|ci| l.conns.get(*ci).map(|c| c.iter().any(|e| e.starts_with("T("))).unwrap_or(false)) };
        if done || t3.elapsed() > Duration::from_millis(500) { break; }
        std::thread::sleep(Duration::from_millis(2));
    }
    let t2 = Instant::now();
    while !returned.load(Ordering::SeqCst) && t2.elapsed() < Duration::from_secs(3) { std::thread::sleep(Duration::from_millis(2)); }
    let ret = returned.load(Ordering::SeqCst);
    if ret { let _ = th.join(); }
    let l = log.lock().unwrap();
    let per: Vec<String> = (0..conns.len()).map(|i| format!("{}#hooks={}", transcripts.get(i).cloned().unwrap_or_default(), l.conns.get(i).map(|c| c.join(",")).unwrap_or_else(|| "-".into()))).collect();
    let extra: Vec<String> = l.conns.iter().skip(conns.len()).map(|c| c.join(",")).collect();
    format!("mode={} conns=[{}]{} returned={}", mode, per.join("|"), if extra.is_empty() { String::new() } else { format!(" extra={}", extra.join("/")) }, ret as u8)
}

pub fn run(case: &str) -> String {
    crate::util::note_current(case);
    // P = proceed, X = setup hook drops it, K = proceed and the client keeps it open across StopAccepting
    // optional prefixes `T<n>!` (thread_count), `N<n>!` (max_request_head_size), `L<ms>!` (the teardown hook closes the stream and lingers)
    let (mut threads, mut max_head, mut linger_ms, mut case) = (4usize, 0usize, 0u64, case);
    // `B!` = burst: all connections are made at once, before any of them is used
    let burst = case.starts_with("B!");
    if burst { case = &case[2..]; }
    loop {
        let b = case.as_bytes();
        if b.len() > 2 && (b[0] == b'T' || b[0] == b'N' || b[0] == b'L') && b[1].is_ascii_digit() {
            if let Some((n, rest)) = case[1..].split_once('!') {
                if let Ok(v) = n.parse::<usize>() { match b[0] { b'T' => threads = v, b'N' => max_head = v, _ => linger_ms = v as u64 } case = rest; continue; }
            }
        }
        break;
    }
    let keep: Vec<bool> = case.split('/').map(|c| c.starts_with("K:")).collect();
    let kinds: Vec<char> = case.split('/').map(|c| c.chars().next().unwrap()).collect();
    let conns: Vec<(bool, Vec<String>)> = case.split('/').map(|c| {
        let (d, steps) = c.split_once(':').unwrap();
        (d != "X", steps.split(';').filter(|x| !x.is_empty()).map(|x| x.to_string()).collect())
    }).collect();
    // the three servers run side by side (separate listeners, logs and client threads)
    // three distinct ports, chosen while all three probe listeners are still bound
    let ports: Vec<u16> = (0..3).map(|_| listen_port()).collect();
    std::thread::scope(|sc| {
        let hs: Vec<_> = ["pool", "threaded", "epoll"].iter().zip(ports.iter()).map(|(m, port)| { let (conns, keep, kinds, port) = (&conns, &keep, &kinds, *port); sc.spawn(move || run_mode(m, port, conns, keep, kinds, threads, max_head, linger_ms, burst)) }).collect();
        hs.into_iter().map(|h| h.join().unwrap_or_else(|_| "mode=? PANIC".into())).collect::<Vec<_>>().join(" ## ")
    })
}

pub fn gen(ctx: &Ctx) {
    use crate::s_connexp::{exchange, Req};
    let mut rng = Rng::new(ctx.seed, "modes");
    let mut out = Out::new(&ctx.dir, "modes");
    out.rule = "histories of 1..4 sequential connections, each with a setup decision (proceed / drop) and 0..3 lock-step requests (no body / fixed / chunked; handlers: read all, none, close, Err, slow (answer first, linger 25 ms: the next request or the close arrives while the request is in flight), \
                hook answers; malformed head; client close without request), run against serve, serve_threaded and serve_epoll on real listeners with logging setup / pre-routing / teardown hooks; \
                one history in six keeps thread_count (4) connections open side by side; the server is then stopped through the setup hook; one request in eight is followed at once by the client's FIN (the response is read afterwards); the pre-routing hook answers alone, with a close token, or to a request asking for close; in one history in four the teardown hook closes the stream and lingers 25 ms; one proceeding connection in five is handed back by the setup hook as a clone of the accepted stream; one history in seven runs a 1-2 thread pool whose workers are all held by open connections while one more connection waits in the queue when the server is stopped; after a close signal the client tries a further request half of the time; 1..3 Expect: 100-continue exchanges on one connection (compared across modes only); the teardown hook writes a 599 response when it is handed an error; write-dead connections (setup hook shuts down the write half: every answer, also a 400, fails to be written); bursts of 3..7 connections made at once with runs of consecutive Drop decisions. non-trivial = at least one request answered".into();
    let n = if ctx.thorough { 1000 } else { 60 };
    for _ in 0..n {
        let nc = rng.range(1, 4);
        let mut conns = Vec::new();
        // one history in six keeps its connections open side by side, up to the pool size (thread_count = 4)
        let side_by_side = rng.chance(1, 6);
        for _ in 0..nc {
            let proceed = side_by_side || !rng.chance(1, 6);
            let cloned = proceed && !side_by_side && rng.chance(1, 5);
            let mut steps: Vec<String> = Vec::new();
            let nr = rng.below(4);
            let mut ended = false;
            for j in 0..nr {
                if ended { break; }
                let kind = rng.below(16);
                if kind == 0 {
                    steps.push(format!("D{}", hex(b"GET / HTTP/1.1\r\nbroken header\r\n\r\n"))); steps.push("R".into()); ended = true; continue;
                }
                // (a slow request has no body: an unread body followed at once by the next request is finding F20c, property C07)
                let body: Vec<u8> = if rng.chance(1, 2) || kind == 9 { vec![] } else { (0..rng.range(1, 50)).map(|_| b'a' + rng.below(26) as u8).collect() };
                let mut fields: Vec<(String, Vec<u8>)> = Vec::new();
                // (a handler that answers before it reads a CHUNKED body can still be reading when the next request arrives on a
                // loaded machine: finding F20c, property C07 - /first gets fixed-length bodies here)
                let wire = if body.is_empty() { vec![] } else if kind == 4 || rng.chance(1, 2) { fields.push(("Content-Length".into(), body.len().to_string().into_bytes())); body.clone() }
                           else { fields.push(("Transfer-Encoding".into(), b"chunked".to_vec())); crate::s_body::encode_chunked(&mut rng, &body) };
                // 9: a slow handler (answers, then lingers 25 ms): what the client does next reaches the server while the request is in flight
                // (a streamed body above 8 KiB without a declared length goes out chunked through the 128 KiB stack buffer of the
                // printer: seed C17-j gave serve_threaded's connection threads a 128 KiB stack)
                let path = match kind { 1 => "/close", 2 => "/err", 3 => "/none", 4 => "/first", 5 => "/nosuch", 6 => if rng.chance(1, 2) { "/reader/3000" } else { "/reader/20000" }, 9 => "/slow/25",
                    12 => *rng.pick(&["/errk/wb", "/errk/to", "/errk/intr", "/errk/pipe", "/errk/other"]), 13 => *rng.pick(&["/closer", "/closeka"]), _ => "/all" };
                if kind == 7 {
                    // the pre-routing hook answers: alone, with a close token in its response, or to a request that asks for close
                    match rng.below(3) { 0 => fields.push(("x-hook".into(), b"answer".to_vec())), 1 => fields.push(("x-hook".into(), b"answer-close".to_vec())),
                        _ => { fields.push(("x-hook".into(), b"answer".to_vec())); fields.push(("Connection".into(), b"close".to_vec())); } }
                }
                if kind == 8 { fields.push(("Connection".into(), b"close".to_vec())); }
                let r = Req { method: if wire.is_empty() { "GET" } else { "POST" }, path: path.into(), fields, body: wire };
                let g = rng.chance(1, 2);
                let mut ex = exchange(&mut rng, &r, g);
                // one request in eight is followed at once by the client's FIN: the request and the end of the stream are
                // both pending when the server looks at the connection; the response is read afterwards
                if rng.chance(1, 8) && !side_by_side { let rpos = ex.len() - 1; ex.insert(rpos, "X".into()); ended = true; }
                steps.extend(ex);
                // after a close signal the connection is closed by the server: half of the time the client tries another request anyway
                if path.starts_with("/close") || path.starts_with("/err") || kind == 8 { ended = rng.chance(1, 2); }
            }
            if rng.chance(1, 3) { steps.push("X".into()); }
            if side_by_side { steps.retain(|x| x != "X"); }
            conns.push(format!("{}:{}", if side_by_side { "K" } else if cloned { "C" } else if proceed { "P" } else { "X" }, steps.join(";")));
        }
        let mut case = conns.join("/");
        let mut class = format!("conns{nc}");
        if side_by_side {
            // fill up to exactly thread_count simultaneously open connections
            let r = Req { method: "GET", path: "/none".into(), fields: vec![], body: vec![] };
            for _ in nc..4 { case.push_str(&format!("/K:{}", exchange(&mut rng, &r, false).join(";"))); }
            class = "four-open-side-by-side".into();
        } else if rng.chance(1, 7) {
            // a small pool whose workers are all held by open connections, one more connection whose job waits in the queue,
            // then StopAccepting: the queued connection must still be handled and torn down
            let t = rng.range(1, 2);
            let r = Req { method: "GET", path: "/none".into(), fields: vec![], body: vec![] };
            let mut cs: Vec<String> = (0..t).map(|_| format!("K:{}", exchange(&mut rng, &r, false).join(";"))).collect();
            let q = Req { method: "GET", path: "/all".into(), fields: vec![], body: vec![] };
            cs.push(format!("Q:{}", exchange(&mut rng, &q, true).join(";")));
            case = format!("T{t}!{}", cs.join("/"));
            class = "queued-at-stop".into();
        } else if rng.chance(1, 8) {
            // one more connection: a request, then the client keeps it open while the server is told to stop
            let r = Req { method: "GET", path: "/none".into(), fields: vec![], body: vec![] };
            case.push_str(&format!("/K:{}", exchange(&mut rng, &r, false).join(";")));
            class = "kept-open-across-stop".into();
        }
        // in one history in four the teardown hook closes the stream itself and lingers 25 ms
        if rng.chance(1, 4) && !case.starts_with('T') { case = format!("L25!{case}"); }
        let r = run(&case);
        out.emit(&case, &r, &class, r.contains(",k|") || r.contains(",k;") || r.contains(",c|"));
    }
    // write-dead connections (kind W): one request whose answer - also a 400 - cannot be written: the teardown hook must see the error
    for (i, first) in [&b"GET /none HTTP/1.1\r\n\r\n"[..], b"GET / HTTP/1.1\r\nbroken header\r\n\r\n", b"POST /all HTTP/1.1\r\nContent-Length: 3\r\n\r\nabc", b"GET /err HTTP/1.1\r\n\r\n", b"G\x01T / HTTP/1.1\r\n\r\n"].iter().enumerate() {
        if !ctx.thorough && i >= 3 && (ctx.seed + i as u64) % 2 == 0 { continue; }
        let w = format!("W:D{};R", hex(first));
        let case = match i % 3 { 0 => w, 1 => format!("P:D{};R/{w}", hex(b"GET /none HTTP/1.1\r\n\r\n")), _ => format!("{w}/P:D{};R", hex(b"GET /none HTTP/1.1\r\n\r\n")) };
        let r = run(&case);
        out.emit(&case, &r, "write-dead", true);
    }
    // bursts: 3..7 connections made at once while the setup hook of the first one lingers; runs of two or three consecutive
    // Drop decisions with proceeding connections behind them (seed C16-g: a Drop ended serve_epoll's accept drain)
    for _ in 0..(if ctx.thorough { 40 } else { 4 }) {
        let nc = rng.range(3, 7) as usize;
        let run_at = rng.below((nc - 2) as u64) as usize;
        let run_len = rng.range(2, 3).min((nc - 1 - run_at) as u64) as usize;
        let r = Req { method: "GET", path: "/none".into(), fields: vec![], body: vec![] };
        let cs: Vec<String> = (0..nc).map(|i| {
            if i >= run_at && i < run_at + run_len { "X:".to_string() + &if rng.chance(1, 2) { exchange(&mut rng, &r, true).join(";") } else { String::new() } }
            else { format!("{}:{}", if rng.chance(1, 6) { "X" } else { "P" }, exchange(&mut rng, &r, true).join(";")) }
        }).collect();
        let case = format!("B!{}", cs.join("/"));
        let res = run(&case);
        out.emit(&case, &res, "burst", true);
    }
    // pipelined requests on one connection (since the repair of F20c): 2..3 requests in one segment or cut in two, the answers
    // read afterwards - in epoll mode a request that was read together with its predecessor is served by the same job
    for _ in 0..(if ctx.thorough { 60 } else { 8 }) {
        let k = rng.range(2, 3) as usize;
        let mut all: Vec<u8> = Vec::new();
        for j in 0..k {
            let blen = rng.range(0, 20) as usize;
            let payload: Vec<u8> = (0..blen).map(|_| b'a' + rng.below(26) as u8).collect();
            let (fields, body) = match rng.below(3) {
                0 => (vec![], vec![]),
                1 => (vec![("Content-Length".to_string(), blen.to_string().into_bytes())], payload.clone()),
                _ => (vec![("Transfer-Encoding".to_string(), b"chunked".to_vec())], crate::s_body::encode_chunked(&mut rng, &payload)),
            };
            let path = match rng.below(4) { 0 => "/none".to_string(), 1 => "/first".to_string(), _ => format!("/all?p={j}") };
            let r = Req { method: if body.is_empty() && fields.is_empty() { "GET" } else { "POST" }, path, fields, body };
            all.extend(r.head()); all.extend(&r.body);
        }
        let mut steps: Vec<String> = if rng.chance(1, 2) { vec![format!("D{}", hex(&all))] } else { let c = rng.range(1, all.len() as u64 - 1) as usize; vec![format!("D{}", hex(&all[..c])), format!("D{}", hex(&all[c..]))] };
        for _ in 0..k { steps.push("R".into()); }
        let case = format!("P:{}", steps.join(";"));
        let r = run(&case);
        out.emit(&case, &r, "pipelined", true);
    }
    // long pipelines: 40..80 small requests in ONE write (they fit the default 4 KiB head buffer): every one is answered by every
    // mode - in epoll mode by one job, since nothing is left in the socket to wake the loop again (round-6 seeds C14-k / C17-k
    // capped the requests per job)
    for _ in 0..(if ctx.thorough { 10 } else { 2 }) {
        let k = rng.range(40, 80) as usize;
        let mut all: Vec<u8> = Vec::new();
        for j in 0..k { all.extend(format!("GET /none?{j} HTTP/1.1\r\n\r\n").as_bytes()); }
        let mut steps: Vec<String> = vec![format!("D{}", hex(&all))];
        for _ in 0..k { steps.push("R".into()); }
        let case = format!("P:{}", steps.join(";"));
        let r = run(&case);
        out.emit(&case, &r, "long-pipeline", true);
    }
    // pipelining against a small head limit (the carry is longer than the limit), on a server with ONE worker; then a second
    // connection, served by the same thread(s), whose head is one byte too long: every pipelined request is answered in every mode,
    // and the second connection gets 431 whatever the first one made the thread hold (round-6 seeds C16-l / C17-l)
    for &n in &[64usize, 256, 1024] {
        for variant in [0usize, 3] {
            let (all, nreq, _t431, _long) = crate::s_connexp::carry_beyond_limit(&mut rng, n, variant);
            let mut steps: Vec<String> = vec![format!("D{}", hex(&all))];
            for _ in 0..nreq { steps.push("R".into()); }
            let mut r = Req { method: "GET", path: "/none".into(), fields: vec![], body: vec![] };
            let base = r.head().len();
            r.fields.insert(0, ("x".into(), vec![b'p'; n + 1 - base - 5]));
            let case = format!("T1!N{n}!P:{}/P:D{};R", steps.join(";"), hex(&r.head()));
            let res = run(&case);
            out.emit(&case, &res, &format!("pipelined-small-limit/N={n}"), true);
        }
    }
    // a close signalled by the response, or by a hook answer, with a further request pipelined behind it in the same segment: the
    // request behind the close is not served, in any mode (round-6 seeds C09-k / C16-k: the epoll job went on with the carry)
    for first in [&b"GET /close HTTP/1.1\r\n\r\n"[..], b"GET /none HTTP/1.1\r\nx-hook: answer-close\r\n\r\n", b"GET /closer HTTP/1.1\r\n\r\n", b"GET /none HTTP/1.1\r\nConnection: close\r\n\r\n"] {
        let mut all = first.to_vec(); all.extend(b"GET /none?behind HTTP/1.1\r\n\r\n");
        let case = format!("P:D{};R;R", hex(&all));
        let r = run(&case);
        out.emit(&case, &r, "pipelined-behind-close", true);
    }
    // a carried prefix that is already malformed but has no blank line yet: 400 at once in every mode (round-6 seed C03-l)
    {
        let mut all = b"GET /none?a HTTP/1.1\r\n\r\n".to_vec(); all.extend(b"GET /b HTTP/1.1\r\nthis header line has no colon\r\n");
        let case = format!("P:D{};R;R", hex(&all));
        let r = run(&case);
        out.emit(&case, &r, "pipelined-malformed-prefix", true);
    }
    // the close-signal histories of `modes09`, once
    close_signal_histories(ctx, &mut rng, &mut out, 1);
    // interim responses: k requests with Expect: 100-continue on one connection (the application model has no interim
    // responses: these histories are compared across the three modes only)
    for k in 1..=(if ctx.thorough { 4 } else { 3 }) {
        let mut steps: Vec<String> = Vec::new();
        for j in 0..k {
            let body = format!("body{j}");
            steps.push(format!("D{}", hex(format!("POST /cont?r={j} HTTP/1.1\r\nExpect: 100-continue\r\nContent-Length: {}\r\n\r\n", body.len()).as_bytes())));
            steps.push("R".into());
            steps.push(format!("D{}", hex(body.as_bytes())));
            steps.push("R".into());
        }
        let case = format!("P:{}", steps.join(";"));
        let r = run(&case);
        out.emit(&case, &r, "expect-continue", true);
    }
    out.finish();
}

/// stream `modes09` (C09 in every serve mode): one connection; a request carrying / provoking a close signal, then probes
pub fn gen09(ctx: &Ctx) {
    let mut rng = Rng::new(ctx.seed, "modes09");
    let mut out = Out::new(&ctx.dir, "modes09");
    close_signal_histories(ctx, &mut rng, &mut out, if ctx.thorough { 8 } else { 1 });
    out.finish();
}

/// the close-signal histories (also appended, once, to the `modes` stream)
fn close_signal_histories(ctx: &Ctx, rng: &mut Rng, out: &mut Out, reps: usize) {
    use crate::s_connexp::{exchange, Req};
    let _ = ctx;
    let mut rng = rng;
    let out = out;
    out.rule = "one connection against serve, serve_threaded and serve_epoll: a first request that signals or provokes a close (request close token; response close token on a plain, streamed or \
                list-valued response; handler Err of kinds WouldBlock / TimedOut / Interrupted / BrokenPipe / Other; respond-then-Err; hook answer with close; malformed head) or none (controls), \
                then one or two further requests that must or must not be answered. non-trivial = all".into();
    let firsts: Vec<(&str, Vec<(String, Vec<u8>)>)> = vec![
        ("/none", vec![]), ("/all", vec![]), ("/close", vec![]), ("/closer", vec![]), ("/closeka", vec![]), ("/err", vec![]), ("/errafter", vec![]),
        ("/errk/wb", vec![]), ("/errk/to", vec![]), ("/errk/intr", vec![]), ("/errk/pipe", vec![]), ("/errk/eof", vec![]), ("/errk/reset", vec![]),
        ("/none", vec![("Connection".into(), b"close".to_vec())]), ("/reader/3000", vec![("connection".into(), b"keep-alive, Close".to_vec())]),
        ("/none", vec![("x-hook".into(), b"answer-close".to_vec())]), ("/none", vec![("x-hook".into(), b"answer".to_vec())]),
    ];
    for _ in 0..reps {
        for (path, fields) in &firsts {
            let r = Req { method: "GET", path: path.to_string(), fields: fields.clone(), body: vec![] };
            let mut steps = exchange(&mut rng, &r, true);
            let probe = Req { method: "GET", path: "/none?probe".into(), fields: vec![], body: vec![] };
            steps.extend(exchange(&mut rng, &probe, true));
            if rng.chance(1, 2) { steps.extend(exchange(&mut rng, &probe, true)); }
            let case = format!("{}:{}", if rng.chance(1, 4) { "C" } else { "P" }, steps.join(";"));
            let res = run(&case);
            out.emit(&case, &res, &format!("first={path}"), true);
        }
        // the same first requests with the probe pipelined behind them in ONE segment (the server has read it together with the
        // first request): after a close signal it is not served, in any mode (round-6 seed C09-k: the epoll job went on with
        // what it had carried over); without one it is
        for (path, fields) in &firsts {
            let r = Req { method: "GET", path: path.to_string(), fields: fields.clone(), body: vec![] };
            let mut all = r.head(); all.extend(b"GET /none?behind HTTP/1.1\r\n\r\n");
            let case = format!("P:D{};R;R", hex(&all));
            let res = run(&case);
            out.emit(&case, &res, &format!("pipelined-behind/first={path}"), true);
        }
    }
}


/// stream `modes03` (C03 in every serve mode): one connection; request heads - valid, malformed, merely incomplete, carried over
/// behind a pipelined predecessor - delivered in one segment, cut in two or in small pieces (with pauses), then a probe
pub fn gen03(ctx: &Ctx) {
    use crate::s_connexp::cut;
    let mut rng = Rng::new(ctx.seed, "modes03");
    let mut out = Out::new(&ctx.dir, "modes03");
    out.rule = "one connection against serve, serve_threaded and serve_epoll: a head that is valid / malformed at its second line / malformed in its request line, alone or carried over behind a complete \
                pipelined request, with and without its blank line, as one segment, cut at a random point, and in pieces of 1..6 bytes with pauses; then a probe. A prefix that is already \
                malformed is answered 400 at once in every mode, whether or not a blank line has arrived; a valid one is answered when complete. non-trivial = all".into();
    let heads: Vec<(&str, &[u8])> = vec![
        ("valid", b"GET /none?v HTTP/1.1\r\nHost: a\r\nx-y: z\r\n\r\n"),
        ("bad-line", b"GET /b HTTP/1.1\r\nthis header line has no colon\r\nHost: a\r\n\r\n"),
        ("bad-line-no-blank", b"GET /b HTTP/1.1\r\nthis header line has no colon\r\n"),
        ("bad-request-line", b"GET /b HTTP/1.1 extra\r\nHost: a\r\n\r\n"),
        ("bad-request-line-no-blank", b"G\x01T /b HTTP/1.1\r\nHost: a\r\n"),
        ("bad-version-no-blank", b"GET /b HTTP/2.7\r\nHost: a\r\n"),
    ];
    for _ in 0..(if ctx.thorough { 6 } else { 1 }) {
        for (label, h) in &heads {
            for carried in [false, true] {
                for style in [0u64, 1, 3] {
                    // (behind a predecessor only as one segment or one cut: a pipelined client does not wait between its writes)
                    if carried && style == 3 { continue; }
                    let mut all: Vec<u8> = if carried { b"POST /all?first HTTP/1.1\r\nContent-Length: 3\r\n\r\nabc".to_vec() } else { vec![] };
                    let start = all.len();
                    all.extend_from_slice(h);
                    let segs: Vec<Vec<u8>> = if carried && style == 1 { let c = rng.range(start as u64 + 1, all.len() as u64 - 1) as usize; vec![all[..c].to_vec(), all[c..].to_vec()] } else { cut(&mut rng, &all, style) };
                    let mut steps: Vec<String> = segs.iter().map(|x| format!("D{}", hex(x))).collect();
                    if carried { steps.push("R".into()); }
                    steps.push("R".into());
                    if *label == "valid" { steps.push(format!("D{}", hex(b"GET /none?probe HTTP/1.1\r\n\r\n"))); steps.push("R".into()); }
                    let case = format!("P:{}", steps.join(";"));
                    let res = run(&case);
                    out.emit(&case, &res, &format!("{label}/{}/style{style}", if carried { "carried" } else { "alone" }), true);
                }
            }
        }
    }
    out.finish();
}

/// stream `modes10` (C10 in every serve mode): one connection; a head of length around the limit N, delivered in two or
/// three segments with a pause between them, then a probe
pub fn gen10(ctx: &Ctx) {
    use crate::s_connexp::{cut, Req};
    let mut rng = Rng::new(ctx.seed, "modes10");
    let mut out = Out::new(&ctx.dir, "modes10");
    out.rule = "one connection against serve, serve_threaded and serve_epoll with max_request_head_size N in {64, 128, 1000}: a head of N-2, N, N+1 or N+40 bytes \
                (padded header) delivered in two or several segments with pauses, or in one; then a probe request. non-trivial = all".into();
    let reps = if ctx.thorough { 6 } else { 1 };
    for _ in 0..reps {
        for n in [64usize, 128, 1000] {
            for l in [n - 2, n, n + 1, n + 40] {
                let mut r = Req { method: "GET", path: "/none".into(), fields: vec![], body: vec![] };
                let base = r.head().len();
                r.fields.insert(0, ("x".into(), vec![b'p'; l - base - 5]));
                for style in [0u64, 1, 1, 3] {
                    if style == 3 && l > 200 { continue; }
                    let mut steps: Vec<String> = cut(&mut rng, &r.head(), style).iter().map(|s| format!("D{}", hex(s))).collect();
                    steps.push("R".into());
                    let probe = Req { method: "GET", path: "/none?probe".into(), fields: vec![], body: vec![] };
                    steps.push(format!("D{}", hex(&probe.head())));
                    steps.push("R".into());
                    let case = format!("N{n}!P:{}", steps.join(";"));
                    let res = run(&case);
                    out.emit(&case, &res, &format!("N={n}/len-N={}", l as i64 - n as i64), true);
                }
            }
        }
    }
    out.finish();
}
