//! C11/C12 stream `router`: route tables (sequences of RouterBuilder::add_route calls) and lookups.
//! case:  `<m>,<pathhex>;...|<m>,<pathhex>;...`   (registrations | queries), handler = registration index
//! impl:  per query `F` (fallback) or `<h>[,<namehex>=<valhex>]*`, joined by `;`
use crate::util::*;
use crate::Ctx;
use khttp::{Method, RouterBuilder};

fn method_of(s: &str) -> Method {
    if let Some(h) = s.strip_prefix('c') {
        return Method::Custom(String::from_utf8(unhex(h)).unwrap());
    }
    match s.parse::<usize>().unwrap() {
        0 => Method::Get,
        1 => Method::Post,
        2 => Method::Head,
        3 => Method::Put,
        4 => Method::Patch,
        5 => Method::Delete,
        6 => Method::Options,
        _ => Method::Trace,
    }
}

fn parse_list(s: &str) -> Vec<(Method, String)> {
    if s.is_empty() {
        return vec![];
    }
    s.split(';')
        .map(|e| {
            let (m, p) = e.split_once(',').unwrap();
            (method_of(m), String::from_utf8(unhex(p)).unwrap())
        })
        .collect()
}

pub fn run(case: &str) -> String {
    crate::util::note_current(case);
    let (regs, qs) = case.split_once('|').unwrap();
    let regs = parse_list(regs);
    let qs = parse_list(qs);
    let r = guarded(move || {
        let mut b: RouterBuilder<usize> = RouterBuilder::new(usize::MAX);
        for (i, (m, p)) in regs.iter().enumerate() {
            b.add_route(m, p, i);
        }
        let router = b.build();
        let mut outs = Vec::new();
        for (m, p) in qs.iter() {
            let mt = router.match_route(m, p);
            if *mt.route == usize::MAX {
                // the fallback must carry no parameters either
                if mt.params.is_empty() { outs.push("F".to_string()) } else { outs.push(format!("F+{}", mt.params.len())) }
            } else {
                let mut s = mt.route.to_string();
                let all: Vec<(&str, &str)> = mt.params.iter().collect();
                for (k, v) in &all {
                    s.push_str(&format!(",{}={}", hex(k.as_bytes()), hex(v.as_bytes())));
                }
                // the by-name accessor agrees with the list: the first entry of exactly that name, nothing for a name that is
                // not bound (case variants of a bound name included), and len() is the length of the list
                let mut bad = mt.params.len() != all.len();
                for (k, _) in &all {
                    let want = all.iter().find(|(k2, _)| k2 == k).map(|(_, v)| *v);
                    if mt.params.get(k) != want { bad = true; }
                    for alt in [k.to_ascii_uppercase(), k.to_ascii_lowercase(), format!("{k}x")] {
                        let want = all.iter().find(|(k2, _)| *k2 == alt.as_str()).map(|(_, v)| *v);
                        if mt.params.get(&alt) != want { bad = true; }
                    }
                }
                if bad { s.push_str(",GET-DISAGREES-WITH-LIST"); }
                outs.push(s);
            }
        }
        outs.join(";")
    });
    r.unwrap_or_else(|_| "PANIC".into())
}

const PSEGS: &[&str] = &["a", "b", ":p", ":q", "*", "**", ""];
const USEGS: &[&str] = &["a", "b", "c", ""];

fn all_seqs(alpha: &[&str], maxlen: usize) -> Vec<String> {
    let mut out = Vec::new();
    let mut cur: Vec<Vec<&str>> = vec![vec![]];
    for _ in 0..maxlen {
        let mut nxt = Vec::new();
        for c in &cur {
            for a in alpha {
                let mut d = c.clone();
                d.push(*a);
                nxt.push(d);
            }
        }
        for s in &nxt {
            out.push(s.join("/"));
        }
        cur = nxt;
    }
    out
}

fn enc(m: &str, p: &str) -> String {
    format!("{},{}", m, hex(p.as_bytes()))
}

pub fn gen(ctx: &Ctx) {
    let mut rng = Rng::new(ctx.seed, "router");
    let mut out = Out::new(&ctx.dir, "router");
    out.rule = "case = (registration sequence, list of lookups). Exhaustive: every single pattern of <=3 segments over {a,b,:p,:q,*,**,''} and every ordered pair \
                (thorough: triple) of patterns of <=2 segments over {a,:p,*,**} (thorough: <=3 / 5 symbols), each looked up with every path of <=3 segments over {a,b,c,''} \
                with and without leading slash; random: tables of 1..40 routes over 9 std/custom methods with shuffled order, re-registrations, late-failing parameterised candidates; path segments and parameter values include '#', '?', ';', '%', ':' '*' and non-ASCII bytes (all ordinary bytes for the router). \
                large literal tables (21..90 all-literal registrations from a pool of 3..24 paths, so with many re-registrations); deep tables (patterns and paths of 12..22 segments with parameters at positions 14..20). \
                non-trivial = at least one lookup selects a non-fallback route".into();
    let paths: Vec<String> = {
        let mut v = Vec::new();
        for p in all_seqs(USEGS, 3) {
            v.push(p.clone());
            v.push(format!("/{p}"));
        }
        v.push(String::new());
        v.push("/".into());
        v.push("//".into());
        v
    };
    let qstr: String = paths.iter().map(|p| enc("0", p)).collect::<Vec<_>>().join(";");
    let emit = |out: &mut Out, regs: &str, qs: &str, class: &str| {
        let case = format!("{regs}|{qs}");
        let r = run(&case);
        let nontrivial = r.split(';').any(|x| x != "F");
        out.emit(&case, &r, class, nontrivial);
    };
    // exhaustive singles
    let singles = all_seqs(PSEGS, 3);
    for p in &singles {
        for lead in ["", "/"] {
            emit(&mut out, &enc("0", &format!("{lead}{p}")), &qstr, "exhaustive-1-pattern");
        }
    }
    // exhaustive pairs / triples over a smaller alphabet
    let small: Vec<String> = if ctx.thorough { all_seqs(&["a", "b", ":p", "*", "**"], 3) } else { all_seqs(&["a", ":p", "*", "**"], 2) };
    for p in &small {
        for q in &small {
            emit(&mut out, &format!("{};{}", enc("0", p), enc("0", q)), &qstr, "exhaustive-2-patterns");
        }
    }
    let tri: Vec<String> = if ctx.thorough { all_seqs(&["a", ":p", "*", "**"], 2) } else { all_seqs(&["a", ":p", "**"], 2) };
    for p in &tri {
        for q in &tri {
            for r in &tri {
                emit(&mut out, &format!("{};{};{}", enc("0", p), enc("0", q), enc("0", r)), &qstr, "exhaustive-3-patterns");
            }
        }
    }
    // random larger tables
    // custom methods also in lower / mixed case: `PURGE`, `Purge` and `purge` are three different methods (seed C11-j keyed the
    // bucket by the upper-cased token at registration only)
    let methods = ["0", "1", "2", "3", "4", "5", "6", "7", "c50555247", "c474554", "c4c494e4b", "c5075726765", "c7075726765", "c6d2d736561726368", "c676574"];
    let words = ["a", "b", "c", "users", "api", "v1", "x", "", "é", ":id", ":name", ":p", "*", "**", "a b", ":", "***", "*a", "c#", "a?b", ":ID", ":Name"];
    let n = if ctx.thorough { 20000 } else { 2500 };
    for _ in 0..n {
        let nr = rng.range(1, 40) as usize;
        let nm = rng.range(1, 3) as usize;
        let mut ms: Vec<&str> = (0..nm).map(|_| *rng.pick(&methods)).collect();
        // one table in eight registers under case variants of one custom method
        if rng.chance(1, 8) { ms = vec!["c50555247", "c5075726765", "c7075726765"]; }
        let mut regs = Vec::new();
        let mut pats: Vec<String> = Vec::new();
        for _ in 0..nr {
            let p = if !pats.is_empty() && rng.chance(1, 6) {
                // re-register an existing shape, possibly with renamed parameters
                let q = rng.pick(&pats).clone();
                if rng.chance(1, 2) { q.replace(":id", ":other").replace(":p", ":renamed") } else { q }
            } else {
                let len = rng.range(1, 5) as usize;
                let mut segs: Vec<&str> = (0..len).map(|_| *rng.pick(&words)).collect();
                // "**" mostly trailing (the class the theorems cover), sometimes in the middle (correspondence only)
                if !rng.chance(1, 10) {
                    for i in 0..segs.len() - 1 { if segs[i] == "**" { segs[i] = "*"; } }
                }
                let lead = if rng.chance(1, 2) { "/" } else { "" };
                format!("{lead}{}", segs.join("/"))
            };
            pats.push(p.clone());
            regs.push(enc(*rng.pick(&ms), &p));
        }
        let mut qs = Vec::new();
        for _ in 0..50 {
            let p = if rng.chance(2, 3) {
                // derive a path from a registered pattern so that candidates match or fail late
                let base = rng.pick(&pats).clone();
                let segs: Vec<String> = base.trim_start_matches('/').split('/').map(|s| {
                    if s.starts_with(':') || s == "*" { rng.pick(&["a", "b", "users", "42", "", "c#", "q?x", "%2F", "a;b=1", ":id", "*", "**", "a b", "é", "#", "?", "a#/b"]).to_string() }
                    else if s == "**" { ["x/y", "z", "", "a/b/c"][rng.below(4) as usize].to_string() }
                    else if rng.chance(1, 8) { "zz".to_string() } else { s.to_string() }
                }).collect();
                let mut p = segs.join("/");
                if rng.chance(1, 6) { p.push('/'); }
                if rng.chance(1, 8) { p.push_str("/extra"); }
                if rng.chance(1, 2) { p.insert(0, '/'); }
                p
            } else {
                let len = rng.range(0, 4) as usize;
                let segs: Vec<&str> = (0..len).map(|_| *rng.pick(&["a", "b", "c", "users", "api", "v1", "", "é", "x", "c#", "a?b", "#", "%23", ":p", "*"])).collect();
                format!("/{}", segs.join("/"))
            };
            let m = if rng.chance(5, 6) { *rng.pick(&ms) } else { *rng.pick(&methods) };
            qs.push(enc(m, &p));
        }
        emit(&mut out, &regs.join(";"), &qs.join(";"), "random-table");
    }
    // large literal tables: 21..90 registrations of all-literal paths in one method bucket, drawn from a small pool so that most
    // paths are registered several times (the sort behind the literal fast path only reorders slices of more than 20 elements;
    // seed C11-g collapsed duplicates after an unstable sort)
    let nbig = if ctx.thorough { 400 } else { 60 };
    for _ in 0..nbig {
        let npool = rng.range(3, 24) as usize;
        let pool: Vec<String> = (0..npool).map(|i| {
            let depth = rng.range(1, 3) as usize;
            let segs: Vec<String> = (0..depth).map(|d| if d == 0 { format!("p{}", i) } else { rng.pick(&["a", "b", "users", "v1", "zz"]).to_string() }).collect();
            format!("{}{}", if rng.chance(1, 2) { "/" } else { "" }, segs.join("/"))
        }).collect();
        let m = *rng.pick(&methods);
        let nr = rng.range(21, 90) as usize;
        let mut regs = Vec::new();
        for _ in 0..nr {
            let p = rng.pick(&pool).clone();
            // the same literal with or without its leading slash is the same route
            let p = if rng.chance(1, 5) { if let Some(q) = p.strip_prefix('/') { q.to_string() } else { format!("/{p}") } } else { p };
            regs.push(enc(m, &p));
        }
        if rng.chance(1, 3) { regs.push(enc(m, "/:any")); }
        let mut qs: Vec<String> = pool.iter().map(|p| enc(m, p)).collect();
        qs.push(enc(m, "/nope"));
        emit(&mut out, &regs.join(";"), &qs.join(";"), "large-literal-table");
    }
    // deep patterns and paths: 12..22 segments, parameters and wildcards at positions 14..20, paths one or several segments
    // longer or shorter than the patterns (seed C12-h split the path into a 16-slot table and kept the unsplit tail in slot 16)
    let ndeep = if ctx.thorough { 600 } else { 80 };
    for _ in 0..ndeep {
        let nr = rng.range(1, 5) as usize;
        let mut regs = Vec::new();
        let mut pats: Vec<Vec<String>> = Vec::new();
        for _ in 0..nr {
            let len = rng.range(12, 22) as usize;
            let segs: Vec<String> = (0..len).map(|i| {
                if i + 1 == len && rng.chance(1, 4) { "**".to_string() }
                else if i >= 13 && rng.chance(1, 2) { format!(":n{}", i) }
                else if i >= 13 && rng.chance(1, 4) { "*".to_string() }
                else if rng.chance(1, 10) { format!(":n{}", i) }
                else { format!("s{}", i % 3) }
            }).collect();
            regs.push(enc("0", &format!("/{}", segs.join("/"))));
            pats.push(segs);
        }
        let mut qs = Vec::new();
        for _ in 0..24 {
            let base = rng.pick(&pats).clone();
            let mut segs: Vec<String> = base.iter().enumerate().map(|(i, s)| {
                if s.starts_with(':') || s == "*" { rng.pick(&["src", "main.rs", "42", "x"]).to_string() }
                else if s == "**" { ["x/y", "z", "", "a/b/c"][rng.below(4) as usize].to_string() }
                else if rng.chance(1, 40) { "zz".to_string() } else { format!("s{}", i % 3) }
            }).collect();
            match rng.below(5) { 0 => { segs.push("main.rs".into()); } 1 => { segs.push("a".into()); segs.push("b".into()); segs.push("c".into()); } 2 => { segs.pop(); } _ => {} }
            qs.push(enc("0", &format!("/{}", segs.join("/"))));
        }
        emit(&mut out, &regs.join(";"), &qs.join(";"), "deep-table");
    }
    out.finish();
}
