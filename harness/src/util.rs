//! Shared helpers: one PRNG, hex, line-aligned case/impl writers with measured statistics.
use std::collections::{BTreeMap, HashSet};
use std::fs::File;
use std::io::{BufWriter, Write};

/// splitmix64-seeded xorshift64*; every random choice of a run derives from one state.
pub struct Rng(pub u64);
impl Rng {
    pub fn new(seed: u64, stream: &str) -> Rng {
        let mut h = seed ^ 0x9E37_79B9_7F4A_7C15;
        for b in stream.bytes() {
            h = (h ^ b as u64).wrapping_mul(0x100_0000_01B3);
        }
        let mut r = Rng(h | 1);
        for _ in 0..4 {
            r.next();
        }
        r
    }
    pub fn next(&mut self) -> u64 {
        let mut x = self.0;
        x ^= x >> 12;
        x ^= x << 25;
        x ^= x >> 27;
        self.0 = x;
        x.wrapping_mul(0x2545_F491_4F6C_DD1D)
    }
    pub fn below(&mut self, n: u64) -> u64 {
        if n == 0 {
            0
        } else {
            self.next() % n
        }
    }
    pub fn range(&mut self, lo: u64, hi_incl: u64) -> u64 {
        lo + self.below(hi_incl - lo + 1)
    }
    pub fn chance(&mut self, num: u64, den: u64) -> bool {
        self.below(den) < num
    }
    pub fn pick<'a, T>(&mut self, xs: &'a [T]) -> &'a T {
        &xs[self.below(xs.len() as u64) as usize]
    }
}

/// A TCP port for a listener that the code under test binds by itself (Server::builder takes an address, not a listener): chosen
/// BELOW the kernel's ephemeral range (32768..60999), along a per-process stride, and free at the moment of the probe - so neither an
/// outgoing connection nor another process's `bind(0)` (a second check running at the same time) can take it between the probe
/// and the server's own bind, which a "bind port 0, read the port, release" probe allows.
pub fn listen_port() -> u16 {
    static NEXT: std::sync::atomic::AtomicU32 = std::sync::atomic::AtomicU32::new(0);
    let pid = std::process::id();
    loop {
        let k = NEXT.fetch_add(1, std::sync::atomic::Ordering::SeqCst);
        let port = 10000 + (pid.wrapping_mul(7919).wrapping_add(k.wrapping_mul(13)) % 22000) as u16;
        if let Ok(l) = std::net::TcpListener::bind(("127.0.0.1", port)) { drop(l); return port; }
    }
}

pub fn hex(b: &[u8]) -> String {
    const H: &[u8; 16] = b"0123456789abcdef";
    let mut s = String::with_capacity(b.len() * 2 + 1);
    if b.is_empty() {
        s.push('-');
    }
    for &x in b {
        s.push(H[(x >> 4) as usize] as char);
        s.push(H[(x & 15) as usize] as char);
    }
    s
}

pub fn unhex(s: &str) -> Vec<u8> {
    if s == "-" {
        return vec![];
    }
    let b = s.as_bytes();
    let v = |c: u8| -> u8 {
        match c {
            b'0'..=b'9' => c - b'0',
            b'a'..=b'f' => c - b'a' + 10,
            b'A'..=b'F' => c - b'A' + 10,
            _ => panic!("bad hex"),
        }
    };
    b.chunks(2).map(|p| v(p[0]) * 16 + v(p[1])).collect()
}

pub fn jstr(s: &str) -> String {
    let mut o = String::with_capacity(s.len() + 2);
    o.push('"');
    for c in s.chars() {
        match c {
            '"' => o.push_str("\\\""),
            '\\' => o.push_str("\\\\"),
            c if (c as u32) < 0x20 || (c as u32) > 0x7e => o.push_str(&format!("\\u{:04x}", c as u32 & 0xffff)),
            c => o.push(c),
        }
    }
    o.push('"');
    o
}

fn fnv(s: &[u8]) -> u64 {
    let mut h: u64 = 0xcbf2_9ce4_8422_2325;
    for &b in s {
        h = (h ^ b as u64).wrapping_mul(0x100_0000_01B3);
    }
    h
}

/// Writes `<dir>/<stream>.cases` and `<dir>/<stream>.impl` (line i of one belongs to line i of the
/// other) and `<dir>/<stream>.stats.json` with measured counts.
pub struct Out {
    stream: String,
    dir: String,
    cases: BufWriter<File>,
    imp: BufWriter<File>,
    pub n: u64,
    seen: HashSet<u64>,
    seen_nontrivial: HashSet<u64>,
    hist: BTreeMap<String, u64>,
    samples: Vec<String>,
    pub rule: String,
}

impl Out {
    pub fn new(dir: &str, stream: &str) -> Out {
        std::fs::create_dir_all(dir).unwrap();
        let c = File::create(format!("{dir}/{stream}.cases")).unwrap();
        let i = File::create(format!("{dir}/{stream}.impl")).unwrap();
        Out {
            stream: stream.to_string(),
            dir: dir.to_string(),
            cases: BufWriter::with_capacity(1 << 20, c),
            imp: BufWriter::with_capacity(1 << 20, i),
            n: 0,
            seen: HashSet::new(),
            seen_nontrivial: HashSet::new(),
            hist: BTreeMap::new(),
            samples: Vec::new(),
            rule: String::new(),
        }
    }
    /// `class` goes into the histogram; `nontrivial` says whether this case counts as non-trivial.
    pub fn emit(&mut self, case: &str, imp: &str, class: &str, nontrivial: bool) {
        debug_assert!(!case.contains('\n') && !imp.contains('\n'));
        writeln!(self.cases, "{case}").unwrap();
        writeln!(self.imp, "{imp}").unwrap();
        self.n += 1;
        let h = fnv(case.as_bytes());
        let fresh = self.seen.insert(h);
        if nontrivial {
            self.seen_nontrivial.insert(h);
        }
        *self.hist.entry(class.to_string()).or_insert(0) += 1;
        if fresh && (self.samples.len() < 3 || (self.samples.len() < 8 && self.n % 997 == 0)) {
            let mut c = case.to_string();
            let mut r = imp.to_string();
            c.truncate(400);
            r.truncate(400);
            self.samples.push(format!("{c} => {r}"));
        }
    }
    pub fn bump(&mut self, class: &str) {
        *self.hist.entry(class.to_string()).or_insert(0) += 1;
    }
    pub fn finish(mut self) {
        self.cases.flush().unwrap();
        self.imp.flush().unwrap();
        let mut s = String::new();
        s.push_str("{\n");
        s.push_str(&format!("  \"stream\": {},\n", jstr(&self.stream)));
        s.push_str(&format!("  \"evaluations\": {},\n", self.n));
        s.push_str(&format!("  \"distinct\": {},\n", self.seen.len()));
        s.push_str(&format!("  \"distinct_nontrivial\": {},\n", self.seen_nontrivial.len()));
        s.push_str(&format!("  \"rule\": {},\n", jstr(&self.rule)));
        s.push_str("  \"histogram\": {");
        let mut first = true;
        for (k, v) in &self.hist {
            if !first {
                s.push_str(", ");
            }
            first = false;
            s.push_str(&format!("{}: {}", jstr(k), v));
        }
        s.push_str("},\n  \"samples\": [");
        let mut first = true;
        for x in &self.samples {
            if !first {
                s.push_str(", ");
            }
            first = false;
            s.push_str(&jstr(x));
        }
        s.push_str("]\n}\n");
        std::fs::write(format!("{}/{}.stats.json", self.dir, self.stream), s).unwrap();
    }
}

/// Run `f` catching panics; Err carries the panic message.
pub fn guarded<T>(f: impl FnOnce() -> T + std::panic::UnwindSafe) -> Result<T, String> {
    std::panic::catch_unwind(f).map_err(|e| {
        if let Some(s) = e.downcast_ref::<&str>() {
            s.to_string()
        } else if let Some(s) = e.downcast_ref::<String>() {
            s.clone()
        } else {
            "panic".to_string()
        }
    })
}

/// A shared-memory marker file `<dir>/<stream>.current`: the case being executed is copied into it
/// (no system call) before the implementation runs, so that if the harness dies of a signal the
/// culprit input is on disk.
pub struct Marker {
    ptr: *mut u8,
    cap: usize,
}
impl Marker {
    pub fn new(dir: &str, stream: &str) -> Marker {
        use std::os::unix::io::AsRawFd;
        let cap = 4 << 20;
        let f = std::fs::OpenOptions::new().read(true).write(true).create(true).truncate(true)
            .open(format!("{dir}/{stream}.current")).unwrap();
        f.set_len(cap as u64).unwrap();
        let ptr = unsafe {
            libc::mmap(std::ptr::null_mut(), cap, libc::PROT_READ | libc::PROT_WRITE, libc::MAP_SHARED, f.as_raw_fd(), 0) as *mut u8
        };
        assert!(ptr as isize != -1);
        Marker { ptr, cap }
    }
    pub fn set(&self, case: &str) {
        let b = case.as_bytes();
        let n = b.len().min(self.cap - 2);
        unsafe {
            std::ptr::copy_nonoverlapping(b.as_ptr(), self.ptr, n);
            *self.ptr.add(n) = b'\n';
            *self.ptr.add(n + 1) = 0;
        }
    }
    pub fn clear(&self) {
        unsafe { *self.ptr = 0; }
    }
}


// ---------------------------------------------------------------- crash attribution
// The case being run is remembered so that, if the implementation brings the process down (SIGSEGV / SIGABRT /
// SIGBUS / SIGILL: double free, use after free, out-of-bounds access under the guard pages), a signal handler
// can write it to `<dir>/<stream>.crash`; vcheck reports that case as the failing input.
use std::sync::atomic::{AtomicI32, AtomicPtr, AtomicUsize, Ordering as CO};
static CUR_PTR: AtomicPtr<u8> = AtomicPtr::new(std::ptr::null_mut());
static CUR_LEN: AtomicUsize = AtomicUsize::new(0);
static CRASH_FD: AtomicI32 = AtomicI32::new(-1);
static CUR_HOLD: std::sync::Mutex<Vec<u8>> = std::sync::Mutex::new(Vec::new());

pub fn note_current(case: &str) {
    if CRASH_FD.load(CO::SeqCst) < 0 { return; }
    let mut h = CUR_HOLD.lock().unwrap_or_else(|e| e.into_inner());
    CUR_LEN.store(0, CO::SeqCst);
    h.clear();
    h.extend_from_slice(case.as_bytes());
    CUR_PTR.store(h.as_mut_ptr(), CO::SeqCst);
    CUR_LEN.store(h.len(), CO::SeqCst);
}

extern "C" fn on_crash(sig: libc::c_int) {
    let fd = CRASH_FD.load(CO::SeqCst);
    let (p, n) = (CUR_PTR.load(CO::SeqCst), CUR_LEN.load(CO::SeqCst));
    unsafe {
        if fd >= 0 && !p.is_null() && n > 0 {
            let mut off = 0usize;
            while off < n { let w = libc::write(fd, p.add(off) as *const libc::c_void, n - off); if w <= 0 { break; } off += w as usize; }
            libc::fsync(fd);
        }
        // default action: die with the signal, so the exit status names it
        libc::signal(sig, libc::SIG_DFL);
        libc::raise(sig);
    }
}

pub fn install_crash_reporter(dir: &str, stream: &str) {
    let path = std::ffi::CString::new(format!("{dir}/{stream}.crash")).unwrap();
    let _ = std::fs::create_dir_all(dir);
    let _ = std::fs::remove_file(format!("{dir}/{stream}.crash"));
    unsafe {
        let fd = libc::open(path.as_ptr(), libc::O_WRONLY | libc::O_CREAT | libc::O_TRUNC, 0o644);
        CRASH_FD.store(fd, CO::SeqCst);
        // an alternate stack, so that a stack overflow can be reported too
        let sz = 1 << 16;
        let stack = libc::mmap(std::ptr::null_mut(), sz, libc::PROT_READ | libc::PROT_WRITE, libc::MAP_PRIVATE | libc::MAP_ANONYMOUS, -1, 0);
        let ss = libc::stack_t { ss_sp: stack, ss_flags: 0, ss_size: sz };
        libc::sigaltstack(&ss, std::ptr::null_mut());
        for sig in [libc::SIGSEGV, libc::SIGABRT, libc::SIGBUS, libc::SIGILL] {
            let mut sa: libc::sigaction = std::mem::zeroed();
            sa.sa_sigaction = on_crash as usize;
            sa.sa_flags = libc::SA_ONSTACK | libc::SA_NODEFER;
            libc::sigaction(sig, &sa, std::ptr::null_mut());
        }
    }
}
