//! C01–C04 streams over Request::parse / Response::parse.
//!  `parse`   case `Q<hex>` (request) | `S<hex>` (response): canonical parse result
//!  `prefix`  case `Q<hex>` | `S<hex>`: verdict of every prefix (I incomplete / R reject / A accept)
//!  `grammar` case = structured head (see gen_grammar) + rendered bytes: canonical parse result
//! Every input is parsed twice inside an mmap'ed region: flush against a trailing PROT_NONE page
//! and directly after a leading one, so that any read outside the slice is a SIGSEGV; the case is
//! recorded in a shared marker file first so that the crash can be attributed.
use crate::util::*;
use crate::Ctx;
use khttp::{Request, Response};

pub struct Guarded {
    base: *mut u8,
    total: usize,
    page: usize,
}
impl Guarded {
    pub fn new(max: usize) -> Guarded {
        unsafe {
            let page = libc::sysconf(libc::_SC_PAGESIZE) as usize;
            let data = (max + page - 1) / page * page + page;
            let total = data + 2 * page;
            let base = libc::mmap(std::ptr::null_mut(), total, libc::PROT_READ | libc::PROT_WRITE,
                                  libc::MAP_PRIVATE | libc::MAP_ANONYMOUS, -1, 0) as *mut u8;
            assert!(base as isize != -1);
            libc::mprotect(base as *mut _, page, libc::PROT_NONE);
            libc::mprotect(base.add(total - page) as *mut _, page, libc::PROT_NONE);
            Guarded { base, total, page }
        }
    }
    /// copy of `input` ending exactly at the trailing guard page
    pub fn at_end(&self, input: &[u8]) -> &[u8] {
        unsafe {
            let end = self.base.add(self.total - self.page);
            let p = end.sub(input.len());
            std::ptr::copy_nonoverlapping(input.as_ptr(), p, input.len());
            std::slice::from_raw_parts(p, input.len())
        }
    }
    /// copy of `input` starting exactly after the leading guard page
    pub fn at_start(&self, input: &[u8]) -> &[u8] {
        unsafe {
            let p = self.base.add(self.page);
            std::ptr::copy_nonoverlapping(input.as_ptr(), p, input.len());
            std::slice::from_raw_parts(p, input.len())
        }
    }
}

fn check_str(tag: &str, s: &str, buf: &[u8], bad: &mut Vec<String>) {
    let b = s.as_bytes();
    if std::str::from_utf8(b).is_err() || !b.is_ascii() {
        bad.push(format!("{tag}:notascii"));
    }
    // "equal to a substring of the input" (by value: the asterisk-form target is a static "*")
    if !b.is_empty() && !buf.windows(b.len()).any(|w| w == b) {
        bad.push(format!("{tag}:not-a-substring"));
    }
}

fn hdrs_str(h: &khttp::Headers) -> String {
    let cl = match h.get_content_length() { Some(n) => n.to_string(), None => "-".into() };
    let fs: Vec<String> = h.iter().map(|(k, v)| format!("{}:{}", hex(k.as_bytes()), hex(v))).collect();
    format!("cl={} ch={} cc={} h=[{}]", cl, h.is_transfer_encoding_chunked() as u8, h.is_connection_close() as u8, fs.join(","))
}

fn opt_hex(o: Option<&str>) -> String {
    match o { Some(s) => hex(s.as_bytes()), None => "none".into() }
}

pub fn request_line(buf: &[u8]) -> String {
    let r = std::panic::catch_unwind(|| {
        match Request::parse(buf) {
            Err(khttp::HttpParsingError::UnexpectedEof) => "INC".to_string(),
            Err(_) => "REJ".to_string(),
            Ok(req) => {
                let mut bad = Vec::new();
                let m = req.method.as_str().to_string();
                // custom methods are owned Strings: only ASCII is checked
                if !m.is_ascii() { bad.push("method:notascii".to_string()); }
                check_str("target", req.uri.as_str(), buf, &mut bad);
                for (k, v) in req.headers.iter() {
                    check_str("name", k.as_ref(), buf, &mut bad);
                    if !v.is_empty() && !buf.windows(v.len()).any(|w| w == v.as_ref()) { bad.push("value:not-a-substring".into()); }
                }
                if req.buf_offset > buf.len() { bad.push("offset:beyond".into()); }
                // accessors: each under its own catch_unwind
                let acc = |f: &dyn Fn() -> String| -> String {
                    std::panic::catch_unwind(std::panic::AssertUnwindSafe(f)).unwrap_or_else(|_| "!".into())
                };
                let uri = &req.uri;
                let path = acc(&|| { let p = uri.path(); hex(p.as_bytes()) });
                let q = acc(&|| opt_hex(uri.query()));
                let sch = acc(&|| opt_hex(uri.scheme()));
                let auth = acc(&|| opt_hex(uri.authority()));
                let pq = acc(&|| hex(uri.path_and_query().as_bytes()));
                let disp = acc(&|| hex(format!("{}", uri).as_bytes()));
                for (t, v) in [("path", &path), ("query", &q), ("scheme", &sch), ("authority", &auth), ("pq", &pq), ("display", &disp)] {
                    if v == "!" { bad.push(format!("{t}:panic")); }
                }
                let mut s = format!("OK m={} t={} v={} {} off={} path={} q={} sch={} auth={} pq={}",
                    hex(m.as_bytes()), hex(req.uri.as_str().as_bytes()), req.http_version, hdrs_str(&req.headers),
                    req.buf_offset, path, q, sch, auth, pq);
                if disp != hex(req.uri.as_str().as_bytes()) { bad.push("display:differs".into()); }
                if !bad.is_empty() { s = format!("BAD[{}] {}", bad.join(","), s); }
                s
            }
        }
    });
    r.unwrap_or_else(|_| "PANIC".into())
}

pub fn response_line(buf: &[u8]) -> String {
    let r = std::panic::catch_unwind(|| {
        match Response::parse(buf) {
            Err(khttp::HttpParsingError::UnexpectedEof) => "INC".to_string(),
            Err(_) => "REJ".to_string(),
            Ok(res) => {
                let mut bad = Vec::new();
                check_str("reason", res.status.reason.as_ref(), buf, &mut bad);
                for (k, _) in res.headers.iter() { check_str("name", k.as_ref(), buf, &mut bad); }
                if res.buf_offset > buf.len() { bad.push("offset:beyond".into()); }
                let mut s = format!("OK v={} code={} reason={} {} off={}", res.http_version, res.status.code,
                    hex(res.status.reason.as_bytes()), hdrs_str(&res.headers), res.buf_offset);
                if !bad.is_empty() { s = format!("BAD[{}] {}", bad.join(","), s); }
                s
            }
        }
    });
    r.unwrap_or_else(|_| "PANIC".into())
}

/// parse in both guarded placements; the two results must agree
fn both(g: &Guarded, is_req: bool, input: &[u8]) -> String {
    let f = |b: &[u8]| if is_req { request_line(b) } else { response_line(b) };
    let a = f(g.at_end(input));
    let b = f(g.at_start(input));
    if a == b { a } else { format!("PLACEMENT-DEPENDENT end=({a}) start=({b})") }
}

pub fn run_parse(case: &str) -> String {
    crate::util::note_current(case);
    let g = Guarded::new(1 << 20);
    let input = unhex(&case[1..]);
    both(&g, case.starts_with('Q'), &input)
}

fn verdicts(g: &Guarded, is_req: bool, input: &[u8]) -> String {
    // one character per prefix length 0..=len; accepted prefixes must all report the same result
    let mut s = String::with_capacity(input.len() + 16);
    let mut first_ok: Option<String> = None;
    let mut unstable = false;
    for n in 0..=input.len() {
        let r = both(g, is_req, &input[..n]);
        let c = if r == "INC" { 'I' } else if r == "REJ" { 'R' } else if r.starts_with("OK ") { 'A' } else { 'X' };
        if c == 'A' {
            match &first_ok { None => first_ok = Some(r), Some(f) => if *f != r { unstable = true } }
        }
        s.push(c);
    }
    if unstable { s.push_str("!changed"); }
    s
}

pub fn run_prefix(case: &str) -> String {
    crate::util::note_current(case);
    let g = Guarded::new(1 << 20);
    let input = unhex(&case[1..]);
    verdicts(&g, case.starts_with('Q'), &input)
}

// ---------------------------------------------------------------------------------------------
// generators
const INTERESTING: &[u8] = &[b'\r', b'\n', b' ', b'\t', 0, b':', b';', b'+', 0x7f, 0x80, 0xff, b'?', b'/', b'*', b'"', 0x0b, 0x0c, b'#', b'%', b'\\', b'{'];
const LENS: &[usize] = &[0, 1, 2, 3, 6, 7, 8, 9, 10, 15, 16, 17, 23, 24, 25, 31, 33, 40];

fn word(rng: &mut Rng, alpha: &[u8], len: usize) -> Vec<u8> {
    (0..len).map(|_| *rng.pick(alpha)).collect()
}

const PCH: &[u8] = b"abcdefghijklmnopqrstuvwxyzABCXYZ0123456789-._~!$&'()*+,;=:@%";
const ACH: &[u8] = b"abcdefghijklmnopqrstuvwxyz0123456789-._~!$&'()*+,;=:@%[]";
const TCH: &[u8] = b"abcdefghijklmnopqrstuvwxyzABCDEFGHIJKLMNOPQRSTUVWXYZ0123456789!#$%&'*+-.^_`|~";

/// a structured, RFC-conforming request head: (structure encoding, rendered bytes)
pub fn gen_head(rng: &mut Rng) -> (String, Vec<u8>) {
    // (extension methods that extend or are cut from a standard one: seed C02-i compared the first four bytes only)
    let methods: [&[u8]; 24] = [b"GET", b"POST", b"HEAD", b"PUT", b"PATCH", b"DELETE", b"OPTIONS", b"TRACE", b"CONNECT", b"PURGE", b"get", b"X",
                                b"POSTS", b"POSTPONE", b"POSTpone", b"GETS", b"GE", b"PUTT", b"HEADS", b"PATC", b"DELETED", b"OPTION", b"TRACES", b"Post"];
    let m: Vec<u8> = if rng.chance(1, 8) { let l = *rng.pick(&[1usize, 2, 7, 8, 9, 20]); word(rng, b"ABCDEFGHIJKLMNOPQRSTUVWXYZabcdefghijklmnopqrstuvwxyz", l) } else { rng.pick(&methods).to_vec() };
    let path = |rng: &mut Rng| -> Vec<u8> {
        let mut p = vec![b'/'];
        let segs = rng.below(4);
        for i in 0..segs { if i > 0 || rng.chance(1, 2) { if p.last() != Some(&b'/') || rng.chance(1, 5) { p.push(b'/'); } } let l = *rng.pick(LENS); p.extend(word(rng, PCH, l)); }
        if rng.chance(1, 4) { p.push(b'/'); }
        p
    };
    let query = |rng: &mut Rng| -> Option<Vec<u8>> {
        if rng.chance(1, 2) { None } else { let l = *rng.pick(LENS); let mut a: Vec<u8> = PCH.to_vec(); a.extend_from_slice(b"/?"); Some(word(rng, &a, l)) }
    };
    let (tenc, tbytes): (String, Vec<u8>) = match rng.below(10) {
        0..=5 => { let p = path(rng); let q = query(rng);
            let mut b = p.clone(); if let Some(q) = &q { b.push(b'?'); b.extend(q); }
            (format!("O,{},{}", hex(&p), q.as_ref().map(|q| hex(q)).unwrap_or("none".into())), b) }
        6 | 7 => { let s = rng.pick(&[&b"http"[..], b"https", b"ws", b"a+b-c.d"]).to_vec();
            let al = *rng.pick(&[1usize, 3, 8, 9, 16, 17]); let a = word(rng, ACH, al);
            let p = if rng.chance(1, 3) { vec![] } else { path(rng) }; let q = query(rng);
            let mut b = s.clone(); b.extend(b"://"); b.extend(&a); b.extend(&p); if let Some(q) = &q { b.push(b'?'); b.extend(q); }
            (format!("A,{},{},{},{}", hex(&s), hex(&a), hex(&p), q.as_ref().map(|q| hex(q)).unwrap_or("none".into())), b) }
        8 => { let al = *rng.pick(&[1usize, 7, 8, 9, 15, 16, 17]); let mut a = word(rng, b"abcdefghijklmnopqrstuvwxyz0123456789-._~!$&'()+,;=:%[]", al);
            if a[0] == b'*' { a[0] = b'a'; } (format!("H,{}", hex(&a)), a) }
        _ => ("S".into(), b"*".to_vec()),
    };
    let minor = rng.chance(3, 4);
    let nf = *rng.pick(&[0usize, 0, 1, 1, 2, 3, 5, 8, 20, 40]);
    let mut fenc = Vec::new();
    let mut fb = Vec::new();
    let mut cl: Option<u64> = None;
    for _ in 0..nf {
        let special = rng.below(10);
        let (name, value): (Vec<u8>, Vec<u8>) = if special == 0 {
            // 1*DIGIT: small values, values up to u64::MAX, and any number of leading zeros (the field may repeat with the same number, spelled differently)
            let n = cl.unwrap_or_else(|| match rng.below(6) { 0 => u64::MAX - rng.below(3), 1 => rng.below(u64::MAX), 2 => 0, _ => rng.below(100000) }); cl = Some(n);
            let zeros = match rng.below(5) { 0 => rng.range(1, 4) as usize, 1 => rng.range(15, 40) as usize, _ => 0 };
            (rng.pick(&[&b"Content-Length"[..], b"content-length", b"CONTENT-LENGTH"]).to_vec(), format!("{}{}{}", "0".repeat(zeros), n, ["", " ", "\t"][rng.below(3) as usize]).into_bytes())
        } else if special == 1 {
            (b"Transfer-Encoding".to_vec(), rng.pick(&[&b"chunked"[..], b"gzip, chunked", b"Chunked ", b"gzip", b"CHUNKED", b"chunked\t", b"gzip ,  ,chunked", b"gzip, ", b",chunked", b"chunked,", b"gzip,\t", b" ,", b",", b"x,  ,  ,y"]).to_vec())
        } else if special == 2 {
            (b"Connection".to_vec(), rng.pick(&[&b"close"[..], b"keep-alive", b"keep-alive, Close ", b"upgrade", b"keep-alive, ", b"close ", b"close\t", b", close", b"keep-alive ,  , close", b",", b" , ", b"a,\t,b", b"CLOSE"]).to_vec())
        } else {
            let nl = *rng.pick(&[1usize, 2, 7, 8, 9, 16]); let vl = *rng.pick(LENS);
            let mut v: Vec<u8> = Vec::new();
            for _ in 0..vl { v.push(match rng.below(20) { 0 => b' ', 1 => b'\t', 2 => 0x80 + rng.below(128) as u8, _ => 0x21 + rng.below(94) as u8 }); }
            while matches!(v.first(), Some(b' ') | Some(b'\t')) { v.remove(0); }
            (word(rng, TCH, nl), v)
        };
        let ows = rng.pick(&[&b""[..], b" ", b" ", b"\t", b"  ", b" \t "]).to_vec();
        fenc.push(format!("{}:{}:{}", hex(&name), hex(&ows), hex(&value)));
        fb.extend(&name); fb.push(b':'); fb.extend(&ows); fb.extend(&value); fb.extend(b"\r\n");
    }
    let mut bytes = m.clone(); bytes.push(b' '); bytes.extend(&tbytes); bytes.extend(b" HTTP/1."); bytes.push(if minor { b'1' } else { b'0' });
    bytes.extend(b"\r\n"); bytes.extend(&fb); bytes.extend(b"\r\n");
    (format!("{} {} {} [{}]", hex(&m), tenc, minor as u8, fenc.join(",")), bytes)
}

fn gen_response(rng: &mut Rng) -> Vec<u8> {
    let mut b = format!("HTTP/1.{} {}", rng.pick(&["1", "1", "0"]), rng.pick(&["200", "204", "404", "100", "999", "000"])).into_bytes();
    b.push(b' ');
    let rl = *rng.pick(LENS);
    for _ in 0..rl { b.push(match rng.below(12) { 0 => b' ', 1 => b'\t', _ => 0x21 + rng.below(94) as u8 }); }
    b.extend(b"\r\n");
    for _ in 0..rng.below(4) {
        let nl = rng.range(1, 9) as usize; let vl = *rng.pick(LENS);
        b.extend(word(rng, TCH, nl)); b.extend(b": "); b.extend(word(rng, PCH, vl)); b.extend(b"\r\n");
    }
    if rng.chance(1, 3) { b.extend(format!("content-length: {}\r\n", rng.below(50)).as_bytes()); }
    b.extend(b"\r\n");
    b
}

pub fn mutate_pub(rng: &mut Rng, v: &mut Vec<u8>) { mutate(rng, v) }
fn mutate(rng: &mut Rng, v: &mut Vec<u8>) {
    let n = rng.range(1, 2);
    for _ in 0..n {
        if v.is_empty() { v.push(*rng.pick(INTERESTING)); continue; }
        let pos = rng.below(v.len() as u64) as usize;
        let b = if rng.chance(3, 4) { *rng.pick(INTERESTING) } else { rng.below(256) as u8 };
        match rng.below(4) {
            0 => v.insert(pos, b),
            1 => { v.remove(pos); }
            2 => v[pos] = b,
            _ => { // swap CRLF for LF or drop CR
                if let Some(i) = v.iter().position(|&c| c == b'\r') { v.remove(i); } else { v[pos] = b; } }
        }
    }
}

fn classify(r: &str) -> &'static str {
    if r.starts_with("OK ") { "accepted" } else if r == "INC" { "incomplete" } else if r == "REJ" { "rejected" } else { "fault" }
}

/// the inputs shared by the `parse` and `prefix` streams
fn inputs(ctx: &Ctx, rng: &mut Rng, scale: usize, mut f: impl FnMut(bool, &[u8], &str)) {
    let n = if ctx.thorough { 30 * scale } else { scale };
    // (i) valid heads with arbitrary trailing bytes
    for _ in 0..n {
        let (_, mut b) = gen_head(rng);
        if rng.chance(1, 2) { let l = rng.below(20) as usize; b.extend(word(rng, b"abc\r\n \x00\xff", l)); }
        f(true, &b, "valid-head");
    }
    // (ii) mutated heads
    for _ in 0..3 * n {
        let (_, mut b) = gen_head(rng);
        mutate(rng, &mut b);
        f(true, &b, "mutated-head");
    }
    // (iii) every byte value at every position of a few short heads (all lane offsets)
    let seeds: Vec<Vec<u8>> = vec![
        b"GET /abcdefghij?klmnopqrstu HTTP/1.1\r\nHost: x\r\n\r\n".to_vec(),
        b"PUT http://example.com:80/p HTTP/1.0\r\nA:b\r\n\r\n".to_vec(),
        b"CONNECT example.com:443 HTTP/1.1\r\n\r\n".to_vec(),
        b"OPTIONS * HTTP/1.1\r\n\r\n".to_vec(),
    ];
    let vals: Vec<u8> = if ctx.thorough { (0..=255u8).collect() } else { let mut v: Vec<u8> = INTERESTING.to_vec(); v.extend([0x1f, 0x20, 0x21, 0x22, 0x7e, 0x81, 0xc3, b'a', b'<', b'>', b'^', b'`', b'|', b'}']); v };
    for s in &seeds {
        for pos in 0..s.len() {
            for &v in &vals {
                let mut b = s.clone(); b[pos] = v;
                f(true, &b, "byte-sweep");
                if ctx.thorough { let mut c = s.clone(); c.insert(pos, v); f(true, &c, "byte-sweep"); }
            }
        }
    }
    // (ii') bytes in front of the request line: empty lines, a lone CR or LF, spaces (seed C04-j swallowed leading CRLF pairs)
    for _ in 0..(n / 20).max(20) {
        let (_, b) = gen_head(rng);
        for pre in [&b"\r\n"[..], b"\r\n\r\n", b"\n", b"\r", b" ", b"\r\n ", b"\n\r\n"] {
            let mut c = pre.to_vec(); c.extend(&b);
            f(true, &c, "bytes-before-request-line");
        }
    }
    // (iii') Content-Length lines that are individually or jointly invalid, in both orders, and long field lines
    for (a, b2) in [("5", "abc"), ("abc", "5"), ("5", ""), ("5", "99999999999999999999999"), ("5", "6"), ("5", "5"), ("5", "+5"), ("5", "5 5"), ("007", "7")] {
        for te in ["", "Transfer-Encoding: chunked\r\n"] {
            let h = format!("POST /x HTTP/1.1\r\n{te}Content-Length: {a}\r\nX: y\r\ncontent-length:{b2}\r\n\r\n");
            f(true, h.as_bytes(), "content-length-pair");
            let h2 = format!("POST /x HTTP/1.1\r\nContent-Length: {a}\r\n{te}content-length:{b2}\r\n\r\n");
            f(true, h2.as_bytes(), "content-length-pair");
        }
    }
    if scale <= 700 {
        // (only in the every-prefix stream: each costs thousands of parses) a field line longer than 2 KiB / 3 KiB
        for vl in [2100usize, 3000] {
            let h = format!("GET /long HTTP/1.1\r\nCookie: {}\r\nHost: x\r\n\r\n", "c".repeat(vl));
            f(true, h.as_bytes(), "long-field-line");
        }
    }
    // (iv) raw random strings
    for _ in 0..n / 2 {
        let l = rng.below(60) as usize;
        let b: Vec<u8> = (0..l).map(|_| if rng.chance(1, 3) { *rng.pick(INTERESTING) } else { rng.below(256) as u8 }).collect();
        f(true, &b, "random");
    }
    // (v) responses: valid, mutated, byte sweep
    for _ in 0..n / 2 { let b = gen_response(rng); f(false, &b, "valid-response"); }
    for _ in 0..n { let mut b = gen_response(rng); mutate(rng, &mut b); f(false, &b, "mutated-response"); }
    let rs = b"HTTP/1.1 200 OK fine\r\nA: b\r\n\r\n".to_vec();
    for pos in 0..rs.len() { for &v in &vals { let mut b = rs.clone(); b[pos] = v; f(false, &b, "response-byte-sweep"); } }
}

pub fn gen_parse(ctx: &Ctx) {
    let mut rng = Rng::new(ctx.seed, "parse");
    let mut out = Out::new(&ctx.dir, "parse");
    out.rule = "request/response heads: grammar-generated valid heads (all four target forms, component lengths around 8-byte SWAR word multiples, 0..40 fields) with \
                arbitrary trailing bytes; 1-2 byte insert/delete/replace mutations with CR LF SP HT NUL : ; + 0x7f 0x80 0xff etc.; every interesting byte value \
                (thorough: all 256, replace and insert) at every position of four seed heads; raw random strings; the same for responses. \
                Each input is parsed flush against a trailing guard page and after a leading one. non-trivial = accepted heads (distinct inputs)".into();
    let g = Guarded::new(1 << 20);
    let marker = Marker::new(&ctx.dir, "parse");
    inputs(ctx, &mut rng, 6000, |is_req, b, class| {
        let case = format!("{}{}", if is_req { 'Q' } else { 'S' }, hex(b));
        marker.set(&case); crate::util::note_current(&case);
        let r = both(&g, is_req, b);
        let cl = classify(&r);
        out.emit(&case, &r, &format!("{class}/{cl}"), cl == "accepted");
    });
    marker.clear();
    out.finish();
}

/// stream `prefixsafe` (C01): the same as `prefix` on more inputs; only "no panic / fault at any prefix length" is checked
pub fn gen_prefixsafe(ctx: &Ctx) { gen_prefix_named(ctx, "prefixsafe", 4000) }
pub fn gen_prefix(ctx: &Ctx) { gen_prefix_named(ctx, "prefix", 700) }
fn gen_prefix_named(ctx: &Ctx, name: &str, scale: usize) {
    let mut rng = Rng::new(ctx.seed, name);
    let mut out = Out::new(&ctx.dir, name);
    out.rule = "the inputs of the parse stream (fewer), each parsed at EVERY prefix length; the result is the vector of verdicts I/R/A plus a flag when two accepting prefixes \
                report different results. non-trivial = the full input is accepted or rejected after at least one incomplete prefix".into();
    let g = Guarded::new(1 << 20);
    let marker = Marker::new(&ctx.dir, name);
    inputs(ctx, &mut rng, if ctx.thorough && scale > 700 { scale / 4 } else { scale }, |is_req, b, class| {
        let case = format!("{}{}", if is_req { 'Q' } else { 'S' }, hex(b));
        marker.set(&case); crate::util::note_current(&case);
        let r = verdicts(&g, is_req, b);
        let nt = r.contains('I') && (r.contains('A') || r.contains('R'));
        let last = r.chars().rev().find(|c| "IRAX".contains(*c)).unwrap_or('?');
        out.emit(&case, &r, &format!("{class}/ends-{last}"), nt);
    });
    marker.clear();
    out.finish();
}

pub fn run_grammar(case: &str) -> String {
    crate::util::note_current(case);
    let bytes = unhex(case.rsplit(' ').next().unwrap());
    let g = Guarded::new(1 << 20);
    both(&g, true, &bytes)
}

pub fn gen_grammar(ctx: &Ctx) {
    let mut rng = Rng::new(ctx.seed, "grammar");
    let mut out = Out::new(&ctx.dir, "grammar");
    out.rule = "structured RFC-conforming request heads (alphabetic method; origin/absolute/authority/asterisk target; 1.0/1.1; 0..40 fields with OWS) rendered to bytes and \
                followed by arbitrary trailing bytes; case = `<method> <target structure> <minor> [<name>:<ows>:<value>,...] <trailing> <bytes>`; non-trivial = all".into();
    let g = Guarded::new(1 << 20);
    let n = if ctx.thorough { 600000 } else { 20000 };
    for _ in 0..n {
        let (enc, mut b) = gen_head(&mut rng);
        let tl = if rng.chance(1, 2) { 0 } else { rng.below(24) as usize };
        let trailing: Vec<u8> = (0..tl).map(|_| if rng.chance(1, 2) { *rng.pick(INTERESTING) } else { rng.below(256) as u8 }).collect();
        b.extend(&trailing);
        let case = format!("{} {} {}", enc, hex(&trailing), hex(&b));
        let r = both(&g, true, &b);
        let tf = enc.split(' ').nth(1).unwrap().chars().next().unwrap();
        out.emit(&case, &r, &format!("target-{tf}/{}", classify(&r)), true);
    }
    // targets whose path / query / authority end beyond offset 2^16 (offsets are usize, not 16-bit quantities)
    for (plen, qlen) in [(65520usize, 0usize), (65531, 10), (65536, 0), (65540, 3), (70000, 70000), (10, 66000)] {
        let path: Vec<u8> = std::iter::once(b'/').chain((0..plen).map(|i| b'a' + (i % 26) as u8)).collect();
        let query: Vec<u8> = (0..qlen).map(|i| b'q' + (i % 3) as u8).collect();
        for abs in [false, true] {
            let mut t = if abs { b"http://host.example".to_vec() } else { vec![] };
            t.extend(&path);
            if qlen > 0 { t.push(b'?'); t.extend(&query); }
            let tenc = if abs { format!("A,{},{},{},{}", hex(b"http"), hex(b"host.example"), hex(&path), if qlen > 0 { hex(&query) } else { "none".into() }) }
                       else { format!("O,{},{}", hex(&path), if qlen > 0 { hex(&query) } else { "none".into() }) };
            let mut b = b"GET ".to_vec(); b.extend(&t); b.extend(b" HTTP/1.1\r\nHost: x\r\n\r\n");
            let enc = format!("{} {} 1 [{}:{}:{}]", hex(b"GET"), tenc, hex(b"Host"), hex(b" "), hex(b"x"));
            let case = format!("{} {} {}", enc, hex(b""), hex(&b));
            let r = both(&g, true, &b);
            out.emit(&case, &r, &format!("huge-target/{}", classify(&r)), true);
        }
    }
    out.finish();
}

// ---------------------------------------------------------------------------------------------
// stream `swar` (C01): the two word-at-a-time scanners called directly (hook `verif::match_*_vectored`), each input placed
// flush against a trailing guard page and right after a leading one.  case = hex bytes; impl = `u=<n> p=<n>`.
fn swar_line(g: &Guarded, input: &[u8]) -> String {
    let f = |b: &[u8]| {
        let r = std::panic::catch_unwind(|| (khttp::verif::match_uri_vectored(b), khttp::verif::match_path_vectored(b)));
        match r { Ok((u, p)) => format!("u={u} p={p}"), Err(_) => "PANIC".to_string() }
    };
    let a = f(g.at_end(input));
    let b = f(g.at_start(input));
    if a == b { a } else { format!("PLACEMENT-DEPENDENT end=({a}) start=({b})") }
}

pub fn run_swar(case: &str) -> String {
    crate::util::note_current(case);
    let g = Guarded::new(1 << 16);
    swar_line(&g, &unhex(if case == "-" { "" } else { case }))
}

pub fn gen_swar(ctx: &Ctx) {
    let mut rng = Rng::new(ctx.seed, "swar");
    let mut out = Out::new(&ctx.dir, "swar");
    out.rule = "match_uri_vectored / match_path_vectored called directly on: strings of visible ASCII of every length 0..40 with one or two bytes replaced, at every position, by each of \
                00 09 0a 0d 1f 20 21 22 3c 3e 3f 5c 5e 7b 7c 7d 7e 7f 80 81 a0 c3 fe ff (thorough: all 256 values, lengths to 72); random strings over mixed alphabets; each placed against guard pages on both sides. non-trivial = a stop byte inside a full 8-byte word".into();
    let g = Guarded::new(1 << 16);
    let marker = Marker::new(&ctx.dir, "swar");
    let interesting: Vec<u8> = if ctx.thorough { (0..=255u8).collect() } else { vec![0x00, 0x09, 0x0a, 0x0d, 0x1f, 0x20, 0x21, 0x22, 0x3c, 0x3e, 0x3f, 0x5c, 0x5e, 0x7b, 0x7c, 0x7d, 0x7e, 0x7f, 0x80, 0x81, 0xa0, 0xc3, 0xfe, 0xff] };
    let maxlen = if ctx.thorough { 72 } else { 40 };
    let mut emit = |out: &mut Out, b: &[u8], class: &str| {
        let case = if b.is_empty() { "-".to_string() } else { hex(b) };
        marker.set(&case); crate::util::note_current(&case);
        let r = swar_line(&g, b);
        // non-trivial: the stop lies inside a full word (not in the scalar tail)
        let nt = r.split(' ').next().and_then(|t| t.strip_prefix("u=")).and_then(|v| v.parse::<usize>().ok()).map(|u| u / 8 * 8 + 8 <= b.len()).unwrap_or(false);
        out.emit(&case, &r, class, nt);
    };
    for len in 0..=maxlen {
        let base: Vec<u8> = (0..len).map(|i| b"abcdefghijklmnopqrstuvwxyz/-._~%0123456789"[(i * 7 + len) % 42]).collect();
        emit(&mut out, &base, "clean");
        for pos in 0..len {
            for &v in &interesting {
                let mut b = base.clone(); b[pos] = v;
                emit(&mut out, &b, "one-byte");
            }
            if !ctx.thorough && len % 3 != 0 { continue; }
            // a second offending byte later in the string (the first one must win)
            let pos2 = pos + 1 + rng.below((len - pos) as u64) as usize;
            if pos2 < len { let mut b = base.clone(); b[pos] = *rng.pick(&interesting); b[pos2] = *rng.pick(&interesting); emit(&mut out, &b, "two-bytes"); }
        }
    }
    let n = if ctx.thorough { 200000 } else { 20000 };
    for _ in 0..n {
        let len = rng.below(48) as usize;
        let style = rng.below(4);
        let b: Vec<u8> = (0..len).map(|_| match style { 0 => rng.below(256) as u8, 1 => 0x21 + rng.below(0x5e) as u8, 2 => if rng.chance(1, 12) { *rng.pick(&interesting) } else { 0x21 + rng.below(0x5e) as u8 }, _ => if rng.chance(1, 2) { 0x7e + rng.below(4) as u8 } else { 0x1e + rng.below(5) as u8 } }).collect();
        emit(&mut out, &b, "random");
    }
    marker.clear();
    out.finish();
}
