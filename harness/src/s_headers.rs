//! C19 stream `headers`: operation sequences on khttp::Headers; after each operation all cached
//! answers and the stored fields are dumped, at the end the lookup getters.
//! case: ops joined by ';' — A<name>,<val> | R<name>,<val> | D<name> | L<n>|L- | T | C   (hex fields)
//! impl: per op `cl=<n|->,ch=<0|1>,cc=<0|1>,n=<count>` joined by ';', then `|[<name>:<val>,...]` (stored fields at the end),
//!       `|g:<name>=<val|none>/[all]`... `|te=[..]|cv=[..]`
use crate::util::*;
use crate::Ctx;
use khttp::Headers;

const PROBE: &[&str] = &["transfer-encoding", "CONNECTION", "x-other", "Content-Length"];

fn dump(h: &Headers) -> String {
    let cl = match h.get_content_length() { Some(n) => n.to_string(), None => "-".into() };
    format!("cl={},ch={},cc={},n={}", cl, h.is_transfer_encoding_chunked() as u8, h.is_connection_close() as u8, h.get_count())
}
fn dump_fields(h: &Headers) -> String {
    let fields: Vec<String> = h.iter().map(|(k, v)| format!("{}:{}", hex(k.as_bytes()), hex(v))).collect();
    format!("[{}]", fields.join(","))
}

pub fn run(case: &str) -> String {
    crate::util::note_current(case);
    let case = case.to_string();
    guarded(move || {
        let mut h = Headers::new();
        let mut outs: Vec<String> = Vec::new();
        // optional constructor prefix: `V<n>` / `S<n>` = the first n operations (all adds) are handed to Headers::from(Vec) /
        // Headers::from(&[(&str, &[u8])]) in one go (their per-step dumps are `~` except the last); `N` = Headers::new_nodate()
        let all_ops: Vec<&str> = case.split(';').filter(|o| !o.is_empty()).collect();
        let mut start = 0;
        let owned: Vec<(String, Vec<u8>)>;
        if let Some(first) = all_ops.first() {
            let k = &first[..1];
            if k == "N" { h = Headers::new_nodate(); start = 1; }
            else if k == "V" || k == "S" {
                // (clamped to the adds that really follow, so that a shrunk case stays meaningful)
                let n: usize = first[1..].parse::<usize>().unwrap_or(0).min(all_ops[1..].iter().take_while(|o| o.starts_with('A')).count());
                owned = all_ops[1..1 + n].iter().map(|op| { let (nm, v) = op[1..].split_once(',').unwrap(); (String::from_utf8(unhex(nm)).unwrap(), unhex(v)) }).collect();
                if k == "V" {
                    let v: Vec<(std::borrow::Cow<str>, std::borrow::Cow<[u8]>)> = owned.iter().map(|(a, b)| (std::borrow::Cow::Owned(a.clone()), std::borrow::Cow::Owned(b.clone()))).collect();
                    h = Headers::from(v);
                } else {
                    let sl: Vec<(&str, &[u8])> = owned.iter().map(|(a, b)| (a.as_str(), b.as_slice())).collect();
                    // (the collection borrows from `owned`, which outlives it: copy into an owned one for the rest of the history)
                    let hs: Headers = Headers::from(&sl[..]);
                    let mut h2 = Headers::new();
                    let _ = &mut h2;
                    outs.extend((1..n).map(|_| "~".to_string()));
                    if n > 0 { outs.push(dump(&hs)); }
                    // continue the history on the borrowed collection itself
                    return finish(hs, &all_ops[1 + n..], outs);
                }
                outs.extend((1..n).map(|_| "~".to_string()));
                if n > 0 { outs.push(dump(&h)); }
                start = 1 + n;
            }
        }
        finish(h, &all_ops[start..], outs)
    }).unwrap_or_else(|_| "PANIC".into())
}

fn finish(mut h: Headers, ops: &[&str], mut outs: Vec<String>) -> String {
    {
        for op in ops {
            if op.is_empty() { continue; }
            let (k, rest) = op.split_at(1);
            match k {
                "A" | "R" => {
                    let (n, v) = rest.split_once(',').unwrap();
                    let name = String::from_utf8(unhex(n)).unwrap();
                    let val = unhex(v);
                    if k == "A" { h.add(name, val) } else { h.replace(name, val) }
                }
                "D" => h.remove(std::str::from_utf8(&unhex(rest)).unwrap()),
                "L" => h.set_content_length(if rest == "-" { None } else { Some(rest.parse().unwrap()) }),
                "T" => h.set_transfer_encoding_chunked(),
                "C" => h.set_connection_close(),
                _ => panic!("bad op"),
            }
            outs.push(dump(&h));
        }
        let mut s = outs.join(";");
        s.push_str(&format!("|{}", dump_fields(&h)));
        for p in PROBE {
            let g = match h.get(p) { Some(v) => hex(v), None => "none".into() };
            let all: Vec<String> = h.get_all(p).map(|(k, v)| format!("{}:{}", hex(k.as_bytes()), hex(v))).collect();
            s.push_str(&format!("|g:{}={}/[{}]", hex(p.as_bytes()), g, all.join(",")));
        }
        let te: Vec<String> = h.get_transfer_encoding().iter().map(|t| hex(t)).collect();
        let cv: Vec<String> = h.get_connection_values().iter().map(|t| hex(t)).collect();
        s.push_str(&format!("|te=[{}]|cv=[{}]", te.join(","), cv.join(",")));
        // the same fields through `for .. in &headers`
        let via_into: Vec<String> = (&h).into_iter().map(|(k, v)| format!("{}:{}", hex(k.as_bytes()), hex(v))).collect();
        if format!("[{}]", via_into.join(",")) != dump_fields(&h) { s.push_str("|INTOITER-DIFFERS"); }
        s
    }
}

fn a(n: &str, v: &[u8]) -> String { format!("A{},{}", hex(n.as_bytes()), hex(v)) }
fn r(n: &str, v: &[u8]) -> String { format!("R{},{}", hex(n.as_bytes()), hex(v)) }
fn d(n: &str) -> String { format!("D{}", hex(n.as_bytes())) }

pub fn alphabet() -> Vec<String> {
    vec![
        a("Transfer-Encoding", b"chunked"), a("transfer-encoding", b"gzip, chunked "), a("TRANSFER-ENCODING", b"gzip"), a("Transfer-Encoding", b"gzip,\tchunked"),
        a("Connection", b"close"), a("connection", b"keep-alive,\tClose "), a("Connection", b"keep-alive"),
        a("Content-Length", b"5"), a("content-length", b" 7\t"), a("Content-Length", b"x"), a("CONTENT-LENGTH", b"\xff"),
        r("Transfer-Encoding", b"identity"), r("Connection", b"CLOSE"), r("content-length", b"9"),
        d("transfer-encoding"), d("CONNECTION"), d("Content-length"),
        "T".into(), "C".into(), "L3".into(), "L-".into(),
        a("X-Other", b"chunked, close"), d("x-other"),
    ]
}

pub fn gen(ctx: &Ctx) {
    let mut rng = Rng::new(ctx.seed, "headers");
    let mut out = Out::new(&ctx.dir, "headers");
    out.rule = "operation sequences over a 23-op alphabet (add/replace/remove with mixed-case names, padded and mixed-case token lists, valid/invalid/non-UTF-8 \
                content-length values, set_*): exhaustive to length 3 (thorough: 4), random sequences of length 5..40 with random token lists; one history in five starts from Headers::from(Vec) / Headers::from(slice) over its leading adds or from new_nodate(), and all single / pairs of alphabet adds go through both bulk constructors; \
                non-trivial = some cached answer (chunked / close / content length) is set at some point of the history".into();
    let al = alphabet();
    let mut emit = |out: &mut Out, case: String, class: &str| {
        let res = run(&case);
        let nt = res.contains("ch=1") || res.contains("cc=1") || res.split(';').any(|x| !x.starts_with("cl=-"));
        out.emit(&case, &res, class, nt);
    };
    let maxlen = if ctx.thorough { 4 } else { 3 };
    let mut cur: Vec<Vec<usize>> = vec![vec![]];
    for _ in 0..maxlen {
        let mut nxt = Vec::new();
        for c in &cur { for i in 0..al.len() { let mut e = c.clone(); e.push(i); nxt.push(e); } }
        for s in &nxt {
            emit(&mut out, s.iter().map(|&i| al[i].clone()).collect::<Vec<_>>().join(";"), "exhaustive");
        }
        cur = nxt;
    }
    let names = ["Transfer-Encoding", "transfer-encoding", "TRANSFER-encoding", "Connection", "connection", "CONNECTION",
                 "Content-Length", "content-length", "X-Other", "x-other", "Host", "Transfer-Encodin", "Connection2"];
    let toks: [&[u8]; 14] = [b"chunked", b"CHUNKED", b"Chunked", b"gzip", b"close", b"Close", b"keep-alive", b"", b"chunkedx", b"xclose",
                             b"chun ked", b"identity", b"upgrade", b"clos\xc3\xa9"];
    let pads: [&[u8]; 6] = [b"", b" ", b"\t", b"  ", b" \t ", b""];
    let cls: [&[u8]; 16] = [b"0", b"5", b" 12", b"12 ", b"+5", b"-1", b"5x", b"", b"18446744073709551615", b"18446744073709551616", b"1 2", b"007",
                            b"000000000000000000042", b"00000000000000000000000000000000000000018446744073709551615", b"000000000000000000000", b"00000000000000000000018446744073709551616"];
    let n = if ctx.thorough { 200000 } else { 20000 };
    for _ in 0..n {
        let len = rng.range(5, 40) as usize;
        let mut ops = Vec::new();
        for _ in 0..len {
            let name = *rng.pick(&names);
            let val: Vec<u8> = if name.eq_ignore_ascii_case("content-length") {
                rng.pick(&cls).to_vec()
            } else {
                let k = rng.range(1, 3);
                let mut v = Vec::new();
                for i in 0..k {
                    if i > 0 { v.push(b','); }
                    v.extend_from_slice(*rng.pick(&pads)); v.extend_from_slice(*rng.pick(&toks)); v.extend_from_slice(*rng.pick(&pads));
                }
                v
            };
            ops.push(match rng.below(10) {
                0..=4 => a(name, &val),
                5 => r(name, &val),
                6 | 7 => d(name),
                8 => ["T", "C", "L-"][rng.below(3) as usize].to_string(),
                _ => format!("L{}", rng.below(1000)),
            });
        }
        // one history in five starts from another constructor: the leading run of adds goes through From<Vec> / From<slice>
        let lead = ops.iter().take_while(|o| o.starts_with('A')).count();
        match rng.below(10) {
            0 if lead > 0 => { let n = rng.range(1, lead as u64); emit(&mut out, format!("V{n};{}", ops.join(";")), "random/from-vec"); }
            1 if lead > 0 => { let n = rng.range(1, lead as u64); emit(&mut out, format!("S{n};{}", ops.join(";")), "random/from-slice"); }
            2 => emit(&mut out, format!("N;{}", ops.join(";")), "random/new-nodate"),
            _ => emit(&mut out, ops.join(";"), "random"),
        }
    }
    // every single and every pair of alphabet adds through the two bulk constructors
    let adds: Vec<&String> = al.iter().filter(|o| o.starts_with('A')).collect();
    for k in ["V", "S"] {
        for x in &adds { emit(&mut out, format!("{k}1;{x}"), "constructor"); for y in &adds { emit(&mut out, format!("{k}2;{x};{y}"), "constructor"); emit(&mut out, format!("{k}1;{x};{y}"), "constructor"); } }
    }
    out.finish();
}
