//! C08 stream `printer`: HttpPrinter entry points with scripted writers (partial writes) and readers
//! (piecewise bodies), under the test clock (date line of second 0).
//! case: `<E|B|R|Q> <code> <reason hex> <d|n> [<op>,...] <piece,piece,..|-> <acc,acc,..|->`
//!       op = `<name hex>:<value hex>` add | `=<name hex>:<value hex>` replace | `-<name hex>` remove | `!L<n>` `!L-` set_content_length | `!T` set chunked
//!       E = write_response_empty, B = write_response_bytes (pieces concatenated), R = write_response (reader),
//!       Q = write_request (method PUT, target /t); d = Headers::new() (date), n = new_nodate()
//! impl: `<hex of all bytes the writer accepted> <ok|err>`
use crate::util::*;
use crate::Ctx;
use khttp::{Headers, HttpPrinter, Method, Status};
use std::io::{IoSlice, Read, Write};

struct W { out: Vec<u8>, acc: Vec<usize>, i: usize }
impl W {
    /// the write call number `i` fails (token `x` in the accept list, stored as usize::MAX)
    fn fails_now(&self) -> bool { self.i < self.acc.len() && self.acc[self.i] == usize::MAX }
    fn next(&mut self, offered: usize) -> usize {
        let n = if self.i < self.acc.len() { self.acc[self.i].min(offered).max(if offered > 0 { 1 } else { 0 }) } else { offered };
        self.i += 1;
        n
    }
}
impl Write for W {
    fn write(&mut self, buf: &[u8]) -> std::io::Result<usize> {
        if self.fails_now() { self.i += 1; return Err(std::io::Error::new(std::io::ErrorKind::BrokenPipe, "scripted write failure")); }
        let n = self.next(buf.len());
        self.out.extend_from_slice(&buf[..n]);
        Ok(n)
    }
    fn write_vectored(&mut self, bufs: &[IoSlice<'_>]) -> std::io::Result<usize> {
        if self.fails_now() { self.i += 1; return Err(std::io::Error::new(std::io::ErrorKind::BrokenPipe, "scripted write failure")); }
        let total: usize = bufs.iter().map(|b| b.len()).sum();
        let mut n = self.next(total);
        let ret = n;
        for b in bufs {
            let k = n.min(b.len());
            self.out.extend_from_slice(&b[..k]);
            n -= k;
        }
        Ok(ret)
    }
    fn flush(&mut self) -> std::io::Result<()> { Ok(()) }
}

struct R { pieces: Vec<Vec<u8>>, i: usize, off: usize }
impl Read for R {
    fn read(&mut self, buf: &mut [u8]) -> std::io::Result<usize> {
        while self.i < self.pieces.len() && self.off >= self.pieces[self.i].len() { self.i += 1; self.off = 0; }
        if self.i >= self.pieces.len() || buf.is_empty() { return Ok(0); }
        let p = &self.pieces[self.i][self.off..];
        let n = p.len().min(buf.len());
        buf[..n].copy_from_slice(&p[..n]);
        self.off += n;
        Ok(n)
    }
}

pub fn run(case: &str) -> String {
    crate::util::note_current(case);
    // `<case> ## <case> ...`: the messages are printed one after the other on ONE thread (what a thread keeps from one message
    // to the next - also from one whose writer failed - must not show in the next)
    let parts: Vec<String> = case.split(" ## ").map(|s| s.to_string()).collect();
    let h = std::thread::spawn(move || { parts.iter().map(|p| run_one(p)).collect::<Vec<_>>().join(" ## ") });
    h.join().unwrap_or_else(|_| "PANIC".into())
}

fn run_one(case: &str) -> String {
    let f: Vec<String> = case.split(' ').map(|s| s.to_string()).collect();
    {
        khttp::verif::set_test_clock(Some(0));
        let code: u16 = f[1].parse().unwrap();
        let reason = String::from_utf8(unhex(&f[2])).unwrap();
        let mut hs = if f[3] == "d" { Headers::new() } else { Headers::new_nodate() };
        let inner = &f[4][1..f[4].len() - 1];
        if !inner.is_empty() {
            // `n:v` add, `=n:v` replace, `-n` remove, `!L<n>` / `!L-` set_content_length, `!T` set_transfer_encoding_chunked
            for e in inner.split(',') {
                let name = |h: &str| String::from_utf8(unhex(h)).unwrap();
                match e.as_bytes()[0] {
                    b'=' => { let (n, v) = e[1..].split_once(':').unwrap(); hs.replace(name(n), unhex(v)); }
                    b'-' => hs.remove(&name(&e[1..])),
                    b'!' => match &e[1..] { "T" => hs.set_transfer_encoding_chunked(), "L-" => hs.set_content_length(None), l => hs.set_content_length(Some(l[1..].parse().unwrap())) },
                    _ => { let (n, v) = e.split_once(':').unwrap(); hs.add(name(n), unhex(v)); }
                }
            }
        }
        let pieces: Vec<Vec<u8>> = if f[5] == "-" { vec![] } else { f[5].split(',').map(unhex).collect() };
        let acc: Vec<usize> = if f[6] == "-" { vec![] } else { f[6].split(',').map(|x| if x == "x" { usize::MAX } else { x.parse().unwrap() }).collect() };
        let mut w = W { out: Vec::new(), acc, i: 0 };
        let status = Status::owned(code, reason);
        let res = match f[0].as_str() {
            "E" => HttpPrinter::write_response_empty(&mut w, &status, &hs),
            "B" => { let body: Vec<u8> = pieces.concat(); HttpPrinter::write_response_bytes(&mut w, &status, &hs, &body) }
            "R" => HttpPrinter::write_response(&mut w, &status, &hs, R { pieces, i: 0, off: 0 }),
            _ => HttpPrinter::write_request(&mut w, &Method::Put, "/t", &hs, R { pieces, i: 0, off: 0 }),
        };
        khttp::verif::set_test_clock(None);
        format!("{} {}", if w.out.is_empty() { "-".to_string() } else { hex(&w.out) }, if res.is_ok() { "ok" } else { "err" })
    }
}

pub fn gen(ctx: &Ctx) {
    let mut rng = Rng::new(ctx.seed, "printer");
    let mut hist_no: u64 = ctx.seed;
    let mut out = Out::new(&ctx.dir, "printer");
    out.rule = "the four response entry points and write_request: status 100..999 with CR/LF-free reasons (incl. 200 with a custom reason), 0..4 user headers, one case in four with a header history (framing declared, then removed / replaced / reset; chunked declared twice or in other spellings; a user-supplied Transfer-Encoding other than chunked, alone, with chunked, replaced or removed), \
                {nothing, content-length, transfer-encoding: chunked} declared, body lengths dense around 0, 2047/2048/2049, 8191/8192/8193 (thorough: 131071..131073, 300000), \
                reader piece sizes {1-byte, small, 1000, 4096, whole}, writer acceptance patterns (every short count of the first write for small heads; random short writes), date on/off; declared lengths below / above what the reader delivers around the 8 KiB limit; chunk-size boundaries 15/16, 255/256, 4095/4096, 65535..65537, 131071..131073, 140000 as single chunks. \
                non-trivial = a non-empty body".into();
    let lens: Vec<usize> = if ctx.thorough { vec![0, 1, 2, 100, 2047, 2048, 2049, 5000, 8191, 8192, 8193, 9000, 20000, 131071, 131072, 131073, 300000] }
                           else { vec![0, 1, 2, 100, 2047, 2048, 2049, 5000, 8191, 8192, 8193, 9000, 20000] };
    let reasons = ["OK", "Fine", "", "Not Found", "I'm a teapot", "weird  reason\ttab"];
    let n = if ctx.thorough { 40 } else { 6 };
    for round in 0..n {
        for &len in &lens {
            for ep in ["E", "B", "R", "Q"] {
                if ep == "E" && len != 0 { continue; }
                if len > 20000 && round > 1 { continue; }
                let code = *rng.pick(&[200u32, 200, 201, 404, 100, 999, 500, 301]);
                let reason = *rng.pick(&reasons);
                let body: Vec<u8> = (0..len).map(|i| match rng.below(16) { 0 => b'\r', 1 => b'\n', _ => b'a' + (i % 26) as u8 }).collect();
                let mut fields: Vec<String> = Vec::new();
                for _ in 0..rng.below(4) {
                    let name = *rng.pick(&["x-a", "Content-Type", "server", "X-Long-Header-Name"]);
                    let val = *rng.pick(&["v", "text/plain; charset=utf-8", "", "a b\tc", "1, 2, 3"]);
                    fields.push(format!("{}:{}", hex(name.as_bytes()), hex(val.as_bytes())));
                }
                // one case in three builds its header set through a history: framing fields declared and then withdrawn or replaced
                if rng.chance(1, 3) {
                    let wrong = len + 1 + rng.below(40) as usize;
                    let cl = |n: usize| format!("{}:{}", hex(b"content-length"), hex(n.to_string().as_bytes()));
                    let te = |v: &[u8]| format!("{}:{}", hex(b"Transfer-Encoding"), hex(v));
                    // (the 15 kinds of history in turn, so that every one occurs with every entry point in every run)
                    hist_no += 1;
                    let hist: Vec<String> = match (hist_no + rng.below(2) * 15) % 15 {
                        // chunked declared more than once / in another spelling: still exactly one framing field (F36)
                        8 => vec!["!T".into(), "!T".into()],
                        9 => vec![te(b"chunked"), "!T".into()],
                        10 => vec![te([&b"\tchunked"[..], b" chunked", b"chunked\t", b"Chunked", b"CHUNKED", b" \t chunked \t"][(hist_no / 15 % 6) as usize])],
                        // a user-supplied transfer coding that is not exactly one `chunked` (known finding F37)
                        11 => vec![te([&b"gzip,\tchunked"[..], b"gzip, chunked", b"gzip", b"chunked, gzip", b"gzip ,chunked\t", b"identity"][(hist_no / 15 % 6) as usize])],
                        12 => vec![te(b"gzip"), if rng.chance(1, 2) { te(b"chunked") } else { "!T".into() }],
                        13 => vec![te(b"gzip"), format!("={}:{}", hex(b"transfer-encoding"), hex(b"chunked"))],
                        14 => vec![te(b"gzip"), format!("-{}", hex(b"TRANSFER-ENCODING"))],
                        0 => vec![cl(wrong), format!("-{}", hex(b"Content-Length"))],
                        1 => vec![cl(wrong), format!("={}:{}", hex(b"content-length"), hex(len.to_string().as_bytes()))],
                        2 => vec![format!("!L{wrong}"), "!L-".into()],
                        3 => vec![format!("!L{wrong}"), format!("!L{len}")],
                        4 => vec!["!T".into(), format!("-{}", hex(b"transfer-encoding"))],
                        5 => vec![format!("{}:{}", hex(b"Transfer-Encoding"), hex(b"chunked")), format!("={}:{}", hex(b"transfer-encoding"), hex(b"chunked"))],
                        6 => vec![cl(wrong), format!("-{}", hex(b"content-length")), "!T".into()],
                        _ => vec![format!("{}:{}", hex(b"x-a"), hex(b"1")), format!("-{}", hex(b"X-A")), format!("={}:{}", hex(b"server"), hex(b"s"))],
                    };
                    fields.extend(hist);
                }
                let decl = if fields.iter().any(|f| f.starts_with('!') || f.starts_with('-') || f.starts_with('=')) { 0 } else { rng.below(4) };
                match decl {
                    1 => fields.push(format!("{}:{}", hex(b"Content-Length"), hex(len.to_string().as_bytes()))),
                    2 => fields.push(format!("{}:{}", hex(b"transfer-encoding"), hex(b"chunked"))),
                    3 if ep != "B" && ep != "E" && rng.chance(1, 3) && len > 0 => {
                        // declared length differs from what the reader delivers
                        let d = if rng.chance(1, 2) { len - 1 - rng.below(len.min(50) as u64) as usize } else { len + 1 + rng.below(50) as usize };
                        fields.push(format!("{}:{}", hex(b"content-length"), hex(d.to_string().as_bytes())));
                    }
                    _ => {}
                }
                let pieces: Vec<String> = if body.is_empty() { vec![] } else {
                    let ps = match rng.below(5) { 0 if len <= 300 => 1, 1 => 7, 2 => 1000, 3 => 4096, _ => len };
                    body.chunks(ps.max(1)).map(|c| hex(c)).collect()
                };
                let acc: Vec<String> = match rng.below(4) {
                    0 => vec![],
                    1 => vec![rng.below(400).to_string()],
                    2 => (0..rng.range(1, 6)).map(|_| rng.range(1, 3000).to_string()).collect(),
                    _ => (0..30).map(|_| rng.range(1, 9).to_string()).collect(),
                };
                let case = format!("{} {} {} {} [{}] {} {}", ep, code, hex(reason.as_bytes()), if rng.chance(1, 2) { "d" } else { "n" },
                    fields.join(","), if pieces.is_empty() { "-".to_string() } else { pieces.join(",") }, if acc.is_empty() { "-".to_string() } else { acc.join(",") });
                let r = run(&case);
                out.emit(&case, &r, &format!("{ep}/decl{decl}/len{}", if len < 2048 { "<2k" } else if len <= 8192 { "<=8k" } else { ">8k" }), len > 0);
            }
        }
    }
    // histories on one thread: a message whose writer fails (at its first, second or third write call), then a second message,
    // through every pair of entry points (seeds C08-i / C10-i kept an undeliverable head in a per-thread buffer)
    for a in ["E", "B", "R", "Q"] {
        for b in ["E", "B", "R"] {
            for fail_at in [0usize, 1, 2] {
                let acc_a: Vec<String> = (0..fail_at).map(|_| "3".to_string()).chain(std::iter::once("x".to_string())).collect();
                let body_a = if a == "E" { "-".to_string() } else { hex(b"first message body") };
                let body_b = if b == "E" { "-".to_string() } else { hex(b"second") };
                let first = format!("{a} 200 {} n [{}:{}] {} {}", hex(b"OK"), hex(b"x-kind"), hex(b"big"), body_a, acc_a.join(","));
                let second = format!("{b} 404 {} n [] {} -", hex(b"NOT FOUND"), body_b);
                let case = format!("{first} ## {second}");
                let r = run(&case);
                out.emit(&case, &r, "after-failed-write", true);
            }
        }
    }
    // every short count of the first (vectored) write at the inline-copy boundary
    for len in [2048usize, 2049] {
        let body: Vec<u8> = (0..len).map(|i| b'a' + (i % 26) as u8).collect();
        for a in 0..120 {
            let case = format!("B 200 {} n [] {} {}", hex(b"OK"), hex(&body), a);
            let r = run(&case);
            out.emit(&case, &r, "B/first-write-sweep", true);
        }
    }
    // the no-body entry point with a length declared in the header set (the message must still be self-delimiting: no body follows)
    for d in [1usize, 11, 5000] {
        for hist in [format!("{}:{}", hex(b"content-length"), hex(d.to_string().as_bytes())), format!("!L{d}")] {
            let case = format!("E 304 {} n [{}] - -", hex(b"Not Modified"), hist);
            let r = run(&case);
            out.emit(&case, &r, "empty-with-declared-length", true);
        }
    }
    // a declared Content-Length that differs from what the reader delivers, on both sides of the 8 KiB probe limit:
    // never more than the declared number of body bytes on the wire; a reader that ends early is an error above the limit
    for len in [100usize, 8192, 8193, 9000, 20000, 70000] {
        let body: Vec<u8> = (0..len).map(|i| b'a' + (i % 26) as u8).collect();
        let mut ds: Vec<usize> = vec![len - 1, len + 1, len / 2];
        if len > 8200 { ds.extend([8192, 8193, len - 100]); }
        for d in ds {
            for ep in ["R", "Q"] {
                for ps in [len, 4096, 1000] {
                    let pieces: Vec<String> = body.chunks(ps).map(hex).collect();
                    let case = format!("{ep} 200 {} n [{}:{}] {} -", hex(b"OK"), hex(b"content-length"), hex(d.to_string().as_bytes()), pieces.join(","));
                    let r = run(&case);
                    out.emit(&case, &r, if d < len { "declared-short-of-reader" } else { "declared-beyond-reader" }, true);
                }
            }
        }
    }
    // chunk-size lines at every hex-digit boundary and around the 128 KiB chunk buffer: one chunk of exactly that size
    // (declared chunked: whole body in one piece; B: the body slice is one chunk), and the auto-detected path
    for len in [15usize, 16, 255, 256, 4095, 4096, 65535, 65536, 65537, 131071, 131072, 131073, 140000] {
        let body: Vec<u8> = (0..len).map(|i| b'a' + (i % 26) as u8).collect();
        let te = format!("{}:{}", hex(b"transfer-encoding"), hex(b"chunked"));
        for ep in ["B", "R", "Q"] {
            let case = format!("{ep} 200 {} n [{te}] {} -", hex(b"OK"), hex(&body));
            let r = run(&case);
            out.emit(&case, &r, "chunk-size-boundary", true);
        }
        let case = format!("R 200 {} n [] {} -", hex(b"OK"), hex(&body));
        let r = run(&case);
        out.emit(&case, &r, "chunk-size-boundary/auto", true);
    }
    out.finish();
}
