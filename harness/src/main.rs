//! kvh — correspondence harness for khttp.  `kvh <stream> <seed> <tier> <outdir>` runs the
//! implementation in /repo on generated cases and writes line-aligned `<stream>.cases` /
//! `<stream>.impl` files plus `<stream>.stats.json`.  `kvh replay <stream> <case>` runs one case.
mod s_body;
mod s_conn;
mod s_connexp;
mod s_date;
mod s_epoll;
mod s_headers;
mod s_memory;
mod s_modes;
mod s_parse;
mod s_pool;
mod s_printer;
mod s_router;
mod util;

// counting global allocator (C20): live bytes, peak live bytes, number of allocations
use std::alloc::{GlobalAlloc, Layout, System};
use std::sync::atomic::{AtomicUsize, Ordering as AO};
pub static LIVE: AtomicUsize = AtomicUsize::new(0);
pub static PEAK: AtomicUsize = AtomicUsize::new(0);
pub static ALLOC_COUNT: AtomicUsize = AtomicUsize::new(0);
/// allocations / deallocations with alignment exactly 64: serve_epoll's per-connection records (C15); never muted
pub static A64_ALLOCS: AtomicUsize = AtomicUsize::new(0);
pub static A64_FREES: AtomicUsize = AtomicUsize::new(0);
thread_local! {
    /// allocations of a muted thread (the harness's own client side of an end-to-end measurement) are not counted
    pub static MUTED: std::cell::Cell<bool> = const { std::cell::Cell::new(false) };
}
fn muted() -> bool { MUTED.try_with(|m| m.get()).unwrap_or(true) }
struct Counting;
unsafe impl GlobalAlloc for Counting {
    unsafe fn alloc(&self, l: Layout) -> *mut u8 {
        let p = System.alloc(l);
        if l.align() == 64 && !p.is_null() { A64_ALLOCS.fetch_add(1, AO::SeqCst); }
        if !p.is_null() && !muted() {
            let live = LIVE.fetch_add(l.size(), AO::SeqCst) + l.size();
            PEAK.fetch_max(live, AO::SeqCst);
            ALLOC_COUNT.fetch_add(1, AO::Relaxed);
        }
        p
    }
    unsafe fn dealloc(&self, p: *mut u8, l: Layout) {
        if l.align() == 64 { A64_FREES.fetch_add(1, AO::SeqCst); }
        System.dealloc(p, l);
        if !muted() { LIVE.fetch_sub(l.size(), AO::SeqCst); }
    }
    unsafe fn realloc(&self, p: *mut u8, l: Layout, new: usize) -> *mut u8 {
        let q = System.realloc(p, l, new);
        if !q.is_null() && !muted() {
            if new >= l.size() {
                let live = LIVE.fetch_add(new - l.size(), AO::SeqCst) + (new - l.size());
                PEAK.fetch_max(live, AO::SeqCst);
            } else {
                LIVE.fetch_sub(l.size() - new, AO::SeqCst);
            }
            ALLOC_COUNT.fetch_add(1, AO::Relaxed);
        }
        q
    }
}
#[global_allocator]
static GLOBAL: Counting = Counting;

pub struct Ctx {
    pub seed: u64,
    pub thorough: bool,
    pub dir: String,
}

fn main() {
    let a: Vec<String> = std::env::args().collect();
    if a.len() >= 4 && a[1] == "replay" {
        // silence panic messages of guarded runs
        std::panic::set_hook(Box::new(|_| {}));
        let r = match a[2].as_str() {
            "date" => s_date::run_date(&a[3]),
            "datecache" => s_date::run_cache(&a[3]),
            "dateresp" => s_date::run_resp(&a[3]),
            "dateclock" => s_date::run_clock(&a[3]),
            "router" => s_router::run(&a[3]),
            "headers" => s_headers::run(&a[3]),
            "parse" => s_parse::run_parse(&a[3]),
            "body" => s_body::run(&a[3]),
            "memory" => s_memory::run(&a[3]),
            "epoll" => s_epoll::run(&a[3]),
            "modes" | "modes09" | "modes10" | "modes03" => s_modes::run(&a[3]),
            "pool" => s_pool::run(&a[3]),
            "poolsrv" => s_pool::run_srv(&a[3]),
            "printer" => s_printer::run(&a[3]),
            "conn" => s_conn::run(&a[3]),
            "readloop" => s_conn::run_readloop(&a[3]),
            "segpair" | "connpipe" => s_connexp::run_segpair(&a[3]),
            "conn05" | "conn07" | "conn09" | "conn10" => s_conn::run(&a[3]),
            "clientread" => s_conn::run_clientread(&a[3]),
            "prefix" | "prefixsafe" => s_parse::run_prefix(&a[3]),
            "swar" => s_parse::run_swar(&a[3]),
            "grammar" => s_parse::run_grammar(&a[3]),
            s => panic!("unknown stream {s}"),
        };
        println!("{r}");
        return;
    }
    if a.len() < 5 {
        eprintln!("usage: kvh <stream> <seed> <quick|thorough> <outdir> | kvh replay <stream> <case>");
        std::process::exit(2);
    }
    assert!(cfg!(target_endian = "little") && cfg!(target_pointer_width = "64"));
    std::panic::set_hook(Box::new(|_| {}));
    let ctx = Ctx { seed: a[2].parse().expect("seed"), thorough: a[3] == "thorough", dir: a[4].clone() };
    util::install_crash_reporter(&ctx.dir, &a[1]);
    match a[1].as_str() {
        "date" => s_date::gen_date(&ctx),
        "datecache" => s_date::gen_cache(&ctx),
        "dateresp" => s_date::gen_resp(&ctx),
        "dateclock" => s_date::gen_clock(&ctx),
        "router" => s_router::gen(&ctx),
        "headers" => s_headers::gen(&ctx),
        "parse" => s_parse::gen_parse(&ctx),
        "body" => s_body::gen(&ctx),
        "memory" => s_memory::gen(&ctx),
        "epoll" => s_epoll::gen(&ctx),
        "modes" => s_modes::gen(&ctx),
        "modes09" => s_modes::gen09(&ctx),
        "modes03" => s_modes::gen03(&ctx),
        "modes10" => s_modes::gen10(&ctx),
        "pool" => s_pool::gen(&ctx),
        "poolsrv" => s_pool::gen_srv(&ctx),
        "printer" => s_printer::gen(&ctx),
        "readloop" => s_conn::gen_readloop(&ctx),
        "segpair" => s_connexp::gen_segpair(&ctx),
        "connpipe" => s_connexp::gen_pipe(&ctx),
        "conn05" => s_connexp::gen05(&ctx),
        "conn07" => s_connexp::gen07(&ctx),
        "conn09" => s_connexp::gen09(&ctx),
        "conn10" => s_connexp::gen10(&ctx),
        "clientread" => s_conn::gen_clientread(&ctx),
        "prefix" => s_parse::gen_prefix(&ctx),
        "prefixsafe" => s_parse::gen_prefixsafe(&ctx),
        "swar" => s_parse::gen_swar(&ctx),
        "grammar" => s_parse::gen_grammar(&ctx),
        s => panic!("unknown stream {s}"),
    }
}
