//! kvh — correspondence harness for khttp.  `kvh <stream> <seed> <tier> <outdir>` runs the
//! implementation in /repo on generated cases and writes line-aligned `<stream>.cases` /
//! `<stream>.impl` files plus `<stream>.stats.json`.  `kvh replay <stream> <case>` runs one case.
mod s_body;
mod s_conn;
mod s_connexp;
mod s_date;
mod s_epoll;
mod s_headers;
mod s_modes;
mod s_parse;
mod s_pool;
mod s_printer;
mod s_router;
mod util;

pub struct Ctx {
    pub seed: u64,
    pub thorough: bool,
    pub dir: String,
}

fn main() {
    let a: Vec<String> = std::env::args().collect();
    if a.len() >= 4 && a[1] == "replay" {
        // silence panic messages of guarded runs
        std::panic::set_hook(Box::new(|_| {}));
        let r = match a[2].as_str() {
            "date" => s_date::run_date(&a[3]),
            "datecache" => s_date::run_cache(&a[3]),
            "router" => s_router::run(&a[3]),
            "headers" => s_headers::run(&a[3]),
            "parse" => s_parse::run_parse(&a[3]),
            "body" => s_body::run(&a[3]),
            "epoll" => s_epoll::run(&a[3]),
            "modes" => s_modes::run(&a[3]),
            "pool" => s_pool::run(&a[3]),
            "printer" => s_printer::run(&a[3]),
            "conn" => s_conn::run(&a[3]),
            "readloop" => s_conn::run_readloop(&a[3]),
            "conn05" | "conn07" | "conn09" | "conn10" => s_conn::run(&a[3]),
            "clientread" => s_conn::run_clientread(&a[3]),
            "prefix" => s_parse::run_prefix(&a[3]),
            "grammar" => s_parse::run_grammar(&a[3]),
            s => panic!("unknown stream {s}"),
        };
        println!("{r}");
        return;
    }
    if a.len() < 5 {
        eprintln!("usage: kvh <stream> <seed> <quick|thorough> <outdir> | kvh replay <stream> <case>");
        std::process::exit(2);
    }
    assert!(cfg!(target_endian = "little") && cfg!(target_pointer_width = "64"));
    std::panic::set_hook(Box::new(|_| {}));
    let ctx = Ctx { seed: a[2].parse().expect("seed"), thorough: a[3] == "thorough", dir: a[4].clone() };
    match a[1].as_str() {
        "date" => s_date::gen_date(&ctx),
        "datecache" => s_date::gen_cache(&ctx),
        "router" => s_router::gen(&ctx),
        "headers" => s_headers::gen(&ctx),
        "parse" => s_parse::gen_parse(&ctx),
        "body" => s_body::gen(&ctx),
        "epoll" => s_epoll::gen(&ctx),
        "modes" => s_modes::gen(&ctx),
        "pool" => s_pool::gen(&ctx),
        "printer" => s_printer::gen(&ctx),
        "readloop" => s_conn::gen_readloop(&ctx),
        "conn05" => s_connexp::gen05(&ctx),
        "conn07" => s_connexp::gen07(&ctx),
        "conn09" => s_connexp::gen09(&ctx),
        "conn10" => s_connexp::gen10(&ctx),
        "clientread" => s_conn::gen_clientread(&ctx),
        "prefix" => s_parse::gen_prefix(&ctx),
        "grammar" => s_parse::gen_grammar(&ctx),
        s => panic!("unknown stream {s}"),
    }
}
