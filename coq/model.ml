
(** val negb : bool -> bool **)

let negb = function
| true -> false
| false -> true

type nat =
| O
| S of nat

(** val option_map : ('a1 -> 'a2) -> 'a1 option -> 'a2 option **)

let option_map f = function
| Some a -> Some (f a)
| None -> None

type ('a, 'b) sum =
| Inl of 'a
| Inr of 'b

(** val fst : ('a1 * 'a2) -> 'a1 **)

let fst = function
| (x, _) -> x

(** val snd : ('a1 * 'a2) -> 'a2 **)

let snd = function
| (_, y) -> y

(** val length : 'a1 list -> nat **)

let rec length = function
| [] -> O
| _ :: l' -> S (length l')

(** val app : 'a1 list -> 'a1 list -> 'a1 list **)

let rec app l m =
  match l with
  | [] -> m
  | a :: l1 -> a :: (app l1 m)

type comparison =
| Eq
| Lt
| Gt

(** val compOpp : comparison -> comparison **)

let compOpp = function
| Eq -> Eq
| Lt -> Gt
| Gt -> Lt

module Coq__1 = struct
 (** val add : nat -> nat -> nat **)
 let rec add n0 m =
   match n0 with
   | O -> m
   | S p -> S (add p m)
end
include Coq__1

(** val mul : nat -> nat -> nat **)

let rec mul n0 m =
  match n0 with
  | O -> O
  | S p -> add m (mul p m)

(** val sub : nat -> nat -> nat **)

let rec sub n0 m =
  match n0 with
  | O -> n0
  | S k -> (match m with
            | O -> n0
            | S l -> sub k l)

type byte =
| X00
| X01
| X02
| X03
| X04
| X05
| X06
| X07
| X08
| X09
| X0a
| X0b
| X0c
| X0d
| X0e
| X0f
| X10
| X11
| X12
| X13
| X14
| X15
| X16
| X17
| X18
| X19
| X1a
| X1b
| X1c
| X1d
| X1e
| X1f
| X20
| X21
| X22
| X23
| X24
| X25
| X26
| X27
| X28
| X29
| X2a
| X2b
| X2c
| X2d
| X2e
| X2f
| X30
| X31
| X32
| X33
| X34
| X35
| X36
| X37
| X38
| X39
| X3a
| X3b
| X3c
| X3d
| X3e
| X3f
| X40
| X41
| X42
| X43
| X44
| X45
| X46
| X47
| X48
| X49
| X4a
| X4b
| X4c
| X4d
| X4e
| X4f
| X50
| X51
| X52
| X53
| X54
| X55
| X56
| X57
| X58
| X59
| X5a
| X5b
| X5c
| X5d
| X5e
| X5f
| X60
| X61
| X62
| X63
| X64
| X65
| X66
| X67
| X68
| X69
| X6a
| X6b
| X6c
| X6d
| X6e
| X6f
| X70
| X71
| X72
| X73
| X74
| X75
| X76
| X77
| X78
| X79
| X7a
| X7b
| X7c
| X7d
| X7e
| X7f
| X80
| X81
| X82
| X83
| X84
| X85
| X86
| X87
| X88
| X89
| X8a
| X8b
| X8c
| X8d
| X8e
| X8f
| X90
| X91
| X92
| X93
| X94
| X95
| X96
| X97
| X98
| X99
| X9a
| X9b
| X9c
| X9d
| X9e
| X9f
| Xa0
| Xa1
| Xa2
| Xa3
| Xa4
| Xa5
| Xa6
| Xa7
| Xa8
| Xa9
| Xaa
| Xab
| Xac
| Xad
| Xae
| Xaf
| Xb0
| Xb1
| Xb2
| Xb3
| Xb4
| Xb5
| Xb6
| Xb7
| Xb8
| Xb9
| Xba
| Xbb
| Xbc
| Xbd
| Xbe
| Xbf
| Xc0
| Xc1
| Xc2
| Xc3
| Xc4
| Xc5
| Xc6
| Xc7
| Xc8
| Xc9
| Xca
| Xcb
| Xcc
| Xcd
| Xce
| Xcf
| Xd0
| Xd1
| Xd2
| Xd3
| Xd4
| Xd5
| Xd6
| Xd7
| Xd8
| Xd9
| Xda
| Xdb
| Xdc
| Xdd
| Xde
| Xdf
| Xe0
| Xe1
| Xe2
| Xe3
| Xe4
| Xe5
| Xe6
| Xe7
| Xe8
| Xe9
| Xea
| Xeb
| Xec
| Xed
| Xee
| Xef
| Xf0
| Xf1
| Xf2
| Xf3
| Xf4
| Xf5
| Xf6
| Xf7
| Xf8
| Xf9
| Xfa
| Xfb
| Xfc
| Xfd
| Xfe
| Xff

(** val of_bits :
    (bool * (bool * (bool * (bool * (bool * (bool * (bool * bool))))))) ->
    byte **)

let of_bits = function
| (b1, p) ->
  if b1
  then let (b2, p0) = p in
       if b2
       then let (b3, p1) = p0 in
            if b3
            then let (b4, p2) = p1 in
                 if b4
                 then let (b5, p3) = p2 in
                      if b5
                      then let (b6, p4) = p3 in
                           if b6
                           then let (b7, b8) = p4 in
                                if b7
                                then if b8 then Xff else X7f
                                else if b8 then Xbf else X3f
                           else let (b7, b8) = p4 in
                                if b7
                                then if b8 then Xdf else X5f
                                else if b8 then X9f else X1f
                      else let (b6, p4) = p3 in
                           if b6
                           then let (b7, b8) = p4 in
                                if b7
                                then if b8 then Xef else X6f
                                else if b8 then Xaf else X2f
                           else let (b7, b8) = p4 in
                                if b7
                                then if b8 then Xcf else X4f
                                else if b8 then X8f else X0f
                 else let (b5, p3) = p2 in
                      if b5
                      then let (b6, p4) = p3 in
                           if b6
                           then let (b7, b8) = p4 in
                                if b7
                                then if b8 then Xf7 else X77
                                else if b8 then Xb7 else X37
                           else let (b7, b8) = p4 in
                                if b7
                                then if b8 then Xd7 else X57
                                else if b8 then X97 else X17
                      else let (b6, p4) = p3 in
                           if b6
                           then let (b7, b8) = p4 in
                                if b7
                                then if b8 then Xe7 else X67
                                else if b8 then Xa7 else X27
                           else let (b7, b8) = p4 in
                                if b7
                                then if b8 then Xc7 else X47
                                else if b8 then X87 else X07
            else let (b4, p2) = p1 in
                 if b4
                 then let (b5, p3) = p2 in
                      if b5
                      then let (b6, p4) = p3 in
                           if b6
                           then let (b7, b8) = p4 in
                                if b7
                                then if b8 then Xfb else X7b
                                else if b8 then Xbb else X3b
                           else let (b7, b8) = p4 in
                                if b7
                                then if b8 then Xdb else X5b
                                else if b8 then X9b else X1b
                      else let (b6, p4) = p3 in
                           if b6
                           then let (b7, b8) = p4 in
                                if b7
                                then if b8 then Xeb else X6b
                                else if b8 then Xab else X2b
                           else let (b7, b8) = p4 in
                                if b7
                                then if b8 then Xcb else X4b
                                else if b8 then X8b else X0b
                 else let (b5, p3) = p2 in
                      if b5
                      then let (b6, p4) = p3 in
                           if b6
                           then let (b7, b8) = p4 in
                                if b7
                                then if b8 then Xf3 else X73
                                else if b8 then Xb3 else X33
                           else let (b7, b8) = p4 in
                                if b7
                                then if b8 then Xd3 else X53
                                else if b8 then X93 else X13
                      else let (b6, p4) = p3 in
                           if b6
                           then let (b7, b8) = p4 in
                                if b7
                                then if b8 then Xe3 else X63
                                else if b8 then Xa3 else X23
                           else let (b7, b8) = p4 in
                                if b7
                                then if b8 then Xc3 else X43
                                else if b8 then X83 else X03
       else let (b3, p1) = p0 in
            if b3
            then let (b4, p2) = p1 in
                 if b4
                 then let (b5, p3) = p2 in
                      if b5
                      then let (b6, p4) = p3 in
                           if b6
                           then let (b7, b8) = p4 in
                                if b7
                                then if b8 then Xfd else X7d
                                else if b8 then Xbd else X3d
                           else let (b7, b8) = p4 in
                                if b7
                                then if b8 then Xdd else X5d
                                else if b8 then X9d else X1d
                      else let (b6, p4) = p3 in
                           if b6
                           then let (b7, b8) = p4 in
                                if b7
                                then if b8 then Xed else X6d
                                else if b8 then Xad else X2d
                           else let (b7, b8) = p4 in
                                if b7
                                then if b8 then Xcd else X4d
                                else if b8 then X8d else X0d
                 else let (b5, p3) = p2 in
                      if b5
                      then let (b6, p4) = p3 in
                           if b6
                           then let (b7, b8) = p4 in
                                if b7
                                then if b8 then Xf5 else X75
                                else if b8 then Xb5 else X35
                           else let (b7, b8) = p4 in
                                if b7
                                then if b8 then Xd5 else X55
                                else if b8 then X95 else X15
                      else let (b6, p4) = p3 in
                           if b6
                           then let (b7, b8) = p4 in
                                if b7
                                then if b8 then Xe5 else X65
                                else if b8 then Xa5 else X25
                           else let (b7, b8) = p4 in
                                if b7
                                then if b8 then Xc5 else X45
                                else if b8 then X85 else X05
            else let (b4, p2) = p1 in
                 if b4
                 then let (b5, p3) = p2 in
                      if b5
                      then let (b6, p4) = p3 in
                           if b6
                           then let (b7, b8) = p4 in
                                if b7
                                then if b8 then Xf9 else X79
                                else if b8 then Xb9 else X39
                           else let (b7, b8) = p4 in
                                if b7
                                then if b8 then Xd9 else X59
                                else if b8 then X99 else X19
                      else let (b6, p4) = p3 in
                           if b6
                           then let (b7, b8) = p4 in
                                if b7
                                then if b8 then Xe9 else X69
                                else if b8 then Xa9 else X29
                           else let (b7, b8) = p4 in
                                if b7
                                then if b8 then Xc9 else X49
                                else if b8 then X89 else X09
                 else let (b5, p3) = p2 in
                      if b5
                      then let (b6, p4) = p3 in
                           if b6
                           then let (b7, b8) = p4 in
                                if b7
                                then if b8 then Xf1 else X71
                                else if b8 then Xb1 else X31
                           else let (b7, b8) = p4 in
                                if b7
                                then if b8 then Xd1 else X51
                                else if b8 then X91 else X11
                      else let (b6, p4) = p3 in
                           if b6
                           then let (b7, b8) = p4 in
                                if b7
                                then if b8 then Xe1 else X61
                                else if b8 then Xa1 else X21
                           else let (b7, b8) = p4 in
                                if b7
                                then if b8 then Xc1 else X41
                                else if b8 then X81 else X01
  else let (b2, p0) = p in
       if b2
       then let (b3, p1) = p0 in
            if b3
            then let (b4, p2) = p1 in
                 if b4
                 then let (b5, p3) = p2 in
                      if b5
                      then let (b6, p4) = p3 in
                           if b6
                           then let (b7, b8) = p4 in
                                if b7
                                then if b8 then Xfe else X7e
                                else if b8 then Xbe else X3e
                           else let (b7, b8) = p4 in
                                if b7
                                then if b8 then Xde else X5e
                                else if b8 then X9e else X1e
                      else let (b6, p4) = p3 in
                           if b6
                           then let (b7, b8) = p4 in
                                if b7
                                then if b8 then Xee else X6e
                                else if b8 then Xae else X2e
                           else let (b7, b8) = p4 in
                                if b7
                                then if b8 then Xce else X4e
                                else if b8 then X8e else X0e
                 else let (b5, p3) = p2 in
                      if b5
                      then let (b6, p4) = p3 in
                           if b6
                           then let (b7, b8) = p4 in
                                if b7
                                then if b8 then Xf6 else X76
                                else if b8 then Xb6 else X36
                           else let (b7, b8) = p4 in
                                if b7
                                then if b8 then Xd6 else X56
                                else if b8 then X96 else X16
                      else let (b6, p4) = p3 in
                           if b6
                           then let (b7, b8) = p4 in
                                if b7
                                then if b8 then Xe6 else X66
                                else if b8 then Xa6 else X26
                           else let (b7, b8) = p4 in
                                if b7
                                then if b8 then Xc6 else X46
                                else if b8 then X86 else X06
            else let (b4, p2) = p1 in
                 if b4
                 then let (b5, p3) = p2 in
                      if b5
                      then let (b6, p4) = p3 in
                           if b6
                           then let (b7, b8) = p4 in
                                if b7
                                then if b8 then Xfa else X7a
                                else if b8 then Xba else X3a
                           else let (b7, b8) = p4 in
                                if b7
                                then if b8 then Xda else X5a
                                else if b8 then X9a else X1a
                      else let (b6, p4) = p3 in
                           if b6
                           then let (b7, b8) = p4 in
                                if b7
                                then if b8 then Xea else X6a
                                else if b8 then Xaa else X2a
                           else let (b7, b8) = p4 in
                                if b7
                                then if b8 then Xca else X4a
                                else if b8 then X8a else X0a
                 else let (b5, p3) = p2 in
                      if b5
                      then let (b6, p4) = p3 in
                           if b6
                           then let (b7, b8) = p4 in
                                if b7
                                then if b8 then Xf2 else X72
                                else if b8 then Xb2 else X32
                           else let (b7, b8) = p4 in
                                if b7
                                then if b8 then Xd2 else X52
                                else if b8 then X92 else X12
                      else let (b6, p4) = p3 in
                           if b6
                           then let (b7, b8) = p4 in
                                if b7
                                then if b8 then Xe2 else X62
                                else if b8 then Xa2 else X22
                           else let (b7, b8) = p4 in
                                if b7
                                then if b8 then Xc2 else X42
                                else if b8 then X82 else X02
       else let (b3, p1) = p0 in
            if b3
            then let (b4, p2) = p1 in
                 if b4
                 then let (b5, p3) = p2 in
                      if b5
                      then let (b6, p4) = p3 in
                           if b6
                           then let (b7, b8) = p4 in
                                if b7
                                then if b8 then Xfc else X7c
                                else if b8 then Xbc else X3c
                           else let (b7, b8) = p4 in
                                if b7
                                then if b8 then Xdc else X5c
                                else if b8 then X9c else X1c
                      else let (b6, p4) = p3 in
                           if b6
                           then let (b7, b8) = p4 in
                                if b7
                                then if b8 then Xec else X6c
                                else if b8 then Xac else X2c
                           else let (b7, b8) = p4 in
                                if b7
                                then if b8 then Xcc else X4c
                                else if b8 then X8c else X0c
                 else let (b5, p3) = p2 in
                      if b5
                      then let (b6, p4) = p3 in
                           if b6
                           then let (b7, b8) = p4 in
                                if b7
                                then if b8 then Xf4 else X74
                                else if b8 then Xb4 else X34
                           else let (b7, b8) = p4 in
                                if b7
                                then if b8 then Xd4 else X54
                                else if b8 then X94 else X14
                      else let (b6, p4) = p3 in
                           if b6
                           then let (b7, b8) = p4 in
                                if b7
                                then if b8 then Xe4 else X64
                                else if b8 then Xa4 else X24
                           else let (b7, b8) = p4 in
                                if b7
                                then if b8 then Xc4 else X44
                                else if b8 then X84 else X04
            else let (b4, p2) = p1 in
                 if b4
                 then let (b5, p3) = p2 in
                      if b5
                      then let (b6, p4) = p3 in
                           if b6
                           then let (b7, b8) = p4 in
                                if b7
                                then if b8 then Xf8 else X78
                                else if b8 then Xb8 else X38
                           else let (b7, b8) = p4 in
                                if b7
                                then if b8 then Xd8 else X58
                                else if b8 then X98 else X18
                      else let (b6, p4) = p3 in
                           if b6
                           then let (b7, b8) = p4 in
                                if b7
                                then if b8 then Xe8 else X68
                                else if b8 then Xa8 else X28
                           else let (b7, b8) = p4 in
                                if b7
                                then if b8 then Xc8 else X48
                                else if b8 then X88 else X08
                 else let (b5, p3) = p2 in
                      if b5
                      then let (b6, p4) = p3 in
                           if b6
                           then let (b7, b8) = p4 in
                                if b7
                                then if b8 then Xf0 else X70
                                else if b8 then Xb0 else X30
                           else let (b7, b8) = p4 in
                                if b7
                                then if b8 then Xd0 else X50
                                else if b8 then X90 else X10
                      else let (b6, p4) = p3 in
                           if b6
                           then let (b7, b8) = p4 in
                                if b7
                                then if b8 then Xe0 else X60
                                else if b8 then Xa0 else X20
                           else let (b7, b8) = p4 in
                                if b7
                                then if b8 then Xc0 else X40
                                else if b8 then X80 else X00

(** val to_bits :
    byte -> bool * (bool * (bool * (bool * (bool * (bool * (bool * bool)))))) **)

let to_bits = function
| X00 -> (false, (false, (false, (false, (false, (false, (false, false)))))))
| X01 -> (true, (false, (false, (false, (false, (false, (false, false)))))))
| X02 -> (false, (true, (false, (false, (false, (false, (false, false)))))))
| X03 -> (true, (true, (false, (false, (false, (false, (false, false)))))))
| X04 -> (false, (false, (true, (false, (false, (false, (false, false)))))))
| X05 -> (true, (false, (true, (false, (false, (false, (false, false)))))))
| X06 -> (false, (true, (true, (false, (false, (false, (false, false)))))))
| X07 -> (true, (true, (true, (false, (false, (false, (false, false)))))))
| X08 -> (false, (false, (false, (true, (false, (false, (false, false)))))))
| X09 -> (true, (false, (false, (true, (false, (false, (false, false)))))))
| X0a -> (false, (true, (false, (true, (false, (false, (false, false)))))))
| X0b -> (true, (true, (false, (true, (false, (false, (false, false)))))))
| X0c -> (false, (false, (true, (true, (false, (false, (false, false)))))))
| X0d -> (true, (false, (true, (true, (false, (false, (false, false)))))))
| X0e -> (false, (true, (true, (true, (false, (false, (false, false)))))))
| X0f -> (true, (true, (true, (true, (false, (false, (false, false)))))))
| X10 -> (false, (false, (false, (false, (true, (false, (false, false)))))))
| X11 -> (true, (false, (false, (false, (true, (false, (false, false)))))))
| X12 -> (false, (true, (false, (false, (true, (false, (false, false)))))))
| X13 -> (true, (true, (false, (false, (true, (false, (false, false)))))))
| X14 -> (false, (false, (true, (false, (true, (false, (false, false)))))))
| X15 -> (true, (false, (true, (false, (true, (false, (false, false)))))))
| X16 -> (false, (true, (true, (false, (true, (false, (false, false)))))))
| X17 -> (true, (true, (true, (false, (true, (false, (false, false)))))))
| X18 -> (false, (false, (false, (true, (true, (false, (false, false)))))))
| X19 -> (true, (false, (false, (true, (true, (false, (false, false)))))))
| X1a -> (false, (true, (false, (true, (true, (false, (false, false)))))))
| X1b -> (true, (true, (false, (true, (true, (false, (false, false)))))))
| X1c -> (false, (false, (true, (true, (true, (false, (false, false)))))))
| X1d -> (true, (false, (true, (true, (true, (false, (false, false)))))))
| X1e -> (false, (true, (true, (true, (true, (false, (false, false)))))))
| X1f -> (true, (true, (true, (true, (true, (false, (false, false)))))))
| X20 -> (false, (false, (false, (false, (false, (true, (false, false)))))))
| X21 -> (true, (false, (false, (false, (false, (true, (false, false)))))))
| X22 -> (false, (true, (false, (false, (false, (true, (false, false)))))))
| X23 -> (true, (true, (false, (false, (false, (true, (false, false)))))))
| X24 -> (false, (false, (true, (false, (false, (true, (false, false)))))))
| X25 -> (true, (false, (true, (false, (false, (true, (false, false)))))))
| X26 -> (false, (true, (true, (false, (false, (true, (false, false)))))))
| X27 -> (true, (true, (true, (false, (false, (true, (false, false)))))))
| X28 -> (false, (false, (false, (true, (false, (true, (false, false)))))))
| X29 -> (true, (false, (false, (true, (false, (true, (false, false)))))))
| X2a -> (false, (true, (false, (true, (false, (true, (false, false)))))))
| X2b -> (true, (true, (false, (true, (false, (true, (false, false)))))))
| X2c -> (false, (false, (true, (true, (false, (true, (false, false)))))))
| X2d -> (true, (false, (true, (true, (false, (true, (false, false)))))))
| X2e -> (false, (true, (true, (true, (false, (true, (false, false)))))))
| X2f -> (true, (true, (true, (true, (false, (true, (false, false)))))))
| X30 -> (false, (false, (false, (false, (true, (true, (false, false)))))))
| X31 -> (true, (false, (false, (false, (true, (true, (false, false)))))))
| X32 -> (false, (true, (false, (false, (true, (true, (false, false)))))))
| X33 -> (true, (true, (false, (false, (true, (true, (false, false)))))))
| X34 -> (false, (false, (true, (false, (true, (true, (false, false)))))))
| X35 -> (true, (false, (true, (false, (true, (true, (false, false)))))))
| X36 -> (false, (true, (true, (false, (true, (true, (false, false)))))))
| X37 -> (true, (true, (true, (false, (true, (true, (false, false)))))))
| X38 -> (false, (false, (false, (true, (true, (true, (false, false)))))))
| X39 -> (true, (false, (false, (true, (true, (true, (false, false)))))))
| X3a -> (false, (true, (false, (true, (true, (true, (false, false)))))))
| X3b -> (true, (true, (false, (true, (true, (true, (false, false)))))))
| X3c -> (false, (false, (true, (true, (true, (true, (false, false)))))))
| X3d -> (true, (false, (true, (true, (true, (true, (false, false)))))))
| X3e -> (false, (true, (true, (true, (true, (true, (false, false)))))))
| X3f -> (true, (true, (true, (true, (true, (true, (false, false)))))))
| X40 -> (false, (false, (false, (false, (false, (false, (true, false)))))))
| X41 -> (true, (false, (false, (false, (false, (false, (true, false)))))))
| X42 -> (false, (true, (false, (false, (false, (false, (true, false)))))))
| X43 -> (true, (true, (false, (false, (false, (false, (true, false)))))))
| X44 -> (false, (false, (true, (false, (false, (false, (true, false)))))))
| X45 -> (true, (false, (true, (false, (false, (false, (true, false)))))))
| X46 -> (false, (true, (true, (false, (false, (false, (true, false)))))))
| X47 -> (true, (true, (true, (false, (false, (false, (true, false)))))))
| X48 -> (false, (false, (false, (true, (false, (false, (true, false)))))))
| X49 -> (true, (false, (false, (true, (false, (false, (true, false)))))))
| X4a -> (false, (true, (false, (true, (false, (false, (true, false)))))))
| X4b -> (true, (true, (false, (true, (false, (false, (true, false)))))))
| X4c -> (false, (false, (true, (true, (false, (false, (true, false)))))))
| X4d -> (true, (false, (true, (true, (false, (false, (true, false)))))))
| X4e -> (false, (true, (true, (true, (false, (false, (true, false)))))))
| X4f -> (true, (true, (true, (true, (false, (false, (true, false)))))))
| X50 -> (false, (false, (false, (false, (true, (false, (true, false)))))))
| X51 -> (true, (false, (false, (false, (true, (false, (true, false)))))))
| X52 -> (false, (true, (false, (false, (true, (false, (true, false)))))))
| X53 -> (true, (true, (false, (false, (true, (false, (true, false)))))))
| X54 -> (false, (false, (true, (false, (true, (false, (true, false)))))))
| X55 -> (true, (false, (true, (false, (true, (false, (true, false)))))))
| X56 -> (false, (true, (true, (false, (true, (false, (true, false)))))))
| X57 -> (true, (true, (true, (false, (true, (false, (true, false)))))))
| X58 -> (false, (false, (false, (true, (true, (false, (true, false)))))))
| X59 -> (true, (false, (false, (true, (true, (false, (true, false)))))))
| X5a -> (false, (true, (false, (true, (true, (false, (true, false)))))))
| X5b -> (true, (true, (false, (true, (true, (false, (true, false)))))))
| X5c -> (false, (false, (true, (true, (true, (false, (true, false)))))))
| X5d -> (true, (false, (true, (true, (true, (false, (true, false)))))))
| X5e -> (false, (true, (true, (true, (true, (false, (true, false)))))))
| X5f -> (true, (true, (true, (true, (true, (false, (true, false)))))))
| X60 -> (false, (false, (false, (false, (false, (true, (true, false)))))))
| X61 -> (true, (false, (false, (false, (false, (true, (true, false)))))))
| X62 -> (false, (true, (false, (false, (false, (true, (true, false)))))))
| X63 -> (true, (true, (false, (false, (false, (true, (true, false)))))))
| X64 -> (false, (false, (true, (false, (false, (true, (true, false)))))))
| X65 -> (true, (false, (true, (false, (false, (true, (true, false)))))))
| X66 -> (false, (true, (true, (false, (false, (true, (true, false)))))))
| X67 -> (true, (true, (true, (false, (false, (true, (true, false)))))))
| X68 -> (false, (false, (false, (true, (false, (true, (true, false)))))))
| X69 -> (true, (false, (false, (true, (false, (true, (true, false)))))))
| X6a -> (false, (true, (false, (true, (false, (true, (true, false)))))))
| X6b -> (true, (true, (false, (true, (false, (true, (true, false)))))))
| X6c -> (false, (false, (true, (true, (false, (true, (true, false)))))))
| X6d -> (true, (false, (true, (true, (false, (true, (true, false)))))))
| X6e -> (false, (true, (true, (true, (false, (true, (true, false)))))))
| X6f -> (true, (true, (true, (true, (false, (true, (true, false)))))))
| X70 -> (false, (false, (false, (false, (true, (true, (true, false)))))))
| X71 -> (true, (false, (false, (false, (true, (true, (true, false)))))))
| X72 -> (false, (true, (false, (false, (true, (true, (true, false)))))))
| X73 -> (true, (true, (false, (false, (true, (true, (true, false)))))))
| X74 -> (false, (false, (true, (false, (true, (true, (true, false)))))))
| X75 -> (true, (false, (true, (false, (true, (true, (true, false)))))))
| X76 -> (false, (true, (true, (false, (true, (true, (true, false)))))))
| X77 -> (true, (true, (true, (false, (true, (true, (true, false)))))))
| X78 -> (false, (false, (false, (true, (true, (true, (true, false)))))))
| X79 -> (true, (false, (false, (true, (true, (true, (true, false)))))))
| X7a -> (false, (true, (false, (true, (true, (true, (true, false)))))))
| X7b -> (true, (true, (false, (true, (true, (true, (true, false)))))))
| X7c -> (false, (false, (true, (true, (true, (true, (true, false)))))))
| X7d -> (true, (false, (true, (true, (true, (true, (true, false)))))))
| X7e -> (false, (true, (true, (true, (true, (true, (true, false)))))))
| X7f -> (true, (true, (true, (true, (true, (true, (true, false)))))))
| X80 -> (false, (false, (false, (false, (false, (false, (false, true)))))))
| X81 -> (true, (false, (false, (false, (false, (false, (false, true)))))))
| X82 -> (false, (true, (false, (false, (false, (false, (false, true)))))))
| X83 -> (true, (true, (false, (false, (false, (false, (false, true)))))))
| X84 -> (false, (false, (true, (false, (false, (false, (false, true)))))))
| X85 -> (true, (false, (true, (false, (false, (false, (false, true)))))))
| X86 -> (false, (true, (true, (false, (false, (false, (false, true)))))))
| X87 -> (true, (true, (true, (false, (false, (false, (false, true)))))))
| X88 -> (false, (false, (false, (true, (false, (false, (false, true)))))))
| X89 -> (true, (false, (false, (true, (false, (false, (false, true)))))))
| X8a -> (false, (true, (false, (true, (false, (false, (false, true)))))))
| X8b -> (true, (true, (false, (true, (false, (false, (false, true)))))))
| X8c -> (false, (false, (true, (true, (false, (false, (false, true)))))))
| X8d -> (true, (false, (true, (true, (false, (false, (false, true)))))))
| X8e -> (false, (true, (true, (true, (false, (false, (false, true)))))))
| X8f -> (true, (true, (true, (true, (false, (false, (false, true)))))))
| X90 -> (false, (false, (false, (false, (true, (false, (false, true)))))))
| X91 -> (true, (false, (false, (false, (true, (false, (false, true)))))))
| X92 -> (false, (true, (false, (false, (true, (false, (false, true)))))))
| X93 -> (true, (true, (false, (false, (true, (false, (false, true)))))))
| X94 -> (false, (false, (true, (false, (true, (false, (false, true)))))))
| X95 -> (true, (false, (true, (false, (true, (false, (false, true)))))))
| X96 -> (false, (true, (true, (false, (true, (false, (false, true)))))))
| X97 -> (true, (true, (true, (false, (true, (false, (false, true)))))))
| X98 -> (false, (false, (false, (true, (true, (false, (false, true)))))))
| X99 -> (true, (false, (false, (true, (true, (false, (false, true)))))))
| X9a -> (false, (true, (false, (true, (true, (false, (false, true)))))))
| X9b -> (true, (true, (false, (true, (true, (false, (false, true)))))))
| X9c -> (false, (false, (true, (true, (true, (false, (false, true)))))))
| X9d -> (true, (false, (true, (true, (true, (false, (false, true)))))))
| X9e -> (false, (true, (true, (true, (true, (false, (false, true)))))))
| X9f -> (true, (true, (true, (true, (true, (false, (false, true)))))))
| Xa0 -> (false, (false, (false, (false, (false, (true, (false, true)))))))
| Xa1 -> (true, (false, (false, (false, (false, (true, (false, true)))))))
| Xa2 -> (false, (true, (false, (false, (false, (true, (false, true)))))))
| Xa3 -> (true, (true, (false, (false, (false, (true, (false, true)))))))
| Xa4 -> (false, (false, (true, (false, (false, (true, (false, true)))))))
| Xa5 -> (true, (false, (true, (false, (false, (true, (false, true)))))))
| Xa6 -> (false, (true, (true, (false, (false, (true, (false, true)))))))
| Xa7 -> (true, (true, (true, (false, (false, (true, (false, true)))))))
| Xa8 -> (false, (false, (false, (true, (false, (true, (false, true)))))))
| Xa9 -> (true, (false, (false, (true, (false, (true, (false, true)))))))
| Xaa -> (false, (true, (false, (true, (false, (true, (false, true)))))))
| Xab -> (true, (true, (false, (true, (false, (true, (false, true)))))))
| Xac -> (false, (false, (true, (true, (false, (true, (false, true)))))))
| Xad -> (true, (false, (true, (true, (false, (true, (false, true)))))))
| Xae -> (false, (true, (true, (true, (false, (true, (false, true)))))))
| Xaf -> (true, (true, (true, (true, (false, (true, (false, true)))))))
| Xb0 -> (false, (false, (false, (false, (true, (true, (false, true)))))))
| Xb1 -> (true, (false, (false, (false, (true, (true, (false, true)))))))
| Xb2 -> (false, (true, (false, (false, (true, (true, (false, true)))))))
| Xb3 -> (true, (true, (false, (false, (true, (true, (false, true)))))))
| Xb4 -> (false, (false, (true, (false, (true, (true, (false, true)))))))
| Xb5 -> (true, (false, (true, (false, (true, (true, (false, true)))))))
| Xb6 -> (false, (true, (true, (false, (true, (true, (false, true)))))))
| Xb7 -> (true, (true, (true, (false, (true, (true, (false, true)))))))
| Xb8 -> (false, (false, (false, (true, (true, (true, (false, true)))))))
| Xb9 -> (true, (false, (false, (true, (true, (true, (false, true)))))))
| Xba -> (false, (true, (false, (true, (true, (true, (false, true)))))))
| Xbb -> (true, (true, (false, (true, (true, (true, (false, true)))))))
| Xbc -> (false, (false, (true, (true, (true, (true, (false, true)))))))
| Xbd -> (true, (false, (true, (true, (true, (true, (false, true)))))))
| Xbe -> (false, (true, (true, (true, (true, (true, (false, true)))))))
| Xbf -> (true, (true, (true, (true, (true, (true, (false, true)))))))
| Xc0 -> (false, (false, (false, (false, (false, (false, (true, true)))))))
| Xc1 -> (true, (false, (false, (false, (false, (false, (true, true)))))))
| Xc2 -> (false, (true, (false, (false, (false, (false, (true, true)))))))
| Xc3 -> (true, (true, (false, (false, (false, (false, (true, true)))))))
| Xc4 -> (false, (false, (true, (false, (false, (false, (true, true)))))))
| Xc5 -> (true, (false, (true, (false, (false, (false, (true, true)))))))
| Xc6 -> (false, (true, (true, (false, (false, (false, (true, true)))))))
| Xc7 -> (true, (true, (true, (false, (false, (false, (true, true)))))))
| Xc8 -> (false, (false, (false, (true, (false, (false, (true, true)))))))
| Xc9 -> (true, (false, (false, (true, (false, (false, (true, true)))))))
| Xca -> (false, (true, (false, (true, (false, (false, (true, true)))))))
| Xcb -> (true, (true, (false, (true, (false, (false, (true, true)))))))
| Xcc -> (false, (false, (true, (true, (false, (false, (true, true)))))))
| Xcd -> (true, (false, (true, (true, (false, (false, (true, true)))))))
| Xce -> (false, (true, (true, (true, (false, (false, (true, true)))))))
| Xcf -> (true, (true, (true, (true, (false, (false, (true, true)))))))
| Xd0 -> (false, (false, (false, (false, (true, (false, (true, true)))))))
| Xd1 -> (true, (false, (false, (false, (true, (false, (true, true)))))))
| Xd2 -> (false, (true, (false, (false, (true, (false, (true, true)))))))
| Xd3 -> (true, (true, (false, (false, (true, (false, (true, true)))))))
| Xd4 -> (false, (false, (true, (false, (true, (false, (true, true)))))))
| Xd5 -> (true, (false, (true, (false, (true, (false, (true, true)))))))
| Xd6 -> (false, (true, (true, (false, (true, (false, (true, true)))))))
| Xd7 -> (true, (true, (true, (false, (true, (false, (true, true)))))))
| Xd8 -> (false, (false, (false, (true, (true, (false, (true, true)))))))
| Xd9 -> (true, (false, (false, (true, (true, (false, (true, true)))))))
| Xda -> (false, (true, (false, (true, (true, (false, (true, true)))))))
| Xdb -> (true, (true, (false, (true, (true, (false, (true, true)))))))
| Xdc -> (false, (false, (true, (true, (true, (false, (true, true)))))))
| Xdd -> (true, (false, (true, (true, (true, (false, (true, true)))))))
| Xde -> (false, (true, (true, (true, (true, (false, (true, true)))))))
| Xdf -> (true, (true, (true, (true, (true, (false, (true, true)))))))
| Xe0 -> (false, (false, (false, (false, (false, (true, (true, true)))))))
| Xe1 -> (true, (false, (false, (false, (false, (true, (true, true)))))))
| Xe2 -> (false, (true, (false, (false, (false, (true, (true, true)))))))
| Xe3 -> (true, (true, (false, (false, (false, (true, (true, true)))))))
| Xe4 -> (false, (false, (true, (false, (false, (true, (true, true)))))))
| Xe5 -> (true, (false, (true, (false, (false, (true, (true, true)))))))
| Xe6 -> (false, (true, (true, (false, (false, (true, (true, true)))))))
| Xe7 -> (true, (true, (true, (false, (false, (true, (true, true)))))))
| Xe8 -> (false, (false, (false, (true, (false, (true, (true, true)))))))
| Xe9 -> (true, (false, (false, (true, (false, (true, (true, true)))))))
| Xea -> (false, (true, (false, (true, (false, (true, (true, true)))))))
| Xeb -> (true, (true, (false, (true, (false, (true, (true, true)))))))
| Xec -> (false, (false, (true, (true, (false, (true, (true, true)))))))
| Xed -> (true, (false, (true, (true, (false, (true, (true, true)))))))
| Xee -> (false, (true, (true, (true, (false, (true, (true, true)))))))
| Xef -> (true, (true, (true, (true, (false, (true, (true, true)))))))
| Xf0 -> (false, (false, (false, (false, (true, (true, (true, true)))))))
| Xf1 -> (true, (false, (false, (false, (true, (true, (true, true)))))))
| Xf2 -> (false, (true, (false, (false, (true, (true, (true, true)))))))
| Xf3 -> (true, (true, (false, (false, (true, (true, (true, true)))))))
| Xf4 -> (false, (false, (true, (false, (true, (true, (true, true)))))))
| Xf5 -> (true, (false, (true, (false, (true, (true, (true, true)))))))
| Xf6 -> (false, (true, (true, (false, (true, (true, (true, true)))))))
| Xf7 -> (true, (true, (true, (false, (true, (true, (true, true)))))))
| Xf8 -> (false, (false, (false, (true, (true, (true, (true, true)))))))
| Xf9 -> (true, (false, (false, (true, (true, (true, (true, true)))))))
| Xfa -> (false, (true, (false, (true, (true, (true, (true, true)))))))
| Xfb -> (true, (true, (false, (true, (true, (true, (true, true)))))))
| Xfc -> (false, (false, (true, (true, (true, (true, (true, true)))))))
| Xfd -> (true, (false, (true, (true, (true, (true, (true, true)))))))
| Xfe -> (false, (true, (true, (true, (true, (true, (true, true)))))))
| Xff -> (true, (true, (true, (true, (true, (true, (true, true)))))))

type positive =
| XI of positive
| XO of positive
| XH

type n =
| N0
| Npos of positive

type z =
| Z0
| Zpos of positive
| Zneg of positive

(** val eqb : bool -> bool -> bool **)

let eqb b1 b2 =
  if b1 then b2 else if b2 then false else true

module Nat =
 struct
  (** val eqb : nat -> nat -> bool **)

  let rec eqb n0 m =
    match n0 with
    | O -> (match m with
            | O -> true
            | S _ -> false)
    | S n' -> (match m with
               | O -> false
               | S m' -> eqb n' m')

  (** val leb : nat -> nat -> bool **)

  let rec leb n0 m =
    match n0 with
    | O -> true
    | S n' -> (match m with
               | O -> false
               | S m' -> leb n' m')

  (** val ltb : nat -> nat -> bool **)

  let ltb n0 m =
    leb (S n0) m

  (** val min : nat -> nat -> nat **)

  let rec min n0 m =
    match n0 with
    | O -> O
    | S n' -> (match m with
               | O -> O
               | S m' -> S (min n' m'))
 end

module Pos =
 struct
  type mask =
  | IsNul
  | IsPos of positive
  | IsNeg
 end

module Coq_Pos =
 struct
  (** val succ : positive -> positive **)

  let rec succ = function
  | XI p -> XO (succ p)
  | XO p -> XI p
  | XH -> XO XH

  (** val add : positive -> positive -> positive **)

  let rec add x y =
    match x with
    | XI p ->
      (match y with
       | XI q -> XO (add_carry p q)
       | XO q -> XI (add p q)
       | XH -> XO (succ p))
    | XO p ->
      (match y with
       | XI q -> XI (add p q)
       | XO q -> XO (add p q)
       | XH -> XI p)
    | XH -> (match y with
             | XI q -> XO (succ q)
             | XO q -> XI q
             | XH -> XO XH)

  (** val add_carry : positive -> positive -> positive **)

  and add_carry x y =
    match x with
    | XI p ->
      (match y with
       | XI q -> XI (add_carry p q)
       | XO q -> XO (add_carry p q)
       | XH -> XI (succ p))
    | XO p ->
      (match y with
       | XI q -> XO (add_carry p q)
       | XO q -> XI (add p q)
       | XH -> XO (succ p))
    | XH ->
      (match y with
       | XI q -> XI (succ q)
       | XO q -> XO (succ q)
       | XH -> XI XH)

  (** val pred_double : positive -> positive **)

  let rec pred_double = function
  | XI p -> XI (XO p)
  | XO p -> XI (pred_double p)
  | XH -> XH

  (** val pred_N : positive -> n **)

  let pred_N = function
  | XI p -> Npos (XO p)
  | XO p -> Npos (pred_double p)
  | XH -> N0

  type mask = Pos.mask =
  | IsNul
  | IsPos of positive
  | IsNeg

  (** val succ_double_mask : mask -> mask **)

  let succ_double_mask = function
  | IsNul -> IsPos XH
  | IsPos p -> IsPos (XI p)
  | IsNeg -> IsNeg

  (** val double_mask : mask -> mask **)

  let double_mask = function
  | IsPos p -> IsPos (XO p)
  | x0 -> x0

  (** val double_pred_mask : positive -> mask **)

  let double_pred_mask = function
  | XI p -> IsPos (XO (XO p))
  | XO p -> IsPos (XO (pred_double p))
  | XH -> IsNul

  (** val sub_mask : positive -> positive -> mask **)

  let rec sub_mask x y =
    match x with
    | XI p ->
      (match y with
       | XI q -> double_mask (sub_mask p q)
       | XO q -> succ_double_mask (sub_mask p q)
       | XH -> IsPos (XO p))
    | XO p ->
      (match y with
       | XI q -> succ_double_mask (sub_mask_carry p q)
       | XO q -> double_mask (sub_mask p q)
       | XH -> IsPos (pred_double p))
    | XH -> (match y with
             | XH -> IsNul
             | _ -> IsNeg)

  (** val sub_mask_carry : positive -> positive -> mask **)

  and sub_mask_carry x y =
    match x with
    | XI p ->
      (match y with
       | XI q -> succ_double_mask (sub_mask_carry p q)
       | XO q -> double_mask (sub_mask p q)
       | XH -> IsPos (pred_double p))
    | XO p ->
      (match y with
       | XI q -> double_mask (sub_mask_carry p q)
       | XO q -> succ_double_mask (sub_mask_carry p q)
       | XH -> double_pred_mask p)
    | XH -> IsNeg

  (** val mul : positive -> positive -> positive **)

  let rec mul x y =
    match x with
    | XI p -> add y (XO (mul p y))
    | XO p -> XO (mul p y)
    | XH -> y

  (** val iter : ('a1 -> 'a1) -> 'a1 -> positive -> 'a1 **)

  let rec iter f x = function
  | XI n' -> f (iter f (iter f x n') n')
  | XO n' -> iter f (iter f x n') n'
  | XH -> f x

  (** val pow : positive -> positive -> positive **)

  let pow x =
    iter (mul x) XH

  (** val compare_cont : comparison -> positive -> positive -> comparison **)

  let rec compare_cont r x y =
    match x with
    | XI p ->
      (match y with
       | XI q -> compare_cont r p q
       | XO q -> compare_cont Gt p q
       | XH -> Gt)
    | XO p ->
      (match y with
       | XI q -> compare_cont Lt p q
       | XO q -> compare_cont r p q
       | XH -> Gt)
    | XH -> (match y with
             | XH -> r
             | _ -> Lt)

  (** val compare : positive -> positive -> comparison **)

  let compare =
    compare_cont Eq

  (** val eqb : positive -> positive -> bool **)

  let rec eqb p q =
    match p with
    | XI p0 -> (match q with
                | XI q0 -> eqb p0 q0
                | _ -> false)
    | XO p0 -> (match q with
                | XO q0 -> eqb p0 q0
                | _ -> false)
    | XH -> (match q with
             | XH -> true
             | _ -> false)

  (** val coq_Nsucc_double : n -> n **)

  let coq_Nsucc_double = function
  | N0 -> Npos XH
  | Npos p -> Npos (XI p)

  (** val coq_Ndouble : n -> n **)

  let coq_Ndouble = function
  | N0 -> N0
  | Npos p -> Npos (XO p)

  (** val coq_lor : positive -> positive -> positive **)

  let rec coq_lor p q =
    match p with
    | XI p0 ->
      (match q with
       | XI q0 -> XI (coq_lor p0 q0)
       | XO q0 -> XI (coq_lor p0 q0)
       | XH -> p)
    | XO p0 ->
      (match q with
       | XI q0 -> XI (coq_lor p0 q0)
       | XO q0 -> XO (coq_lor p0 q0)
       | XH -> XI p0)
    | XH -> (match q with
             | XO q0 -> XI q0
             | _ -> q)

  (** val coq_land : positive -> positive -> n **)

  let rec coq_land p q =
    match p with
    | XI p0 ->
      (match q with
       | XI q0 -> coq_Nsucc_double (coq_land p0 q0)
       | XO q0 -> coq_Ndouble (coq_land p0 q0)
       | XH -> Npos XH)
    | XO p0 ->
      (match q with
       | XI q0 -> coq_Ndouble (coq_land p0 q0)
       | XO q0 -> coq_Ndouble (coq_land p0 q0)
       | XH -> N0)
    | XH -> (match q with
             | XO _ -> N0
             | _ -> Npos XH)

  (** val ldiff : positive -> positive -> n **)

  let rec ldiff p q =
    match p with
    | XI p0 ->
      (match q with
       | XI q0 -> coq_Ndouble (ldiff p0 q0)
       | XO q0 -> coq_Nsucc_double (ldiff p0 q0)
       | XH -> Npos (XO p0))
    | XO p0 ->
      (match q with
       | XI q0 -> coq_Ndouble (ldiff p0 q0)
       | XO q0 -> coq_Ndouble (ldiff p0 q0)
       | XH -> Npos p)
    | XH -> (match q with
             | XO _ -> Npos XH
             | _ -> N0)

  (** val coq_lxor : positive -> positive -> n **)

  let rec coq_lxor p q =
    match p with
    | XI p0 ->
      (match q with
       | XI q0 -> coq_Ndouble (coq_lxor p0 q0)
       | XO q0 -> coq_Nsucc_double (coq_lxor p0 q0)
       | XH -> Npos (XO p0))
    | XO p0 ->
      (match q with
       | XI q0 -> coq_Nsucc_double (coq_lxor p0 q0)
       | XO q0 -> coq_Ndouble (coq_lxor p0 q0)
       | XH -> Npos (XI p0))
    | XH ->
      (match q with
       | XI q0 -> Npos (XO q0)
       | XO q0 -> Npos (XI q0)
       | XH -> N0)

  (** val iter_op : ('a1 -> 'a1 -> 'a1) -> positive -> 'a1 -> 'a1 **)

  let rec iter_op op p a =
    match p with
    | XI p0 -> op a (iter_op op p0 (op a a))
    | XO p0 -> iter_op op p0 (op a a)
    | XH -> a

  (** val to_nat : positive -> nat **)

  let to_nat x =
    iter_op Coq__1.add x (S O)

  (** val of_succ_nat : nat -> positive **)

  let rec of_succ_nat = function
  | O -> XH
  | S x -> succ (of_succ_nat x)
 end

module N =
 struct
  (** val succ_double : n -> n **)

  let succ_double = function
  | N0 -> Npos XH
  | Npos p -> Npos (XI p)

  (** val double : n -> n **)

  let double = function
  | N0 -> N0
  | Npos p -> Npos (XO p)

  (** val pred : n -> n **)

  let pred = function
  | N0 -> N0
  | Npos p -> Coq_Pos.pred_N p

  (** val succ_pos : n -> positive **)

  let succ_pos = function
  | N0 -> XH
  | Npos p -> Coq_Pos.succ p

  (** val add : n -> n -> n **)

  let add n0 m =
    match n0 with
    | N0 -> m
    | Npos p -> (match m with
                 | N0 -> n0
                 | Npos q -> Npos (Coq_Pos.add p q))

  (** val sub : n -> n -> n **)

  let sub n0 m =
    match n0 with
    | N0 -> N0
    | Npos n' ->
      (match m with
       | N0 -> n0
       | Npos m' ->
         (match Coq_Pos.sub_mask n' m' with
          | Coq_Pos.IsPos p -> Npos p
          | _ -> N0))

  (** val mul : n -> n -> n **)

  let mul n0 m =
    match n0 with
    | N0 -> N0
    | Npos p -> (match m with
                 | N0 -> N0
                 | Npos q -> Npos (Coq_Pos.mul p q))

  (** val compare : n -> n -> comparison **)

  let compare n0 m =
    match n0 with
    | N0 -> (match m with
             | N0 -> Eq
             | Npos _ -> Lt)
    | Npos n' -> (match m with
                  | N0 -> Gt
                  | Npos m' -> Coq_Pos.compare n' m')

  (** val eqb : n -> n -> bool **)

  let eqb n0 m =
    match n0 with
    | N0 -> (match m with
             | N0 -> true
             | Npos _ -> false)
    | Npos p -> (match m with
                 | N0 -> false
                 | Npos q -> Coq_Pos.eqb p q)

  (** val leb : n -> n -> bool **)

  let leb x y =
    match compare x y with
    | Gt -> false
    | _ -> true

  (** val ltb : n -> n -> bool **)

  let ltb x y =
    match compare x y with
    | Lt -> true
    | _ -> false

  (** val min : n -> n -> n **)

  let min n0 n' =
    match compare n0 n' with
    | Gt -> n'
    | _ -> n0

  (** val pow : n -> n -> n **)

  let pow n0 = function
  | N0 -> Npos XH
  | Npos p0 -> (match n0 with
                | N0 -> N0
                | Npos q -> Npos (Coq_Pos.pow q p0))

  (** val pos_div_eucl : positive -> n -> n * n **)

  let rec pos_div_eucl a b =
    match a with
    | XI a' ->
      let (q, r) = pos_div_eucl a' b in
      let r' = succ_double r in
      if leb b r' then ((succ_double q), (sub r' b)) else ((double q), r')
    | XO a' ->
      let (q, r) = pos_div_eucl a' b in
      let r' = double r in
      if leb b r' then ((succ_double q), (sub r' b)) else ((double q), r')
    | XH ->
      (match b with
       | N0 -> (N0, (Npos XH))
       | Npos p -> (match p with
                    | XH -> ((Npos XH), N0)
                    | _ -> (N0, (Npos XH))))

  (** val div_eucl : n -> n -> n * n **)

  let div_eucl a b =
    match a with
    | N0 -> (N0, N0)
    | Npos na -> (match b with
                  | N0 -> (N0, a)
                  | Npos _ -> pos_div_eucl na b)

  (** val div : n -> n -> n **)

  let div a b =
    fst (div_eucl a b)

  (** val modulo : n -> n -> n **)

  let modulo a b =
    snd (div_eucl a b)

  (** val coq_lor : n -> n -> n **)

  let coq_lor n0 m =
    match n0 with
    | N0 -> m
    | Npos p -> (match m with
                 | N0 -> n0
                 | Npos q -> Npos (Coq_Pos.coq_lor p q))

  (** val coq_land : n -> n -> n **)

  let coq_land n0 m =
    match n0 with
    | N0 -> N0
    | Npos p -> (match m with
                 | N0 -> N0
                 | Npos q -> Coq_Pos.coq_land p q)

  (** val ldiff : n -> n -> n **)

  let ldiff n0 m =
    match n0 with
    | N0 -> N0
    | Npos p -> (match m with
                 | N0 -> n0
                 | Npos q -> Coq_Pos.ldiff p q)

  (** val coq_lxor : n -> n -> n **)

  let coq_lxor n0 m =
    match n0 with
    | N0 -> m
    | Npos p -> (match m with
                 | N0 -> n0
                 | Npos q -> Coq_Pos.coq_lxor p q)

  (** val to_nat : n -> nat **)

  let to_nat = function
  | N0 -> O
  | Npos p -> Coq_Pos.to_nat p

  (** val of_nat : nat -> n **)

  let of_nat = function
  | O -> N0
  | S n' -> Npos (Coq_Pos.of_succ_nat n')
 end

module Z =
 struct
  (** val double : z -> z **)

  let double = function
  | Z0 -> Z0
  | Zpos p -> Zpos (XO p)
  | Zneg p -> Zneg (XO p)

  (** val succ_double : z -> z **)

  let succ_double = function
  | Z0 -> Zpos XH
  | Zpos p -> Zpos (XI p)
  | Zneg p -> Zneg (Coq_Pos.pred_double p)

  (** val pred_double : z -> z **)

  let pred_double = function
  | Z0 -> Zneg XH
  | Zpos p -> Zpos (Coq_Pos.pred_double p)
  | Zneg p -> Zneg (XI p)

  (** val pos_sub : positive -> positive -> z **)

  let rec pos_sub x y =
    match x with
    | XI p ->
      (match y with
       | XI q -> double (pos_sub p q)
       | XO q -> succ_double (pos_sub p q)
       | XH -> Zpos (XO p))
    | XO p ->
      (match y with
       | XI q -> pred_double (pos_sub p q)
       | XO q -> double (pos_sub p q)
       | XH -> Zpos (Coq_Pos.pred_double p))
    | XH ->
      (match y with
       | XI q -> Zneg (XO q)
       | XO q -> Zneg (Coq_Pos.pred_double q)
       | XH -> Z0)

  (** val add : z -> z -> z **)

  let add x y =
    match x with
    | Z0 -> y
    | Zpos x' ->
      (match y with
       | Z0 -> x
       | Zpos y' -> Zpos (Coq_Pos.add x' y')
       | Zneg y' -> pos_sub x' y')
    | Zneg x' ->
      (match y with
       | Z0 -> x
       | Zpos y' -> pos_sub y' x'
       | Zneg y' -> Zneg (Coq_Pos.add x' y'))

  (** val opp : z -> z **)

  let opp = function
  | Z0 -> Z0
  | Zpos x0 -> Zneg x0
  | Zneg x0 -> Zpos x0

  (** val sub : z -> z -> z **)

  let sub m n0 =
    add m (opp n0)

  (** val mul : z -> z -> z **)

  let mul x y =
    match x with
    | Z0 -> Z0
    | Zpos x' ->
      (match y with
       | Z0 -> Z0
       | Zpos y' -> Zpos (Coq_Pos.mul x' y')
       | Zneg y' -> Zneg (Coq_Pos.mul x' y'))
    | Zneg x' ->
      (match y with
       | Z0 -> Z0
       | Zpos y' -> Zneg (Coq_Pos.mul x' y')
       | Zneg y' -> Zpos (Coq_Pos.mul x' y'))

  (** val pow_pos : z -> positive -> z **)

  let pow_pos z0 =
    Coq_Pos.iter (mul z0) (Zpos XH)

  (** val pow : z -> z -> z **)

  let pow x = function
  | Z0 -> Zpos XH
  | Zpos p -> pow_pos x p
  | Zneg _ -> Z0

  (** val compare : z -> z -> comparison **)

  let compare x y =
    match x with
    | Z0 -> (match y with
             | Z0 -> Eq
             | Zpos _ -> Lt
             | Zneg _ -> Gt)
    | Zpos x' -> (match y with
                  | Zpos y' -> Coq_Pos.compare x' y'
                  | _ -> Gt)
    | Zneg x' ->
      (match y with
       | Zneg y' -> compOpp (Coq_Pos.compare x' y')
       | _ -> Lt)

  (** val leb : z -> z -> bool **)

  let leb x y =
    match compare x y with
    | Gt -> false
    | _ -> true

  (** val ltb : z -> z -> bool **)

  let ltb x y =
    match compare x y with
    | Lt -> true
    | _ -> false

  (** val gtb : z -> z -> bool **)

  let gtb x y =
    match compare x y with
    | Gt -> true
    | _ -> false

  (** val eqb : z -> z -> bool **)

  let eqb x y =
    match x with
    | Z0 -> (match y with
             | Z0 -> true
             | _ -> false)
    | Zpos p -> (match y with
                 | Zpos q -> Coq_Pos.eqb p q
                 | _ -> false)
    | Zneg p -> (match y with
                 | Zneg q -> Coq_Pos.eqb p q
                 | _ -> false)

  (** val to_nat : z -> nat **)

  let to_nat = function
  | Zpos p -> Coq_Pos.to_nat p
  | _ -> O

  (** val to_N : z -> n **)

  let to_N = function
  | Zpos p -> Npos p
  | _ -> N0

  (** val of_nat : nat -> z **)

  let of_nat = function
  | O -> Z0
  | S n1 -> Zpos (Coq_Pos.of_succ_nat n1)

  (** val of_N : n -> z **)

  let of_N = function
  | N0 -> Z0
  | Npos p -> Zpos p

  (** val pos_div_eucl : positive -> z -> z * z **)

  let rec pos_div_eucl a b =
    match a with
    | XI a' ->
      let (q, r) = pos_div_eucl a' b in
      let r' = add (mul (Zpos (XO XH)) r) (Zpos XH) in
      if ltb r' b
      then ((mul (Zpos (XO XH)) q), r')
      else ((add (mul (Zpos (XO XH)) q) (Zpos XH)), (sub r' b))
    | XO a' ->
      let (q, r) = pos_div_eucl a' b in
      let r' = mul (Zpos (XO XH)) r in
      if ltb r' b
      then ((mul (Zpos (XO XH)) q), r')
      else ((add (mul (Zpos (XO XH)) q) (Zpos XH)), (sub r' b))
    | XH -> if leb (Zpos (XO XH)) b then (Z0, (Zpos XH)) else ((Zpos XH), Z0)

  (** val div_eucl : z -> z -> z * z **)

  let div_eucl a b =
    match a with
    | Z0 -> (Z0, Z0)
    | Zpos a' ->
      (match b with
       | Z0 -> (Z0, a)
       | Zpos _ -> pos_div_eucl a' b
       | Zneg b' ->
         let (q, r) = pos_div_eucl a' (Zpos b') in
         (match r with
          | Z0 -> ((opp q), Z0)
          | _ -> ((opp (add q (Zpos XH))), (add b r))))
    | Zneg a' ->
      (match b with
       | Z0 -> (Z0, a)
       | Zpos _ ->
         let (q, r) = pos_div_eucl a' b in
         (match r with
          | Z0 -> ((opp q), Z0)
          | _ -> ((opp (add q (Zpos XH))), (sub b r)))
       | Zneg b' -> let (q, r) = pos_div_eucl a' (Zpos b') in (q, (opp r)))

  (** val div : z -> z -> z **)

  let div a b =
    let (q, _) = div_eucl a b in q

  (** val modulo : z -> z -> z **)

  let modulo a b =
    let (_, r) = div_eucl a b in r

  (** val coq_lor : z -> z -> z **)

  let coq_lor a b =
    match a with
    | Z0 -> b
    | Zpos a0 ->
      (match b with
       | Z0 -> a
       | Zpos b1 -> Zpos (Coq_Pos.coq_lor a0 b1)
       | Zneg b1 -> Zneg (N.succ_pos (N.ldiff (Coq_Pos.pred_N b1) (Npos a0))))
    | Zneg a0 ->
      (match b with
       | Z0 -> a
       | Zpos b1 -> Zneg (N.succ_pos (N.ldiff (Coq_Pos.pred_N a0) (Npos b1)))
       | Zneg b1 ->
         Zneg
           (N.succ_pos (N.coq_land (Coq_Pos.pred_N a0) (Coq_Pos.pred_N b1))))

  (** val coq_land : z -> z -> z **)

  let coq_land a b =
    match a with
    | Z0 -> Z0
    | Zpos a0 ->
      (match b with
       | Z0 -> Z0
       | Zpos b1 -> of_N (Coq_Pos.coq_land a0 b1)
       | Zneg b1 -> of_N (N.ldiff (Npos a0) (Coq_Pos.pred_N b1)))
    | Zneg a0 ->
      (match b with
       | Z0 -> Z0
       | Zpos b1 -> of_N (N.ldiff (Npos b1) (Coq_Pos.pred_N a0))
       | Zneg b1 ->
         Zneg (N.succ_pos (N.coq_lor (Coq_Pos.pred_N a0) (Coq_Pos.pred_N b1))))

  (** val coq_lxor : z -> z -> z **)

  let coq_lxor a b =
    match a with
    | Z0 -> b
    | Zpos a0 ->
      (match b with
       | Z0 -> a
       | Zpos b1 -> of_N (Coq_Pos.coq_lxor a0 b1)
       | Zneg b1 ->
         Zneg (N.succ_pos (N.coq_lxor (Npos a0) (Coq_Pos.pred_N b1))))
    | Zneg a0 ->
      (match b with
       | Z0 -> a
       | Zpos b1 ->
         Zneg (N.succ_pos (N.coq_lxor (Coq_Pos.pred_N a0) (Npos b1)))
       | Zneg b1 -> of_N (N.coq_lxor (Coq_Pos.pred_N a0) (Coq_Pos.pred_N b1)))
 end

(** val nth_error : 'a1 list -> nat -> 'a1 option **)

let rec nth_error l = function
| O -> (match l with
        | [] -> None
        | x :: _ -> Some x)
| S n1 -> (match l with
           | [] -> None
           | _ :: l0 -> nth_error l0 n1)

(** val rev : 'a1 list -> 'a1 list **)

let rec rev = function
| [] -> []
| x :: l' -> app (rev l') (x :: [])

(** val rev_append : 'a1 list -> 'a1 list -> 'a1 list **)

let rec rev_append l l' =
  match l with
  | [] -> l'
  | a :: l0 -> rev_append l0 (a :: l')

(** val concat : 'a1 list list -> 'a1 list **)

let rec concat = function
| [] -> []
| x :: l0 -> app x (concat l0)

(** val map : ('a1 -> 'a2) -> 'a1 list -> 'a2 list **)

let rec map f = function
| [] -> []
| a :: t -> (f a) :: (map f t)

(** val flat_map : ('a1 -> 'a2 list) -> 'a1 list -> 'a2 list **)

let rec flat_map f = function
| [] -> []
| x :: t -> app (f x) (flat_map f t)

(** val fold_left : ('a1 -> 'a2 -> 'a1) -> 'a2 list -> 'a1 -> 'a1 **)

let rec fold_left f l a0 =
  match l with
  | [] -> a0
  | b :: t -> fold_left f t (f a0 b)

(** val existsb : ('a1 -> bool) -> 'a1 list -> bool **)

let rec existsb f = function
| [] -> false
| a :: l0 -> (||) (f a) (existsb f l0)

(** val forallb : ('a1 -> bool) -> 'a1 list -> bool **)

let rec forallb f = function
| [] -> true
| a :: l0 -> (&&) (f a) (forallb f l0)

(** val filter : ('a1 -> bool) -> 'a1 list -> 'a1 list **)

let rec filter f = function
| [] -> []
| x :: l0 -> if f x then x :: (filter f l0) else filter f l0

(** val find : ('a1 -> bool) -> 'a1 list -> 'a1 option **)

let rec find f = function
| [] -> None
| x :: tl -> if f x then Some x else find f tl

(** val combine : 'a1 list -> 'a2 list -> ('a1 * 'a2) list **)

let rec combine l l' =
  match l with
  | [] -> []
  | x :: tl ->
    (match l' with
     | [] -> []
     | y :: tl' -> (x, y) :: (combine tl tl'))

(** val firstn : nat -> 'a1 list -> 'a1 list **)

let rec firstn n0 l =
  match n0 with
  | O -> []
  | S n1 -> (match l with
             | [] -> []
             | a :: l0 -> a :: (firstn n1 l0))

(** val skipn : nat -> 'a1 list -> 'a1 list **)

let rec skipn n0 l =
  match n0 with
  | O -> l
  | S n1 -> (match l with
             | [] -> []
             | _ :: l0 -> skipn n1 l0)

(** val seq : nat -> nat -> nat list **)

let rec seq start = function
| O -> []
| S len0 -> start :: (seq (S start) len0)

(** val repeat : 'a1 -> nat -> 'a1 list **)

let rec repeat x = function
| O -> []
| S k -> x :: (repeat x k)

(** val eqb0 : byte -> byte -> bool **)

let eqb0 a b =
  let (a0, p) = to_bits a in
  let (a1, p0) = p in
  let (a2, p1) = p0 in
  let (a3, p2) = p1 in
  let (a4, p3) = p2 in
  let (a5, p4) = p3 in
  let (a6, a7) = p4 in
  let (b1, p5) = to_bits b in
  let (b2, p6) = p5 in
  let (b3, p7) = p6 in
  let (b4, p8) = p7 in
  let (b5, p9) = p8 in
  let (b6, p10) = p9 in
  let (b7, b8) = p10 in
  (&&)
    ((&&)
      ((&&)
        ((&&)
          ((&&) ((&&) ((&&) (eqb a0 b1) (eqb a1 b2)) (eqb a2 b3)) (eqb a3 b4))
          (eqb a4 b5)) (eqb a5 b6)) (eqb a6 b7)) (eqb a7 b8)

(** val to_N0 : byte -> n **)

let to_N0 = function
| X00 -> N0
| X01 -> Npos XH
| X02 -> Npos (XO XH)
| X03 -> Npos (XI XH)
| X04 -> Npos (XO (XO XH))
| X05 -> Npos (XI (XO XH))
| X06 -> Npos (XO (XI XH))
| X07 -> Npos (XI (XI XH))
| X08 -> Npos (XO (XO (XO XH)))
| X09 -> Npos (XI (XO (XO XH)))
| X0a -> Npos (XO (XI (XO XH)))
| X0b -> Npos (XI (XI (XO XH)))
| X0c -> Npos (XO (XO (XI XH)))
| X0d -> Npos (XI (XO (XI XH)))
| X0e -> Npos (XO (XI (XI XH)))
| X0f -> Npos (XI (XI (XI XH)))
| X10 -> Npos (XO (XO (XO (XO XH))))
| X11 -> Npos (XI (XO (XO (XO XH))))
| X12 -> Npos (XO (XI (XO (XO XH))))
| X13 -> Npos (XI (XI (XO (XO XH))))
| X14 -> Npos (XO (XO (XI (XO XH))))
| X15 -> Npos (XI (XO (XI (XO XH))))
| X16 -> Npos (XO (XI (XI (XO XH))))
| X17 -> Npos (XI (XI (XI (XO XH))))
| X18 -> Npos (XO (XO (XO (XI XH))))
| X19 -> Npos (XI (XO (XO (XI XH))))
| X1a -> Npos (XO (XI (XO (XI XH))))
| X1b -> Npos (XI (XI (XO (XI XH))))
| X1c -> Npos (XO (XO (XI (XI XH))))
| X1d -> Npos (XI (XO (XI (XI XH))))
| X1e -> Npos (XO (XI (XI (XI XH))))
| X1f -> Npos (XI (XI (XI (XI XH))))
| X20 -> Npos (XO (XO (XO (XO (XO XH)))))
| X21 -> Npos (XI (XO (XO (XO (XO XH)))))
| X22 -> Npos (XO (XI (XO (XO (XO XH)))))
| X23 -> Npos (XI (XI (XO (XO (XO XH)))))
| X24 -> Npos (XO (XO (XI (XO (XO XH)))))
| X25 -> Npos (XI (XO (XI (XO (XO XH)))))
| X26 -> Npos (XO (XI (XI (XO (XO XH)))))
| X27 -> Npos (XI (XI (XI (XO (XO XH)))))
| X28 -> Npos (XO (XO (XO (XI (XO XH)))))
| X29 -> Npos (XI (XO (XO (XI (XO XH)))))
| X2a -> Npos (XO (XI (XO (XI (XO XH)))))
| X2b -> Npos (XI (XI (XO (XI (XO XH)))))
| X2c -> Npos (XO (XO (XI (XI (XO XH)))))
| X2d -> Npos (XI (XO (XI (XI (XO XH)))))
| X2e -> Npos (XO (XI (XI (XI (XO XH)))))
| X2f -> Npos (XI (XI (XI (XI (XO XH)))))
| X30 -> Npos (XO (XO (XO (XO (XI XH)))))
| X31 -> Npos (XI (XO (XO (XO (XI XH)))))
| X32 -> Npos (XO (XI (XO (XO (XI XH)))))
| X33 -> Npos (XI (XI (XO (XO (XI XH)))))
| X34 -> Npos (XO (XO (XI (XO (XI XH)))))
| X35 -> Npos (XI (XO (XI (XO (XI XH)))))
| X36 -> Npos (XO (XI (XI (XO (XI XH)))))
| X37 -> Npos (XI (XI (XI (XO (XI XH)))))
| X38 -> Npos (XO (XO (XO (XI (XI XH)))))
| X39 -> Npos (XI (XO (XO (XI (XI XH)))))
| X3a -> Npos (XO (XI (XO (XI (XI XH)))))
| X3b -> Npos (XI (XI (XO (XI (XI XH)))))
| X3c -> Npos (XO (XO (XI (XI (XI XH)))))
| X3d -> Npos (XI (XO (XI (XI (XI XH)))))
| X3e -> Npos (XO (XI (XI (XI (XI XH)))))
| X3f -> Npos (XI (XI (XI (XI (XI XH)))))
| X40 -> Npos (XO (XO (XO (XO (XO (XO XH))))))
| X41 -> Npos (XI (XO (XO (XO (XO (XO XH))))))
| X42 -> Npos (XO (XI (XO (XO (XO (XO XH))))))
| X43 -> Npos (XI (XI (XO (XO (XO (XO XH))))))
| X44 -> Npos (XO (XO (XI (XO (XO (XO XH))))))
| X45 -> Npos (XI (XO (XI (XO (XO (XO XH))))))
| X46 -> Npos (XO (XI (XI (XO (XO (XO XH))))))
| X47 -> Npos (XI (XI (XI (XO (XO (XO XH))))))
| X48 -> Npos (XO (XO (XO (XI (XO (XO XH))))))
| X49 -> Npos (XI (XO (XO (XI (XO (XO XH))))))
| X4a -> Npos (XO (XI (XO (XI (XO (XO XH))))))
| X4b -> Npos (XI (XI (XO (XI (XO (XO XH))))))
| X4c -> Npos (XO (XO (XI (XI (XO (XO XH))))))
| X4d -> Npos (XI (XO (XI (XI (XO (XO XH))))))
| X4e -> Npos (XO (XI (XI (XI (XO (XO XH))))))
| X4f -> Npos (XI (XI (XI (XI (XO (XO XH))))))
| X50 -> Npos (XO (XO (XO (XO (XI (XO XH))))))
| X51 -> Npos (XI (XO (XO (XO (XI (XO XH))))))
| X52 -> Npos (XO (XI (XO (XO (XI (XO XH))))))
| X53 -> Npos (XI (XI (XO (XO (XI (XO XH))))))
| X54 -> Npos (XO (XO (XI (XO (XI (XO XH))))))
| X55 -> Npos (XI (XO (XI (XO (XI (XO XH))))))
| X56 -> Npos (XO (XI (XI (XO (XI (XO XH))))))
| X57 -> Npos (XI (XI (XI (XO (XI (XO XH))))))
| X58 -> Npos (XO (XO (XO (XI (XI (XO XH))))))
| X59 -> Npos (XI (XO (XO (XI (XI (XO XH))))))
| X5a -> Npos (XO (XI (XO (XI (XI (XO XH))))))
| X5b -> Npos (XI (XI (XO (XI (XI (XO XH))))))
| X5c -> Npos (XO (XO (XI (XI (XI (XO XH))))))
| X5d -> Npos (XI (XO (XI (XI (XI (XO XH))))))
| X5e -> Npos (XO (XI (XI (XI (XI (XO XH))))))
| X5f -> Npos (XI (XI (XI (XI (XI (XO XH))))))
| X60 -> Npos (XO (XO (XO (XO (XO (XI XH))))))
| X61 -> Npos (XI (XO (XO (XO (XO (XI XH))))))
| X62 -> Npos (XO (XI (XO (XO (XO (XI XH))))))
| X63 -> Npos (XI (XI (XO (XO (XO (XI XH))))))
| X64 -> Npos (XO (XO (XI (XO (XO (XI XH))))))
| X65 -> Npos (XI (XO (XI (XO (XO (XI XH))))))
| X66 -> Npos (XO (XI (XI (XO (XO (XI XH))))))
| X67 -> Npos (XI (XI (XI (XO (XO (XI XH))))))
| X68 -> Npos (XO (XO (XO (XI (XO (XI XH))))))
| X69 -> Npos (XI (XO (XO (XI (XO (XI XH))))))
| X6a -> Npos (XO (XI (XO (XI (XO (XI XH))))))
| X6b -> Npos (XI (XI (XO (XI (XO (XI XH))))))
| X6c -> Npos (XO (XO (XI (XI (XO (XI XH))))))
| X6d -> Npos (XI (XO (XI (XI (XO (XI XH))))))
| X6e -> Npos (XO (XI (XI (XI (XO (XI XH))))))
| X6f -> Npos (XI (XI (XI (XI (XO (XI XH))))))
| X70 -> Npos (XO (XO (XO (XO (XI (XI XH))))))
| X71 -> Npos (XI (XO (XO (XO (XI (XI XH))))))
| X72 -> Npos (XO (XI (XO (XO (XI (XI XH))))))
| X73 -> Npos (XI (XI (XO (XO (XI (XI XH))))))
| X74 -> Npos (XO (XO (XI (XO (XI (XI XH))))))
| X75 -> Npos (XI (XO (XI (XO (XI (XI XH))))))
| X76 -> Npos (XO (XI (XI (XO (XI (XI XH))))))
| X77 -> Npos (XI (XI (XI (XO (XI (XI XH))))))
| X78 -> Npos (XO (XO (XO (XI (XI (XI XH))))))
| X79 -> Npos (XI (XO (XO (XI (XI (XI XH))))))
| X7a -> Npos (XO (XI (XO (XI (XI (XI XH))))))
| X7b -> Npos (XI (XI (XO (XI (XI (XI XH))))))
| X7c -> Npos (XO (XO (XI (XI (XI (XI XH))))))
| X7d -> Npos (XI (XO (XI (XI (XI (XI XH))))))
| X7e -> Npos (XO (XI (XI (XI (XI (XI XH))))))
| X7f -> Npos (XI (XI (XI (XI (XI (XI XH))))))
| X80 -> Npos (XO (XO (XO (XO (XO (XO (XO XH)))))))
| X81 -> Npos (XI (XO (XO (XO (XO (XO (XO XH)))))))
| X82 -> Npos (XO (XI (XO (XO (XO (XO (XO XH)))))))
| X83 -> Npos (XI (XI (XO (XO (XO (XO (XO XH)))))))
| X84 -> Npos (XO (XO (XI (XO (XO (XO (XO XH)))))))
| X85 -> Npos (XI (XO (XI (XO (XO (XO (XO XH)))))))
| X86 -> Npos (XO (XI (XI (XO (XO (XO (XO XH)))))))
| X87 -> Npos (XI (XI (XI (XO (XO (XO (XO XH)))))))
| X88 -> Npos (XO (XO (XO (XI (XO (XO (XO XH)))))))
| X89 -> Npos (XI (XO (XO (XI (XO (XO (XO XH)))))))
| X8a -> Npos (XO (XI (XO (XI (XO (XO (XO XH)))))))
| X8b -> Npos (XI (XI (XO (XI (XO (XO (XO XH)))))))
| X8c -> Npos (XO (XO (XI (XI (XO (XO (XO XH)))))))
| X8d -> Npos (XI (XO (XI (XI (XO (XO (XO XH)))))))
| X8e -> Npos (XO (XI (XI (XI (XO (XO (XO XH)))))))
| X8f -> Npos (XI (XI (XI (XI (XO (XO (XO XH)))))))
| X90 -> Npos (XO (XO (XO (XO (XI (XO (XO XH)))))))
| X91 -> Npos (XI (XO (XO (XO (XI (XO (XO XH)))))))
| X92 -> Npos (XO (XI (XO (XO (XI (XO (XO XH)))))))
| X93 -> Npos (XI (XI (XO (XO (XI (XO (XO XH)))))))
| X94 -> Npos (XO (XO (XI (XO (XI (XO (XO XH)))))))
| X95 -> Npos (XI (XO (XI (XO (XI (XO (XO XH)))))))
| X96 -> Npos (XO (XI (XI (XO (XI (XO (XO XH)))))))
| X97 -> Npos (XI (XI (XI (XO (XI (XO (XO XH)))))))
| X98 -> Npos (XO (XO (XO (XI (XI (XO (XO XH)))))))
| X99 -> Npos (XI (XO (XO (XI (XI (XO (XO XH)))))))
| X9a -> Npos (XO (XI (XO (XI (XI (XO (XO XH)))))))
| X9b -> Npos (XI (XI (XO (XI (XI (XO (XO XH)))))))
| X9c -> Npos (XO (XO (XI (XI (XI (XO (XO XH)))))))
| X9d -> Npos (XI (XO (XI (XI (XI (XO (XO XH)))))))
| X9e -> Npos (XO (XI (XI (XI (XI (XO (XO XH)))))))
| X9f -> Npos (XI (XI (XI (XI (XI (XO (XO XH)))))))
| Xa0 -> Npos (XO (XO (XO (XO (XO (XI (XO XH)))))))
| Xa1 -> Npos (XI (XO (XO (XO (XO (XI (XO XH)))))))
| Xa2 -> Npos (XO (XI (XO (XO (XO (XI (XO XH)))))))
| Xa3 -> Npos (XI (XI (XO (XO (XO (XI (XO XH)))))))
| Xa4 -> Npos (XO (XO (XI (XO (XO (XI (XO XH)))))))
| Xa5 -> Npos (XI (XO (XI (XO (XO (XI (XO XH)))))))
| Xa6 -> Npos (XO (XI (XI (XO (XO (XI (XO XH)))))))
| Xa7 -> Npos (XI (XI (XI (XO (XO (XI (XO XH)))))))
| Xa8 -> Npos (XO (XO (XO (XI (XO (XI (XO XH)))))))
| Xa9 -> Npos (XI (XO (XO (XI (XO (XI (XO XH)))))))
| Xaa -> Npos (XO (XI (XO (XI (XO (XI (XO XH)))))))
| Xab -> Npos (XI (XI (XO (XI (XO (XI (XO XH)))))))
| Xac -> Npos (XO (XO (XI (XI (XO (XI (XO XH)))))))
| Xad -> Npos (XI (XO (XI (XI (XO (XI (XO XH)))))))
| Xae -> Npos (XO (XI (XI (XI (XO (XI (XO XH)))))))
| Xaf -> Npos (XI (XI (XI (XI (XO (XI (XO XH)))))))
| Xb0 -> Npos (XO (XO (XO (XO (XI (XI (XO XH)))))))
| Xb1 -> Npos (XI (XO (XO (XO (XI (XI (XO XH)))))))
| Xb2 -> Npos (XO (XI (XO (XO (XI (XI (XO XH)))))))
| Xb3 -> Npos (XI (XI (XO (XO (XI (XI (XO XH)))))))
| Xb4 -> Npos (XO (XO (XI (XO (XI (XI (XO XH)))))))
| Xb5 -> Npos (XI (XO (XI (XO (XI (XI (XO XH)))))))
| Xb6 -> Npos (XO (XI (XI (XO (XI (XI (XO XH)))))))
| Xb7 -> Npos (XI (XI (XI (XO (XI (XI (XO XH)))))))
| Xb8 -> Npos (XO (XO (XO (XI (XI (XI (XO XH)))))))
| Xb9 -> Npos (XI (XO (XO (XI (XI (XI (XO XH)))))))
| Xba -> Npos (XO (XI (XO (XI (XI (XI (XO XH)))))))
| Xbb -> Npos (XI (XI (XO (XI (XI (XI (XO XH)))))))
| Xbc -> Npos (XO (XO (XI (XI (XI (XI (XO XH)))))))
| Xbd -> Npos (XI (XO (XI (XI (XI (XI (XO XH)))))))
| Xbe -> Npos (XO (XI (XI (XI (XI (XI (XO XH)))))))
| Xbf -> Npos (XI (XI (XI (XI (XI (XI (XO XH)))))))
| Xc0 -> Npos (XO (XO (XO (XO (XO (XO (XI XH)))))))
| Xc1 -> Npos (XI (XO (XO (XO (XO (XO (XI XH)))))))
| Xc2 -> Npos (XO (XI (XO (XO (XO (XO (XI XH)))))))
| Xc3 -> Npos (XI (XI (XO (XO (XO (XO (XI XH)))))))
| Xc4 -> Npos (XO (XO (XI (XO (XO (XO (XI XH)))))))
| Xc5 -> Npos (XI (XO (XI (XO (XO (XO (XI XH)))))))
| Xc6 -> Npos (XO (XI (XI (XO (XO (XO (XI XH)))))))
| Xc7 -> Npos (XI (XI (XI (XO (XO (XO (XI XH)))))))
| Xc8 -> Npos (XO (XO (XO (XI (XO (XO (XI XH)))))))
| Xc9 -> Npos (XI (XO (XO (XI (XO (XO (XI XH)))))))
| Xca -> Npos (XO (XI (XO (XI (XO (XO (XI XH)))))))
| Xcb -> Npos (XI (XI (XO (XI (XO (XO (XI XH)))))))
| Xcc -> Npos (XO (XO (XI (XI (XO (XO (XI XH)))))))
| Xcd -> Npos (XI (XO (XI (XI (XO (XO (XI XH)))))))
| Xce -> Npos (XO (XI (XI (XI (XO (XO (XI XH)))))))
| Xcf -> Npos (XI (XI (XI (XI (XO (XO (XI XH)))))))
| Xd0 -> Npos (XO (XO (XO (XO (XI (XO (XI XH)))))))
| Xd1 -> Npos (XI (XO (XO (XO (XI (XO (XI XH)))))))
| Xd2 -> Npos (XO (XI (XO (XO (XI (XO (XI XH)))))))
| Xd3 -> Npos (XI (XI (XO (XO (XI (XO (XI XH)))))))
| Xd4 -> Npos (XO (XO (XI (XO (XI (XO (XI XH)))))))
| Xd5 -> Npos (XI (XO (XI (XO (XI (XO (XI XH)))))))
| Xd6 -> Npos (XO (XI (XI (XO (XI (XO (XI XH)))))))
| Xd7 -> Npos (XI (XI (XI (XO (XI (XO (XI XH)))))))
| Xd8 -> Npos (XO (XO (XO (XI (XI (XO (XI XH)))))))
| Xd9 -> Npos (XI (XO (XO (XI (XI (XO (XI XH)))))))
| Xda -> Npos (XO (XI (XO (XI (XI (XO (XI XH)))))))
| Xdb -> Npos (XI (XI (XO (XI (XI (XO (XI XH)))))))
| Xdc -> Npos (XO (XO (XI (XI (XI (XO (XI XH)))))))
| Xdd -> Npos (XI (XO (XI (XI (XI (XO (XI XH)))))))
| Xde -> Npos (XO (XI (XI (XI (XI (XO (XI XH)))))))
| Xdf -> Npos (XI (XI (XI (XI (XI (XO (XI XH)))))))
| Xe0 -> Npos (XO (XO (XO (XO (XO (XI (XI XH)))))))
| Xe1 -> Npos (XI (XO (XO (XO (XO (XI (XI XH)))))))
| Xe2 -> Npos (XO (XI (XO (XO (XO (XI (XI XH)))))))
| Xe3 -> Npos (XI (XI (XO (XO (XO (XI (XI XH)))))))
| Xe4 -> Npos (XO (XO (XI (XO (XO (XI (XI XH)))))))
| Xe5 -> Npos (XI (XO (XI (XO (XO (XI (XI XH)))))))
| Xe6 -> Npos (XO (XI (XI (XO (XO (XI (XI XH)))))))
| Xe7 -> Npos (XI (XI (XI (XO (XO (XI (XI XH)))))))
| Xe8 -> Npos (XO (XO (XO (XI (XO (XI (XI XH)))))))
| Xe9 -> Npos (XI (XO (XO (XI (XO (XI (XI XH)))))))
| Xea -> Npos (XO (XI (XO (XI (XO (XI (XI XH)))))))
| Xeb -> Npos (XI (XI (XO (XI (XO (XI (XI XH)))))))
| Xec -> Npos (XO (XO (XI (XI (XO (XI (XI XH)))))))
| Xed -> Npos (XI (XO (XI (XI (XO (XI (XI XH)))))))
| Xee -> Npos (XO (XI (XI (XI (XO (XI (XI XH)))))))
| Xef -> Npos (XI (XI (XI (XI (XO (XI (XI XH)))))))
| Xf0 -> Npos (XO (XO (XO (XO (XI (XI (XI XH)))))))
| Xf1 -> Npos (XI (XO (XO (XO (XI (XI (XI XH)))))))
| Xf2 -> Npos (XO (XI (XO (XO (XI (XI (XI XH)))))))
| Xf3 -> Npos (XI (XI (XO (XO (XI (XI (XI XH)))))))
| Xf4 -> Npos (XO (XO (XI (XO (XI (XI (XI XH)))))))
| Xf5 -> Npos (XI (XO (XI (XO (XI (XI (XI XH)))))))
| Xf6 -> Npos (XO (XI (XI (XO (XI (XI (XI XH)))))))
| Xf7 -> Npos (XI (XI (XI (XO (XI (XI (XI XH)))))))
| Xf8 -> Npos (XO (XO (XO (XI (XI (XI (XI XH)))))))
| Xf9 -> Npos (XI (XO (XO (XI (XI (XI (XI XH)))))))
| Xfa -> Npos (XO (XI (XO (XI (XI (XI (XI XH)))))))
| Xfb -> Npos (XI (XI (XO (XI (XI (XI (XI XH)))))))
| Xfc -> Npos (XO (XO (XI (XI (XI (XI (XI XH)))))))
| Xfd -> Npos (XI (XO (XI (XI (XI (XI (XI XH)))))))
| Xfe -> Npos (XO (XI (XI (XI (XI (XI (XI XH)))))))
| Xff -> Npos (XI (XI (XI (XI (XI (XI (XI XH)))))))

(** val of_N0 : n -> byte option **)

let of_N0 = function
| N0 -> Some X00
| Npos p ->
  (match p with
   | XI p0 ->
     (match p0 with
      | XI p1 ->
        (match p1 with
         | XI p2 ->
           (match p2 with
            | XI p3 ->
              (match p3 with
               | XI p4 ->
                 (match p4 with
                  | XI p5 ->
                    (match p5 with
                     | XI p6 -> (match p6 with
                                 | XH -> Some Xff
                                 | _ -> None)
                     | XO p6 -> (match p6 with
                                 | XH -> Some Xbf
                                 | _ -> None)
                     | XH -> Some X7f)
                  | XO p5 ->
                    (match p5 with
                     | XI p6 -> (match p6 with
                                 | XH -> Some Xdf
                                 | _ -> None)
                     | XO p6 -> (match p6 with
                                 | XH -> Some X9f
                                 | _ -> None)
                     | XH -> Some X5f)
                  | XH -> Some X3f)
               | XO p4 ->
                 (match p4 with
                  | XI p5 ->
                    (match p5 with
                     | XI p6 -> (match p6 with
                                 | XH -> Some Xef
                                 | _ -> None)
                     | XO p6 -> (match p6 with
                                 | XH -> Some Xaf
                                 | _ -> None)
                     | XH -> Some X6f)
                  | XO p5 ->
                    (match p5 with
                     | XI p6 -> (match p6 with
                                 | XH -> Some Xcf
                                 | _ -> None)
                     | XO p6 -> (match p6 with
                                 | XH -> Some X8f
                                 | _ -> None)
                     | XH -> Some X4f)
                  | XH -> Some X2f)
               | XH -> Some X1f)
            | XO p3 ->
              (match p3 with
               | XI p4 ->
                 (match p4 with
                  | XI p5 ->
                    (match p5 with
                     | XI p6 -> (match p6 with
                                 | XH -> Some Xf7
                                 | _ -> None)
                     | XO p6 -> (match p6 with
                                 | XH -> Some Xb7
                                 | _ -> None)
                     | XH -> Some X77)
                  | XO p5 ->
                    (match p5 with
                     | XI p6 -> (match p6 with
                                 | XH -> Some Xd7
                                 | _ -> None)
                     | XO p6 -> (match p6 with
                                 | XH -> Some X97
                                 | _ -> None)
                     | XH -> Some X57)
                  | XH -> Some X37)
               | XO p4 ->
                 (match p4 with
                  | XI p5 ->
                    (match p5 with
                     | XI p6 -> (match p6 with
                                 | XH -> Some Xe7
                                 | _ -> None)
                     | XO p6 -> (match p6 with
                                 | XH -> Some Xa7
                                 | _ -> None)
                     | XH -> Some X67)
                  | XO p5 ->
                    (match p5 with
                     | XI p6 -> (match p6 with
                                 | XH -> Some Xc7
                                 | _ -> None)
                     | XO p6 -> (match p6 with
                                 | XH -> Some X87
                                 | _ -> None)
                     | XH -> Some X47)
                  | XH -> Some X27)
               | XH -> Some X17)
            | XH -> Some X0f)
         | XO p2 ->
           (match p2 with
            | XI p3 ->
              (match p3 with
               | XI p4 ->
                 (match p4 with
                  | XI p5 ->
                    (match p5 with
                     | XI p6 -> (match p6 with
                                 | XH -> Some Xfb
                                 | _ -> None)
                     | XO p6 -> (match p6 with
                                 | XH -> Some Xbb
                                 | _ -> None)
                     | XH -> Some X7b)
                  | XO p5 ->
                    (match p5 with
                     | XI p6 -> (match p6 with
                                 | XH -> Some Xdb
                                 | _ -> None)
                     | XO p6 -> (match p6 with
                                 | XH -> Some X9b
                                 | _ -> None)
                     | XH -> Some X5b)
                  | XH -> Some X3b)
               | XO p4 ->
                 (match p4 with
                  | XI p5 ->
                    (match p5 with
                     | XI p6 -> (match p6 with
                                 | XH -> Some Xeb
                                 | _ -> None)
                     | XO p6 -> (match p6 with
                                 | XH -> Some Xab
                                 | _ -> None)
                     | XH -> Some X6b)
                  | XO p5 ->
                    (match p5 with
                     | XI p6 -> (match p6 with
                                 | XH -> Some Xcb
                                 | _ -> None)
                     | XO p6 -> (match p6 with
                                 | XH -> Some X8b
                                 | _ -> None)
                     | XH -> Some X4b)
                  | XH -> Some X2b)
               | XH -> Some X1b)
            | XO p3 ->
              (match p3 with
               | XI p4 ->
                 (match p4 with
                  | XI p5 ->
                    (match p5 with
                     | XI p6 -> (match p6 with
                                 | XH -> Some Xf3
                                 | _ -> None)
                     | XO p6 -> (match p6 with
                                 | XH -> Some Xb3
                                 | _ -> None)
                     | XH -> Some X73)
                  | XO p5 ->
                    (match p5 with
                     | XI p6 -> (match p6 with
                                 | XH -> Some Xd3
                                 | _ -> None)
                     | XO p6 -> (match p6 with
                                 | XH -> Some X93
                                 | _ -> None)
                     | XH -> Some X53)
                  | XH -> Some X33)
               | XO p4 ->
                 (match p4 with
                  | XI p5 ->
                    (match p5 with
                     | XI p6 -> (match p6 with
                                 | XH -> Some Xe3
                                 | _ -> None)
                     | XO p6 -> (match p6 with
                                 | XH -> Some Xa3
                                 | _ -> None)
                     | XH -> Some X63)
                  | XO p5 ->
                    (match p5 with
                     | XI p6 -> (match p6 with
                                 | XH -> Some Xc3
                                 | _ -> None)
                     | XO p6 -> (match p6 with
                                 | XH -> Some X83
                                 | _ -> None)
                     | XH -> Some X43)
                  | XH -> Some X23)
               | XH -> Some X13)
            | XH -> Some X0b)
         | XH -> Some X07)
      | XO p1 ->
        (match p1 with
         | XI p2 ->
           (match p2 with
            | XI p3 ->
              (match p3 with
               | XI p4 ->
                 (match p4 with
                  | XI p5 ->
                    (match p5 with
                     | XI p6 -> (match p6 with
                                 | XH -> Some Xfd
                                 | _ -> None)
                     | XO p6 -> (match p6 with
                                 | XH -> Some Xbd
                                 | _ -> None)
                     | XH -> Some X7d)
                  | XO p5 ->
                    (match p5 with
                     | XI p6 -> (match p6 with
                                 | XH -> Some Xdd
                                 | _ -> None)
                     | XO p6 -> (match p6 with
                                 | XH -> Some X9d
                                 | _ -> None)
                     | XH -> Some X5d)
                  | XH -> Some X3d)
               | XO p4 ->
                 (match p4 with
                  | XI p5 ->
                    (match p5 with
                     | XI p6 -> (match p6 with
                                 | XH -> Some Xed
                                 | _ -> None)
                     | XO p6 -> (match p6 with
                                 | XH -> Some Xad
                                 | _ -> None)
                     | XH -> Some X6d)
                  | XO p5 ->
                    (match p5 with
                     | XI p6 -> (match p6 with
                                 | XH -> Some Xcd
                                 | _ -> None)
                     | XO p6 -> (match p6 with
                                 | XH -> Some X8d
                                 | _ -> None)
                     | XH -> Some X4d)
                  | XH -> Some X2d)
               | XH -> Some X1d)
            | XO p3 ->
              (match p3 with
               | XI p4 ->
                 (match p4 with
                  | XI p5 ->
                    (match p5 with
                     | XI p6 -> (match p6 with
                                 | XH -> Some Xf5
                                 | _ -> None)
                     | XO p6 -> (match p6 with
                                 | XH -> Some Xb5
                                 | _ -> None)
                     | XH -> Some X75)
                  | XO p5 ->
                    (match p5 with
                     | XI p6 -> (match p6 with
                                 | XH -> Some Xd5
                                 | _ -> None)
                     | XO p6 -> (match p6 with
                                 | XH -> Some X95
                                 | _ -> None)
                     | XH -> Some X55)
                  | XH -> Some X35)
               | XO p4 ->
                 (match p4 with
                  | XI p5 ->
                    (match p5 with
                     | XI p6 -> (match p6 with
                                 | XH -> Some Xe5
                                 | _ -> None)
                     | XO p6 -> (match p6 with
                                 | XH -> Some Xa5
                                 | _ -> None)
                     | XH -> Some X65)
                  | XO p5 ->
                    (match p5 with
                     | XI p6 -> (match p6 with
                                 | XH -> Some Xc5
                                 | _ -> None)
                     | XO p6 -> (match p6 with
                                 | XH -> Some X85
                                 | _ -> None)
                     | XH -> Some X45)
                  | XH -> Some X25)
               | XH -> Some X15)
            | XH -> Some X0d)
         | XO p2 ->
           (match p2 with
            | XI p3 ->
              (match p3 with
               | XI p4 ->
                 (match p4 with
                  | XI p5 ->
                    (match p5 with
                     | XI p6 -> (match p6 with
                                 | XH -> Some Xf9
                                 | _ -> None)
                     | XO p6 -> (match p6 with
                                 | XH -> Some Xb9
                                 | _ -> None)
                     | XH -> Some X79)
                  | XO p5 ->
                    (match p5 with
                     | XI p6 -> (match p6 with
                                 | XH -> Some Xd9
                                 | _ -> None)
                     | XO p6 -> (match p6 with
                                 | XH -> Some X99
                                 | _ -> None)
                     | XH -> Some X59)
                  | XH -> Some X39)
               | XO p4 ->
                 (match p4 with
                  | XI p5 ->
                    (match p5 with
                     | XI p6 -> (match p6 with
                                 | XH -> Some Xe9
                                 | _ -> None)
                     | XO p6 -> (match p6 with
                                 | XH -> Some Xa9
                                 | _ -> None)
                     | XH -> Some X69)
                  | XO p5 ->
                    (match p5 with
                     | XI p6 -> (match p6 with
                                 | XH -> Some Xc9
                                 | _ -> None)
                     | XO p6 -> (match p6 with
                                 | XH -> Some X89
                                 | _ -> None)
                     | XH -> Some X49)
                  | XH -> Some X29)
               | XH -> Some X19)
            | XO p3 ->
              (match p3 with
               | XI p4 ->
                 (match p4 with
                  | XI p5 ->
                    (match p5 with
                     | XI p6 -> (match p6 with
                                 | XH -> Some Xf1
                                 | _ -> None)
                     | XO p6 -> (match p6 with
                                 | XH -> Some Xb1
                                 | _ -> None)
                     | XH -> Some X71)
                  | XO p5 ->
                    (match p5 with
                     | XI p6 -> (match p6 with
                                 | XH -> Some Xd1
                                 | _ -> None)
                     | XO p6 -> (match p6 with
                                 | XH -> Some X91
                                 | _ -> None)
                     | XH -> Some X51)
                  | XH -> Some X31)
               | XO p4 ->
                 (match p4 with
                  | XI p5 ->
                    (match p5 with
                     | XI p6 -> (match p6 with
                                 | XH -> Some Xe1
                                 | _ -> None)
                     | XO p6 -> (match p6 with
                                 | XH -> Some Xa1
                                 | _ -> None)
                     | XH -> Some X61)
                  | XO p5 ->
                    (match p5 with
                     | XI p6 -> (match p6 with
                                 | XH -> Some Xc1
                                 | _ -> None)
                     | XO p6 -> (match p6 with
                                 | XH -> Some X81
                                 | _ -> None)
                     | XH -> Some X41)
                  | XH -> Some X21)
               | XH -> Some X11)
            | XH -> Some X09)
         | XH -> Some X05)
      | XH -> Some X03)
   | XO p0 ->
     (match p0 with
      | XI p1 ->
        (match p1 with
         | XI p2 ->
           (match p2 with
            | XI p3 ->
              (match p3 with
               | XI p4 ->
                 (match p4 with
                  | XI p5 ->
                    (match p5 with
                     | XI p6 -> (match p6 with
                                 | XH -> Some Xfe
                                 | _ -> None)
                     | XO p6 -> (match p6 with
                                 | XH -> Some Xbe
                                 | _ -> None)
                     | XH -> Some X7e)
                  | XO p5 ->
                    (match p5 with
                     | XI p6 -> (match p6 with
                                 | XH -> Some Xde
                                 | _ -> None)
                     | XO p6 -> (match p6 with
                                 | XH -> Some X9e
                                 | _ -> None)
                     | XH -> Some X5e)
                  | XH -> Some X3e)
               | XO p4 ->
                 (match p4 with
                  | XI p5 ->
                    (match p5 with
                     | XI p6 -> (match p6 with
                                 | XH -> Some Xee
                                 | _ -> None)
                     | XO p6 -> (match p6 with
                                 | XH -> Some Xae
                                 | _ -> None)
                     | XH -> Some X6e)
                  | XO p5 ->
                    (match p5 with
                     | XI p6 -> (match p6 with
                                 | XH -> Some Xce
                                 | _ -> None)
                     | XO p6 -> (match p6 with
                                 | XH -> Some X8e
                                 | _ -> None)
                     | XH -> Some X4e)
                  | XH -> Some X2e)
               | XH -> Some X1e)
            | XO p3 ->
              (match p3 with
               | XI p4 ->
                 (match p4 with
                  | XI p5 ->
                    (match p5 with
                     | XI p6 -> (match p6 with
                                 | XH -> Some Xf6
                                 | _ -> None)
                     | XO p6 -> (match p6 with
                                 | XH -> Some Xb6
                                 | _ -> None)
                     | XH -> Some X76)
                  | XO p5 ->
                    (match p5 with
                     | XI p6 -> (match p6 with
                                 | XH -> Some Xd6
                                 | _ -> None)
                     | XO p6 -> (match p6 with
                                 | XH -> Some X96
                                 | _ -> None)
                     | XH -> Some X56)
                  | XH -> Some X36)
               | XO p4 ->
                 (match p4 with
                  | XI p5 ->
                    (match p5 with
                     | XI p6 -> (match p6 with
                                 | XH -> Some Xe6
                                 | _ -> None)
                     | XO p6 -> (match p6 with
                                 | XH -> Some Xa6
                                 | _ -> None)
                     | XH -> Some X66)
                  | XO p5 ->
                    (match p5 with
                     | XI p6 -> (match p6 with
                                 | XH -> Some Xc6
                                 | _ -> None)
                     | XO p6 -> (match p6 with
                                 | XH -> Some X86
                                 | _ -> None)
                     | XH -> Some X46)
                  | XH -> Some X26)
               | XH -> Some X16)
            | XH -> Some X0e)
         | XO p2 ->
           (match p2 with
            | XI p3 ->
              (match p3 with
               | XI p4 ->
                 (match p4 with
                  | XI p5 ->
                    (match p5 with
                     | XI p6 -> (match p6 with
                                 | XH -> Some Xfa
                                 | _ -> None)
                     | XO p6 -> (match p6 with
                                 | XH -> Some Xba
                                 | _ -> None)
                     | XH -> Some X7a)
                  | XO p5 ->
                    (match p5 with
                     | XI p6 -> (match p6 with
                                 | XH -> Some Xda
                                 | _ -> None)
                     | XO p6 -> (match p6 with
                                 | XH -> Some X9a
                                 | _ -> None)
                     | XH -> Some X5a)
                  | XH -> Some X3a)
               | XO p4 ->
                 (match p4 with
                  | XI p5 ->
                    (match p5 with
                     | XI p6 -> (match p6 with
                                 | XH -> Some Xea
                                 | _ -> None)
                     | XO p6 -> (match p6 with
                                 | XH -> Some Xaa
                                 | _ -> None)
                     | XH -> Some X6a)
                  | XO p5 ->
                    (match p5 with
                     | XI p6 -> (match p6 with
                                 | XH -> Some Xca
                                 | _ -> None)
                     | XO p6 -> (match p6 with
                                 | XH -> Some X8a
                                 | _ -> None)
                     | XH -> Some X4a)
                  | XH -> Some X2a)
               | XH -> Some X1a)
            | XO p3 ->
              (match p3 with
               | XI p4 ->
                 (match p4 with
                  | XI p5 ->
                    (match p5 with
                     | XI p6 -> (match p6 with
                                 | XH -> Some Xf2
                                 | _ -> None)
                     | XO p6 -> (match p6 with
                                 | XH -> Some Xb2
                                 | _ -> None)
                     | XH -> Some X72)
                  | XO p5 ->
                    (match p5 with
                     | XI p6 -> (match p6 with
                                 | XH -> Some Xd2
                                 | _ -> None)
                     | XO p6 -> (match p6 with
                                 | XH -> Some X92
                                 | _ -> None)
                     | XH -> Some X52)
                  | XH -> Some X32)
               | XO p4 ->
                 (match p4 with
                  | XI p5 ->
                    (match p5 with
                     | XI p6 -> (match p6 with
                                 | XH -> Some Xe2
                                 | _ -> None)
                     | XO p6 -> (match p6 with
                                 | XH -> Some Xa2
                                 | _ -> None)
                     | XH -> Some X62)
                  | XO p5 ->
                    (match p5 with
                     | XI p6 -> (match p6 with
                                 | XH -> Some Xc2
                                 | _ -> None)
                     | XO p6 -> (match p6 with
                                 | XH -> Some X82
                                 | _ -> None)
                     | XH -> Some X42)
                  | XH -> Some X22)
               | XH -> Some X12)
            | XH -> Some X0a)
         | XH -> Some X06)
      | XO p1 ->
        (match p1 with
         | XI p2 ->
           (match p2 with
            | XI p3 ->
              (match p3 with
               | XI p4 ->
                 (match p4 with
                  | XI p5 ->
                    (match p5 with
                     | XI p6 -> (match p6 with
                                 | XH -> Some Xfc
                                 | _ -> None)
                     | XO p6 -> (match p6 with
                                 | XH -> Some Xbc
                                 | _ -> None)
                     | XH -> Some X7c)
                  | XO p5 ->
                    (match p5 with
                     | XI p6 -> (match p6 with
                                 | XH -> Some Xdc
                                 | _ -> None)
                     | XO p6 -> (match p6 with
                                 | XH -> Some X9c
                                 | _ -> None)
                     | XH -> Some X5c)
                  | XH -> Some X3c)
               | XO p4 ->
                 (match p4 with
                  | XI p5 ->
                    (match p5 with
                     | XI p6 -> (match p6 with
                                 | XH -> Some Xec
                                 | _ -> None)
                     | XO p6 -> (match p6 with
                                 | XH -> Some Xac
                                 | _ -> None)
                     | XH -> Some X6c)
                  | XO p5 ->
                    (match p5 with
                     | XI p6 -> (match p6 with
                                 | XH -> Some Xcc
                                 | _ -> None)
                     | XO p6 -> (match p6 with
                                 | XH -> Some X8c
                                 | _ -> None)
                     | XH -> Some X4c)
                  | XH -> Some X2c)
               | XH -> Some X1c)
            | XO p3 ->
              (match p3 with
               | XI p4 ->
                 (match p4 with
                  | XI p5 ->
                    (match p5 with
                     | XI p6 -> (match p6 with
                                 | XH -> Some Xf4
                                 | _ -> None)
                     | XO p6 -> (match p6 with
                                 | XH -> Some Xb4
                                 | _ -> None)
                     | XH -> Some X74)
                  | XO p5 ->
                    (match p5 with
                     | XI p6 -> (match p6 with
                                 | XH -> Some Xd4
                                 | _ -> None)
                     | XO p6 -> (match p6 with
                                 | XH -> Some X94
                                 | _ -> None)
                     | XH -> Some X54)
                  | XH -> Some X34)
               | XO p4 ->
                 (match p4 with
                  | XI p5 ->
                    (match p5 with
                     | XI p6 -> (match p6 with
                                 | XH -> Some Xe4
                                 | _ -> None)
                     | XO p6 -> (match p6 with
                                 | XH -> Some Xa4
                                 | _ -> None)
                     | XH -> Some X64)
                  | XO p5 ->
                    (match p5 with
                     | XI p6 -> (match p6 with
                                 | XH -> Some Xc4
                                 | _ -> None)
                     | XO p6 -> (match p6 with
                                 | XH -> Some X84
                                 | _ -> None)
                     | XH -> Some X44)
                  | XH -> Some X24)
               | XH -> Some X14)
            | XH -> Some X0c)
         | XO p2 ->
           (match p2 with
            | XI p3 ->
              (match p3 with
               | XI p4 ->
                 (match p4 with
                  | XI p5 ->
                    (match p5 with
                     | XI p6 -> (match p6 with
                                 | XH -> Some Xf8
                                 | _ -> None)
                     | XO p6 -> (match p6 with
                                 | XH -> Some Xb8
                                 | _ -> None)
                     | XH -> Some X78)
                  | XO p5 ->
                    (match p5 with
                     | XI p6 -> (match p6 with
                                 | XH -> Some Xd8
                                 | _ -> None)
                     | XO p6 -> (match p6 with
                                 | XH -> Some X98
                                 | _ -> None)
                     | XH -> Some X58)
                  | XH -> Some X38)
               | XO p4 ->
                 (match p4 with
                  | XI p5 ->
                    (match p5 with
                     | XI p6 -> (match p6 with
                                 | XH -> Some Xe8
                                 | _ -> None)
                     | XO p6 -> (match p6 with
                                 | XH -> Some Xa8
                                 | _ -> None)
                     | XH -> Some X68)
                  | XO p5 ->
                    (match p5 with
                     | XI p6 -> (match p6 with
                                 | XH -> Some Xc8
                                 | _ -> None)
                     | XO p6 -> (match p6 with
                                 | XH -> Some X88
                                 | _ -> None)
                     | XH -> Some X48)
                  | XH -> Some X28)
               | XH -> Some X18)
            | XO p3 ->
              (match p3 with
               | XI p4 ->
                 (match p4 with
                  | XI p5 ->
                    (match p5 with
                     | XI p6 -> (match p6 with
                                 | XH -> Some Xf0
                                 | _ -> None)
                     | XO p6 -> (match p6 with
                                 | XH -> Some Xb0
                                 | _ -> None)
                     | XH -> Some X70)
                  | XO p5 ->
                    (match p5 with
                     | XI p6 -> (match p6 with
                                 | XH -> Some Xd0
                                 | _ -> None)
                     | XO p6 -> (match p6 with
                                 | XH -> Some X90
                                 | _ -> None)
                     | XH -> Some X50)
                  | XH -> Some X30)
               | XO p4 ->
                 (match p4 with
                  | XI p5 ->
                    (match p5 with
                     | XI p6 -> (match p6 with
                                 | XH -> Some Xe0
                                 | _ -> None)
                     | XO p6 -> (match p6 with
                                 | XH -> Some Xa0
                                 | _ -> None)
                     | XH -> Some X60)
                  | XO p5 ->
                    (match p5 with
                     | XI p6 -> (match p6 with
                                 | XH -> Some Xc0
                                 | _ -> None)
                     | XO p6 -> (match p6 with
                                 | XH -> Some X80
                                 | _ -> None)
                     | XH -> Some X40)
                  | XH -> Some X20)
               | XH -> Some X10)
            | XH -> Some X08)
         | XH -> Some X04)
      | XH -> Some X02)
   | XH -> Some X01)

type ascii =
| Ascii of bool * bool * bool * bool * bool * bool * bool * bool

(** val byte_of_ascii : ascii -> byte **)

let byte_of_ascii = function
| Ascii (b1, b2, b3, b4, b5, b6, b7, b8) ->
  of_bits (b1, (b2, (b3, (b4, (b5, (b6, (b7, b8)))))))

type string =
| EmptyString
| String of ascii * string

(** val list_ascii_of_string : string -> ascii list **)

let rec list_ascii_of_string = function
| EmptyString -> []
| String (ch, s0) -> ch :: (list_ascii_of_string s0)

(** val list_byte_of_string : string -> byte list **)

let list_byte_of_string s =
  map byte_of_ascii (list_ascii_of_string s)

type bytes = byte list

(** val b2n : byte -> n **)

let b2n =
  to_N0

(** val b2z : byte -> z **)

let b2z b =
  Z.of_N (to_N0 b)

(** val n2b : n -> byte **)

let n2b n0 =
  match of_N0 (N.modulo n0 (Npos (XO (XO (XO (XO (XO (XO (XO (XO XH)))))))))) with
  | Some b -> b
  | None -> X00

(** val z2b : z -> byte **)

let z2b z0 =
  n2b (Z.to_N (Z.modulo z0 (Zpos (XO (XO (XO (XO (XO (XO (XO (XO XH)))))))))))

(** val bs : string -> bytes **)

let bs =
  list_byte_of_string

(** val bytes_eqb : bytes -> bytes -> bool **)

let rec bytes_eqb a b =
  match a with
  | [] -> (match b with
           | [] -> true
           | _ :: _ -> false)
  | x :: a' ->
    (match b with
     | [] -> false
     | y :: b' -> (&&) (eqb0 x y) (bytes_eqb a' b'))

(** val is_upper : byte -> bool **)

let is_upper b =
  (&&) (N.leb (Npos (XI (XO (XO (XO (XO (XO XH))))))) (b2n b))
    (N.leb (b2n b) (Npos (XO (XI (XO (XI (XI (XO XH))))))))

(** val is_lower : byte -> bool **)

let is_lower b =
  (&&) (N.leb (Npos (XI (XO (XO (XO (XO (XI XH))))))) (b2n b))
    (N.leb (b2n b) (Npos (XO (XI (XO (XI (XI (XI XH))))))))

(** val is_alpha : byte -> bool **)

let is_alpha b =
  (||) (is_upper b) (is_lower b)

(** val is_digit : byte -> bool **)

let is_digit b =
  (&&) (N.leb (Npos (XO (XO (XO (XO (XI XH)))))) (b2n b))
    (N.leb (b2n b) (Npos (XI (XO (XO (XI (XI XH)))))))

(** val is_ascii : byte -> bool **)

let is_ascii b =
  N.ltb (b2n b) (Npos (XO (XO (XO (XO (XO (XO (XO XH))))))))

(** val is_vchar : byte -> bool **)

let is_vchar b =
  (&&) (N.leb (Npos (XI (XO (XO (XO (XO XH)))))) (b2n b))
    (N.leb (b2n b) (Npos (XO (XI (XI (XI (XI (XI XH))))))))

(** val is_ows : byte -> bool **)

let is_ows = function
| X09 -> true
| X20 -> true
| _ -> false

(** val to_lower : byte -> byte **)

let to_lower b =
  if is_upper b
  then n2b (N.add (b2n b) (Npos (XO (XO (XO (XO (XO XH)))))))
  else b

(** val eq_ic : bytes -> bytes -> bool **)

let rec eq_ic a b =
  match a with
  | [] -> (match b with
           | [] -> true
           | _ :: _ -> false)
  | x :: a' ->
    (match b with
     | [] -> false
     | y :: b' -> (&&) (eqb0 (to_lower x) (to_lower y)) (eq_ic a' b'))

(** val drop_while : ('a1 -> bool) -> 'a1 list -> 'a1 list **)

let rec drop_while p l = match l with
| [] -> []
| x :: r -> if p x then drop_while p r else l

(** val trim_start : (byte -> bool) -> bytes -> bytes **)

let trim_start =
  drop_while

(** val frev : 'a1 list -> 'a1 list **)

let frev l =
  rev_append l []

(** val trim_end : (byte -> bool) -> bytes -> bytes **)

let trim_end p l =
  rev (drop_while p (rev l))

(** val trim_both : (byte -> bool) -> bytes -> bytes **)

let trim_both p l =
  trim_end p (trim_start p l)

(** val split_on : byte -> bytes -> bytes list **)

let rec split_on sep = function
| [] -> [] :: []
| x :: r ->
  if eqb0 x sep
  then [] :: (split_on sep r)
  else (match split_on sep r with
        | [] -> (x :: []) :: []
        | p :: ps -> (x :: p) :: ps)

(** val find_index : ('a1 -> bool) -> 'a1 list -> nat option **)

let rec find_index p = function
| [] -> None
| x :: r ->
  if p x then Some O else option_map (fun x0 -> S x0) (find_index p r)

(** val is_prefix : bytes -> bytes -> bool **)

let rec is_prefix p l =
  match p with
  | [] -> true
  | x :: p' ->
    (match l with
     | [] -> false
     | y :: l' -> (&&) (eqb0 x y) (is_prefix p' l'))

(** val strip_prefix : bytes -> bytes -> bytes option **)

let rec strip_prefix p l =
  match p with
  | [] -> Some l
  | x :: p' ->
    (match l with
     | [] -> None
     | y :: l' -> if eqb0 x y then strip_prefix p' l' else None)

(** val sECS_PER_DAY : z **)

let sECS_PER_DAY =
  Zpos (XO (XO (XO (XO (XO (XO (XO (XI (XI (XO (XO (XO (XI (XO (XI (XO
    XH))))))))))))))))

(** val lEAPOCH : z **)

let lEAPOCH =
  Zpos (XI (XO (XO (XI (XO (XO (XO (XO (XI (XI (XO (XI (XO XH)))))))))))))

(** val dAYS_PER_400Y : z **)

let dAYS_PER_400Y =
  Z.add
    (Z.mul (Zpos (XI (XO (XI (XI (XO (XI (XI (XO XH))))))))) (Zpos (XO (XO
      (XO (XO (XI (XO (XO (XI XH)))))))))) (Zpos (XI (XO (XO (XO (XO (XI
    XH)))))))

(** val dAYS_PER_100Y : z **)

let dAYS_PER_100Y =
  Z.add
    (Z.mul (Zpos (XI (XO (XI (XI (XO (XI (XI (XO XH))))))))) (Zpos (XO (XO
      (XI (XO (XO (XI XH)))))))) (Zpos (XO (XO (XO (XI XH)))))

(** val dAYS_PER_4Y : z **)

let dAYS_PER_4Y =
  Z.add
    (Z.mul (Zpos (XI (XO (XI (XI (XO (XI (XI (XO XH))))))))) (Zpos (XO (XO
      XH)))) (Zpos XH)

(** val mONTHS : z list **)

let mONTHS =
  (Zpos (XI (XI (XI (XI XH))))) :: ((Zpos (XO (XI (XI (XI XH))))) :: ((Zpos
    (XI (XI (XI (XI XH))))) :: ((Zpos (XO (XI (XI (XI XH))))) :: ((Zpos (XI
    (XI (XI (XI XH))))) :: ((Zpos (XI (XI (XI (XI XH))))) :: ((Zpos (XO (XI
    (XI (XI XH))))) :: ((Zpos (XI (XI (XI (XI XH))))) :: ((Zpos (XO (XI (XI
    (XI XH))))) :: ((Zpos (XI (XI (XI (XI XH))))) :: ((Zpos (XI (XI (XI (XI
    XH))))) :: ((Zpos (XI (XO (XI (XI XH))))) :: [])))))))))))

(** val walk : z list -> z -> z -> z * z **)

let rec walk ms rd0 idx =
  match ms with
  | [] -> (idx, rd0)
  | ml :: r ->
    if Z.ltb rd0 ml
    then (idx, rd0)
    else walk r (Z.sub rd0 ml) (Z.add idx (Zpos XH))

(** val civil : z -> ((z * z) * z) * z **)

let civil days =
  let days_total = Z.sub days lEAPOCH in
  let wday0 = Z.modulo (Z.add (Zpos (XI XH)) days_total) (Zpos (XI (XI XH)))
  in
  let wday = if Z.leb wday0 Z0 then Z.add wday0 (Zpos (XI (XI XH))) else wday0
  in
  let qc_cycles = Z.div days_total dAYS_PER_400Y in
  let remdays = Z.modulo days_total dAYS_PER_400Y in
  let c0 = Z.div remdays dAYS_PER_100Y in
  let c_cycles =
    if Z.eqb c0 (Zpos (XO (XO XH))) then Z.sub c0 (Zpos XH) else c0
  in
  let remdays0 = Z.sub remdays (Z.mul c_cycles dAYS_PER_100Y) in
  let q0 = Z.div remdays0 dAYS_PER_4Y in
  let q_cycles =
    if Z.eqb q0 (Zpos (XI (XO (XO (XI XH))))) then Z.sub q0 (Zpos XH) else q0
  in
  let remdays1 = Z.sub remdays0 (Z.mul q_cycles dAYS_PER_4Y) in
  let y0 = Z.div remdays1 (Zpos (XI (XO (XI (XI (XO (XI (XI (XO XH))))))))) in
  let remyears =
    if Z.eqb y0 (Zpos (XO (XO XH))) then Z.sub y0 (Zpos XH) else y0
  in
  let remdays2 =
    Z.sub remdays1
      (Z.mul remyears (Zpos (XI (XO (XI (XI (XO (XI (XI (XO XH))))))))))
  in
  let year =
    Z.add
      (Z.add
        (Z.add
          (Z.add (Zpos (XO (XO (XO (XO (XI (XO (XI (XI (XI (XI XH)))))))))))
            remyears) (Z.mul (Zpos (XO (XO XH))) q_cycles))
        (Z.mul (Zpos (XO (XO (XI (XO (XO (XI XH))))))) c_cycles))
      (Z.mul (Zpos (XO (XO (XO (XO (XI (XO (XO (XI XH))))))))) qc_cycles)
  in
  let (mon_idx, rd0) = walk mONTHS remdays2 Z0 in
  let mday = Z.add rd0 (Zpos XH) in
  let mon = Z.add mon_idx (Zpos (XI XH)) in
  if Z.gtb mon (Zpos (XO (XO (XI XH))))
  then ((((Z.add year (Zpos XH)), (Z.sub mon (Zpos (XO (XO (XI XH)))))),
         mday), wday)
  else (((year, mon), mday), wday)

(** val wDAY_STRS : bytes **)

let wDAY_STRS =
  bs (String ((Ascii (true, false, true, true, false, false, true, false)),
    (String ((Ascii (true, true, true, true, false, true, true, false)),
    (String ((Ascii (false, true, true, true, false, true, true, false)),
    (String ((Ascii (false, false, true, false, true, false, true, false)),
    (String ((Ascii (true, false, true, false, true, true, true, false)),
    (String ((Ascii (true, false, true, false, false, true, true, false)),
    (String ((Ascii (true, true, true, false, true, false, true, false)),
    (String ((Ascii (true, false, true, false, false, true, true, false)),
    (String ((Ascii (false, false, true, false, false, true, true, false)),
    (String ((Ascii (false, false, true, false, true, false, true, false)),
    (String ((Ascii (false, false, false, true, false, true, true, false)),
    (String ((Ascii (true, false, true, false, true, true, true, false)),
    (String ((Ascii (false, true, true, false, false, false, true, false)),
    (String ((Ascii (false, true, false, false, true, true, true, false)),
    (String ((Ascii (true, false, false, true, false, true, true, false)),
    (String ((Ascii (true, true, false, false, true, false, true, false)),
    (String ((Ascii (true, false, false, false, false, true, true, false)),
    (String ((Ascii (false, false, true, false, true, true, true, false)),
    (String ((Ascii (true, true, false, false, true, false, true, false)),
    (String ((Ascii (true, false, true, false, true, true, true, false)),
    (String ((Ascii (false, true, true, true, false, true, true, false)),
    EmptyString))))))))))))))))))))))))))))))))))))))))))

(** val mON_STRS : bytes **)

let mON_STRS =
  bs (String ((Ascii (false, true, false, true, false, false, true, false)),
    (String ((Ascii (true, false, false, false, false, true, true, false)),
    (String ((Ascii (false, true, true, true, false, true, true, false)),
    (String ((Ascii (false, true, true, false, false, false, true, false)),
    (String ((Ascii (true, false, true, false, false, true, true, false)),
    (String ((Ascii (false, true, false, false, false, true, true, false)),
    (String ((Ascii (true, false, true, true, false, false, true, false)),
    (String ((Ascii (true, false, false, false, false, true, true, false)),
    (String ((Ascii (false, true, false, false, true, true, true, false)),
    (String ((Ascii (true, false, false, false, false, false, true, false)),
    (String ((Ascii (false, false, false, false, true, true, true, false)),
    (String ((Ascii (false, true, false, false, true, true, true, false)),
    (String ((Ascii (true, false, true, true, false, false, true, false)),
    (String ((Ascii (true, false, false, false, false, true, true, false)),
    (String ((Ascii (true, false, false, true, true, true, true, false)),
    (String ((Ascii (false, true, false, true, false, false, true, false)),
    (String ((Ascii (true, false, true, false, true, true, true, false)),
    (String ((Ascii (false, true, true, true, false, true, true, false)),
    (String ((Ascii (false, true, false, true, false, false, true, false)),
    (String ((Ascii (true, false, true, false, true, true, true, false)),
    (String ((Ascii (false, false, true, true, false, true, true, false)),
    (String ((Ascii (true, false, false, false, false, false, true, false)),
    (String ((Ascii (true, false, true, false, true, true, true, false)),
    (String ((Ascii (true, true, true, false, false, true, true, false)),
    (String ((Ascii (true, true, false, false, true, false, true, false)),
    (String ((Ascii (true, false, true, false, false, true, true, false)),
    (String ((Ascii (false, false, false, false, true, true, true, false)),
    (String ((Ascii (true, true, true, true, false, false, true, false)),
    (String ((Ascii (true, true, false, false, false, true, true, false)),
    (String ((Ascii (false, false, true, false, true, true, true, false)),
    (String ((Ascii (false, true, true, true, false, false, true, false)),
    (String ((Ascii (true, true, true, true, false, true, true, false)),
    (String ((Ascii (false, true, true, false, true, true, true, false)),
    (String ((Ascii (false, false, true, false, false, false, true, false)),
    (String ((Ascii (true, false, true, false, false, true, true, false)),
    (String ((Ascii (true, true, false, false, false, true, true, false)),
    EmptyString))))))))))))))))))))))))))))))))))))))))))))))))))))))))))))))))))))))))

(** val slice3 : bytes -> z -> bytes **)

let slice3 l off =
  firstn (S (S (S O))) (skipn (Z.to_nat off) l)

(** val write_2d : z -> bytes **)

let write_2d v =
  let v0 = Z.modulo v (Zpos (XO (XO (XO (XO (XO (XO (XO (XO XH))))))))) in
  (z2b
    (Z.add (Zpos (XO (XO (XO (XO (XI XH))))))
      (Z.div v0 (Zpos (XO (XI (XO XH))))))) :: ((z2b
                                                  (Z.add (Zpos (XO (XO (XO
                                                    (XO (XI XH))))))
                                                    (Z.modulo v0 (Zpos (XO
                                                      (XI (XO XH))))))) :: [])

(** val write_4d : z -> bytes **)

let write_4d v =
  let v0 =
    Z.modulo v (Zpos (XO (XO (XO (XO (XO (XO (XO (XO (XO (XO (XO (XO (XO (XO
      (XO (XO XH)))))))))))))))))
  in
  (z2b
    (Z.add (Zpos (XO (XO (XO (XO (XI XH))))))
      (Z.modulo
        (Z.div v0 (Zpos (XO (XO (XO (XI (XO (XI (XI (XI (XI XH)))))))))))
        (Zpos (XO (XO (XO (XO (XO (XO (XO (XO XH)))))))))))) :: ((z2b
                                                                   (Z.add
                                                                    (Zpos (XO
                                                                    (XO (XO
                                                                    (XO (XI
                                                                    XH))))))
                                                                    (Z.modulo
                                                                    (Z.div v0
                                                                    (Zpos (XO
                                                                    (XO (XI
                                                                    (XO (XO
                                                                    (XI
                                                                    XH))))))))
                                                                    (Zpos (XO
                                                                    (XI (XO
                                                                    XH))))))) :: (
  (z2b
    (Z.add (Zpos (XO (XO (XO (XO (XI XH))))))
      (Z.modulo (Z.div v0 (Zpos (XO (XI (XO XH))))) (Zpos (XO (XI (XO XH))))))) :: (
  (z2b
    (Z.add (Zpos (XO (XO (XO (XO (XI XH))))))
      (Z.modulo v0 (Zpos (XO (XI (XO XH))))))) :: [])))

(** val format_http_date : z -> bytes **)

let format_http_date secs =
  let days = Z.div secs sECS_PER_DAY in
  let secs_of_day = Z.modulo secs sECS_PER_DAY in
  let (p, wday) = civil days in
  let (p0, mday) = p in
  let (year, mon) = p0 in
  let woff = Z.mul (Z.sub wday (Zpos XH)) (Zpos (XI XH)) in
  let moff = Z.mul (Z.sub mon (Zpos XH)) (Zpos (XI XH)) in
  let hour =
    Z.div secs_of_day (Zpos (XO (XO (XO (XO (XI (XO (XO (XO (XO (XI (XI
      XH))))))))))))
  in
  let rem =
    Z.modulo secs_of_day (Zpos (XO (XO (XO (XO (XI (XO (XO (XO (XO (XI (XI
      XH))))))))))))
  in
  let min0 = Z.div rem (Zpos (XO (XO (XI (XI (XI XH)))))) in
  let sec = Z.modulo rem (Zpos (XO (XO (XI (XI (XI XH)))))) in
  app
    (bs (String ((Ascii (false, false, true, false, false, true, true,
      false)), (String ((Ascii (true, false, false, false, false, true, true,
      false)), (String ((Ascii (false, false, true, false, true, true, true,
      false)), (String ((Ascii (true, false, true, false, false, true, true,
      false)), (String ((Ascii (false, true, false, true, true, true, false,
      false)), (String ((Ascii (false, false, false, false, false, true,
      false, false)), EmptyString)))))))))))))
    (app (slice3 wDAY_STRS woff)
      (app
        (bs (String ((Ascii (false, false, true, true, false, true, false,
          false)), (String ((Ascii (false, false, false, false, false, true,
          false, false)), EmptyString)))))
        (app (write_2d mday)
          (app
            (bs (String ((Ascii (false, false, false, false, false, true,
              false, false)), EmptyString)))
            (app (slice3 mON_STRS moff)
              (app
                (bs (String ((Ascii (false, false, false, false, false, true,
                  false, false)), EmptyString)))
                (app (write_4d year)
                  (app
                    (bs (String ((Ascii (false, false, false, false, false,
                      true, false, false)), EmptyString)))
                    (app (write_2d hour)
                      (app
                        (bs (String ((Ascii (false, true, false, true, true,
                          true, false, false)), EmptyString)))
                        (app (write_2d min0)
                          (app
                            (bs (String ((Ascii (false, true, false, true,
                              true, true, false, false)), EmptyString)))
                            (app (write_2d sec)
                              (app
                                (bs (String ((Ascii (false, false, false,
                                  false, false, true, false, false)), (String
                                  ((Ascii (true, true, true, false, false,
                                  false, true, false)), (String ((Ascii
                                  (true, false, true, true, false, false,
                                  true, false)), (String ((Ascii (false,
                                  false, true, false, true, false, true,
                                  false)), EmptyString)))))))))
                                (X0d :: (X0a :: []))))))))))))))))

(** val i64_MIN : z **)

let i64_MIN =
  Z.opp (Z.pow (Zpos (XO XH)) (Zpos (XI (XI (XI (XI (XI XH)))))))

(** val hEADER_TEMPLATE : bytes **)

let hEADER_TEMPLATE =
  app
    (bs (String ((Ascii (false, false, true, false, false, true, true,
      false)), (String ((Ascii (true, false, false, false, false, true, true,
      false)), (String ((Ascii (false, false, true, false, true, true, true,
      false)), (String ((Ascii (true, false, true, false, false, true, true,
      false)), (String ((Ascii (false, true, false, true, true, true, false,
      false)), (String ((Ascii (false, false, false, false, false, true,
      false, false)), (String ((Ascii (true, false, true, true, false, false,
      true, false)), (String ((Ascii (true, true, true, true, false, true,
      true, false)), (String ((Ascii (false, true, true, true, false, true,
      true, false)), (String ((Ascii (false, false, true, true, false, true,
      false, false)), (String ((Ascii (false, false, false, false, false,
      true, false, false)), (String ((Ascii (false, false, false, false,
      true, true, false, false)), (String ((Ascii (false, false, false,
      false, true, true, false, false)), (String ((Ascii (false, false,
      false, false, false, true, false, false)), (String ((Ascii (false,
      true, false, true, false, false, true, false)), (String ((Ascii (true,
      false, false, false, false, true, true, false)), (String ((Ascii
      (false, true, true, true, false, true, true, false)), (String ((Ascii
      (false, false, false, false, false, true, false, false)), (String
      ((Ascii (false, false, false, false, true, true, false, false)),
      (String ((Ascii (false, false, false, false, true, true, false,
      false)), (String ((Ascii (false, false, false, false, true, true,
      false, false)), (String ((Ascii (false, false, false, false, true,
      true, false, false)), (String ((Ascii (false, false, false, false,
      false, true, false, false)), (String ((Ascii (false, false, false,
      false, true, true, false, false)), (String ((Ascii (false, false,
      false, false, true, true, false, false)), (String ((Ascii (false, true,
      false, true, true, true, false, false)), (String ((Ascii (false, false,
      false, false, true, true, false, false)), (String ((Ascii (false,
      false, false, false, true, true, false, false)), (String ((Ascii
      (false, true, false, true, true, true, false, false)), (String ((Ascii
      (false, false, false, false, true, true, false, false)), (String
      ((Ascii (false, false, false, false, true, true, false, false)),
      (String ((Ascii (false, false, false, false, false, true, false,
      false)), (String ((Ascii (true, true, true, false, false, false, true,
      false)), (String ((Ascii (true, false, true, true, false, false, true,
      false)), (String ((Ascii (false, false, true, false, true, false, true,
      false)),
      EmptyString)))))))))))))))))))))))))))))))))))))))))))))))))))))))))))))))))))))))
    (X0d :: (X0a :: []))

type cache = bytes * z

(** val cache_init : cache **)

let cache_init =
  (hEADER_TEMPLATE, i64_MIN)

(** val get_date_now : cache -> z -> cache * bytes **)

let get_date_now c now =
  let (buf, last) = c in
  if Z.eqb last now
  then (c, buf)
  else let b = format_http_date now in ((b, now), b)

(** val cache_run : cache -> z list -> bytes list **)

let rec cache_run c = function
| [] -> []
| t :: r -> let (c', out) = get_date_now c t in out :: (cache_run c' r)

type seg =
| Lit of bytes
| Param of bytes
| Wild
| DWild

type prec =
| PDW
| PW
| PP
| PL

(** val prec_rank : prec -> nat **)

let prec_rank = function
| PDW -> O
| PW -> S O
| PP -> S (S O)
| PL -> S (S (S O))

(** val prec_eqb : prec -> prec -> bool **)

let prec_eqb a b =
  Nat.eqb (prec_rank a) (prec_rank b)

(** val prec_gtb : prec -> prec -> bool **)

let prec_gtb a b =
  Nat.ltb (prec_rank b) (prec_rank a)

type pattern = { segs : seg list; last_prec : prec }

(** val precedence_of : seg option -> prec **)

let precedence_of = function
| Some s ->
  (match s with
   | Lit _ -> PL
   | Param _ -> PP
   | Wild -> PW
   | DWild -> PDW)
| None -> PDW

(** val parse_route_segment : bytes -> seg **)

let parse_route_segment s =
  if bytes_eqb s (X2a :: [])
  then Wild
  else if bytes_eqb s (X2a :: (X2a :: []))
       then DWild
       else (match s with
             | [] -> Lit s
             | b :: r -> (match b with
                          | X3a -> Param r
                          | _ -> Lit s))

(** val strip_slash : bytes -> bytes **)

let strip_slash s = match s with
| [] -> s
| b :: r -> (match b with
             | X2f -> r
             | _ -> s)

(** val last_opt : 'a1 list -> 'a1 option **)

let last_opt l =
  match rev l with
  | [] -> None
  | x :: _ -> Some x

(** val parse_route : bytes -> bytes * pattern **)

let parse_route route_str =
  let norm = strip_slash route_str in
  let pat = map parse_route_segment (split_on X2f norm) in
  (norm, { segs = pat; last_prec = (precedence_of (last_opt pat)) })

(** val seg_eqb : seg -> seg -> bool **)

let seg_eqb a b =
  match a with
  | Lit x -> (match b with
              | Lit y -> bytes_eqb x y
              | _ -> false)
  | Param _ -> (match b with
                | Param _ -> true
                | _ -> false)
  | Wild -> (match b with
             | Wild -> true
             | _ -> false)
  | DWild -> (match b with
              | DWild -> true
              | _ -> false)

(** val segs_eqb : seg list -> seg list -> bool **)

let rec segs_eqb a b =
  match a with
  | [] -> (match b with
           | [] -> true
           | _ :: _ -> false)
  | x :: a' ->
    (match b with
     | [] -> false
     | y :: b' -> (&&) (seg_eqb x y) (segs_eqb a' b'))

(** val pattern_eqb : pattern -> pattern -> bool **)

let pattern_eqb a b =
  (&&) (segs_eqb a.segs b.segs) (prec_eqb a.last_prec b.last_prec)

(** val is_lit : seg -> bool **)

let is_lit = function
| Lit _ -> true
| _ -> false

type bucket = { literals : (bytes * n) list; patterns : (pattern * n) list }

(** val empty_bucket : bucket **)

let empty_bucket =
  { literals = []; patterns = [] }

(** val add_route : bucket -> bytes -> n -> bucket **)

let add_route b path h =
  let (norm, entry) = parse_route path in
  if forallb is_lit entry.segs
  then { literals =
         (app (filter (fun kv -> negb (bytes_eqb (fst kv) norm)) b.literals)
           ((norm, h) :: [])); patterns = b.patterns }
  else { literals = b.literals; patterns =
         (app
           (filter (fun kv -> negb (pattern_eqb (fst kv) entry)) b.patterns)
           ((entry, h) :: [])) }

type meth =
| Std of n
| Custom of bytes

(** val meth_eqb : meth -> meth -> bool **)

let meth_eqb a b =
  match a with
  | Std i -> (match b with
              | Std j -> N.eqb i j
              | Custom _ -> false)
  | Custom x -> (match b with
                 | Std _ -> false
                 | Custom y -> bytes_eqb x y)

type table = ((meth * bytes) * n) list

(** val bucket_of : table -> meth -> bucket **)

let bucket_of t m =
  fold_left (fun b r ->
    let (y, h) = r in
    let (m', path) = y in if meth_eqb m' m then add_route b path h else b) t
    empty_bucket

(** val find_literal : bucket -> bytes -> n option **)

let find_literal b norm_path =
  match find (fun kv -> bytes_eqb (fst kv) norm_path) b.literals with
  | Some kv -> Some (snd kv)
  | None -> None

type params = (bytes * bytes) list

(** val scan :
    seg list -> bytes list -> nat -> bool -> params ->
    ((nat * params) * bytes list) option **)

let rec scan pat us lml counting ps =
  match pat with
  | [] -> Some ((lml, ps), us)
  | sg :: pat' ->
    let uri_part = match us with
                   | [] -> None
                   | u :: _ -> Some u in
    let us' = match us with
              | [] -> []
              | _ :: r -> r in
    (match sg with
     | Lit l ->
       (match uri_part with
        | Some v ->
          if bytes_eqb l v
          then scan pat' us' (if counting then S lml else lml) counting ps
          else None
        | None -> None)
     | Param n0 ->
       (match uri_part with
        | Some v -> scan pat' us' lml false (app ps ((n0, v) :: []))
        | None -> None)
     | Wild ->
       (match uri_part with
        | Some _ -> scan pat' us' lml false ps
        | None -> None)
     | DWild -> Some ((lml, ps), us'))

(** val try_pattern : pattern -> bytes list -> (nat * params) option **)

let try_pattern p us =
  match scan p.segs us O true [] with
  | Some p0 ->
    let (p1, rest) = p0 in
    (match rest with
     | [] -> Some p1
     | _ :: _ -> if prec_eqb p.last_prec PDW then Some p1 else None)
  | None -> None

type rres =
| Found of n * params
| Fallback

type best = (((nat * prec) * n) * params) option

(** val better : nat -> prec -> best -> bool **)

let better lml pr = function
| Some p ->
  let (p0, _) = p in
  let (p2, _) = p0 in
  let (blml, bprec) = p2 in
  (||) (Nat.ltb blml lml) ((&&) (Nat.eqb lml blml) (prec_gtb pr bprec))
| None -> true

(** val step_pattern : bytes list -> best -> (pattern * n) -> best **)

let step_pattern us b = function
| (p, h) ->
  (match try_pattern p us with
   | Some p0 ->
     let (lml, ps) = p0 in
     if better lml p.last_prec b
     then Some (((lml, p.last_prec), h), ps)
     else b
   | None -> b)

(** val match_route : table -> meth -> bytes -> rres **)

let match_route t m uri0 =
  let uri1 = strip_slash uri0 in
  let b = bucket_of t m in
  (match find_literal b uri1 with
   | Some h -> Found (h, [])
   | None ->
     (match fold_left (step_pattern (split_on X2f uri1)) b.patterns None with
      | Some p -> let (p0, ps) = p in let (_, h) = p0 in Found (h, ps)
      | None -> Fallback))

(** val classify : bytes -> seg **)

let classify s = match s with
| [] -> Lit s
| b :: name ->
  (match b with
   | X2a ->
     (match name with
      | [] -> Wild
      | b1 :: l ->
        (match b1 with
         | X2a -> (match l with
                   | [] -> DWild
                   | _ :: _ -> Lit s)
         | _ -> Lit s))
   | X3a -> Param name
   | _ -> Lit s)

(** val path_segs : bytes -> bytes list **)

let path_segs p =
  split_on X2f
    (match p with
     | [] -> p
     | b :: r -> (match b with
                  | X2f -> r
                  | _ -> p))

(** val pattern_of : bytes -> seg list **)

let pattern_of path =
  map classify (path_segs path)

(** val matchb : seg list -> bytes list -> bool **)

let rec matchb p us =
  match p with
  | [] -> (match us with
           | [] -> true
           | _ :: _ -> false)
  | s0 :: p' ->
    (match s0 with
     | Lit s ->
       (match us with
        | [] -> false
        | u :: us' -> (&&) (bytes_eqb s u) (matchb p' us'))
     | DWild -> (match p' with
                 | [] -> true
                 | _ :: _ -> false)
     | _ -> (match us with
             | [] -> false
             | _ :: us' -> matchb p' us'))

(** val lead_lits : seg list -> nat **)

let rec lead_lits = function
| [] -> O
| s :: p' -> (match s with
              | Lit _ -> S (lead_lits p')
              | _ -> O)

(** val final_rank : seg list -> nat **)

let final_rank p =
  match last_opt p with
  | Some s ->
    (match s with
     | Lit _ -> S (S (S O))
     | Param _ -> S (S O)
     | Wild -> S O
     | DWild -> O)
  | None -> O

(** val rank_ltb : seg list -> seg list -> bool **)

let rank_ltb p q =
  (||) (Nat.ltb (lead_lits p) (lead_lits q))
    ((&&) (Nat.eqb (lead_lits p) (lead_lits q))
      (Nat.ltb (final_rank p) (final_rank q)))

(** val all_lit : seg list -> bool **)

let all_lit p =
  forallb is_lit p

(** val trailing_dw : seg list -> bool **)

let rec trailing_dw = function
| [] -> true
| s :: p' ->
  (match s with
   | DWild -> (match p' with
               | [] -> true
               | _ :: _ -> false)
   | _ -> trailing_dw p')

(** val equivb : seg list -> seg list -> bool **)

let rec equivb p q =
  match p with
  | [] -> (match q with
           | [] -> true
           | _ :: _ -> false)
  | s :: p' ->
    (match s with
     | Lit a ->
       (match q with
        | [] -> false
        | s0 :: q' ->
          (match s0 with
           | Lit b -> (&&) (bytes_eqb a b) (equivb p' q')
           | _ -> false))
     | Param _ ->
       (match q with
        | [] -> false
        | s0 :: q' -> (match s0 with
                       | Param _ -> equivb p' q'
                       | _ -> false))
     | Wild ->
       (match q with
        | [] -> false
        | s0 :: q' -> (match s0 with
                       | Wild -> equivb p' q'
                       | _ -> false))
     | DWild ->
       (match q with
        | [] -> false
        | s0 :: q' -> (match s0 with
                       | DWild -> equivb p' q'
                       | _ -> false)))

type route = seg list * n

(** val register : route list -> seg list -> n -> route list **)

let register rs0 p h =
  app (filter (fun e -> negb (equivb (fst e) p)) rs0) ((p, h) :: [])

(** val routes_of : table -> meth -> route list **)

let routes_of t m =
  fold_left (fun rs0 r ->
    let (y, h) = r in
    let (m', path) = y in
    if meth_eqb m' m then register rs0 (pattern_of path) h else rs0) t []

(** val wf_table : table -> bool **)

let wf_table t =
  forallb (fun r ->
    let (y, _) = r in let (_, path) = y in trailing_dw (pattern_of path)) t

(** val bindings : seg list -> bytes list -> params **)

let rec bindings p us =
  match p with
  | [] -> []
  | s :: p' ->
    (match s with
     | Param n0 ->
       (match us with
        | [] -> []
        | u :: us' -> (n0, u) :: (bindings p' us'))
     | DWild -> []
     | _ -> (match us with
             | [] -> []
             | _ :: us' -> bindings p' us'))

(** val best_of : route option -> route list -> route option **)

let rec best_of cur = function
| [] -> cur
| e :: r ->
  (match cur with
   | Some c ->
     if rank_ltb (fst c) (fst e) then best_of (Some e) r else best_of cur r
   | None -> best_of (Some e) r)

(** val spec_route : table -> meth -> bytes -> rres **)

let spec_route t m uri0 =
  let us = path_segs uri0 in
  let rs0 = routes_of t m in
  (match find (fun e -> (&&) (all_lit (fst e)) (matchb (fst e) us)) rs0 with
   | Some e -> Found ((snd e), [])
   | None ->
     (match best_of None (filter (fun e -> matchb (fst e) us) rs0) with
      | Some e -> Found ((snd e), (bindings (fst e) us))
      | None -> Fallback))

type headers = { stored : (bytes * bytes) list; content_length : n option;
                 chunked : bool; connection_close : bool; print_date : 
                 bool }

(** val new_headers : headers **)

let new_headers =
  { stored = []; content_length = None; chunked = false; connection_close =
    false; print_date = true }

(** val new_nodate : headers **)

let new_nodate =
  { stored = []; content_length = None; chunked = false; connection_close =
    false; print_date = false }

(** val cONTENT_LENGTH : bytes **)

let cONTENT_LENGTH =
  bs (String ((Ascii (true, true, false, false, false, true, true, false)),
    (String ((Ascii (true, true, true, true, false, true, true, false)),
    (String ((Ascii (false, true, true, true, false, true, true, false)),
    (String ((Ascii (false, false, true, false, true, true, true, false)),
    (String ((Ascii (true, false, true, false, false, true, true, false)),
    (String ((Ascii (false, true, true, true, false, true, true, false)),
    (String ((Ascii (false, false, true, false, true, true, true, false)),
    (String ((Ascii (true, false, true, true, false, true, false, false)),
    (String ((Ascii (false, false, true, true, false, true, true, false)),
    (String ((Ascii (true, false, true, false, false, true, true, false)),
    (String ((Ascii (false, true, true, true, false, true, true, false)),
    (String ((Ascii (true, true, true, false, false, true, true, false)),
    (String ((Ascii (false, false, true, false, true, true, true, false)),
    (String ((Ascii (false, false, false, true, false, true, true, false)),
    EmptyString))))))))))))))))))))))))))))

(** val tRANSFER_ENCODING : bytes **)

let tRANSFER_ENCODING =
  bs (String ((Ascii (false, false, true, false, true, true, true, false)),
    (String ((Ascii (false, true, false, false, true, true, true, false)),
    (String ((Ascii (true, false, false, false, false, true, true, false)),
    (String ((Ascii (false, true, true, true, false, true, true, false)),
    (String ((Ascii (true, true, false, false, true, true, true, false)),
    (String ((Ascii (false, true, true, false, false, true, true, false)),
    (String ((Ascii (true, false, true, false, false, true, true, false)),
    (String ((Ascii (false, true, false, false, true, true, true, false)),
    (String ((Ascii (true, false, true, true, false, true, false, false)),
    (String ((Ascii (true, false, true, false, false, true, true, false)),
    (String ((Ascii (false, true, true, true, false, true, true, false)),
    (String ((Ascii (true, true, false, false, false, true, true, false)),
    (String ((Ascii (true, true, true, true, false, true, true, false)),
    (String ((Ascii (false, false, true, false, false, true, true, false)),
    (String ((Ascii (true, false, false, true, false, true, true, false)),
    (String ((Ascii (false, true, true, true, false, true, true, false)),
    (String ((Ascii (true, true, true, false, false, true, true, false)),
    EmptyString))))))))))))))))))))))))))))))))))

(** val cONNECTION : bytes **)

let cONNECTION =
  bs (String ((Ascii (true, true, false, false, false, true, true, false)),
    (String ((Ascii (true, true, true, true, false, true, true, false)),
    (String ((Ascii (false, true, true, true, false, true, true, false)),
    (String ((Ascii (false, true, true, true, false, true, true, false)),
    (String ((Ascii (true, false, true, false, false, true, true, false)),
    (String ((Ascii (true, true, false, false, false, true, true, false)),
    (String ((Ascii (false, false, true, false, true, true, true, false)),
    (String ((Ascii (true, false, false, true, false, true, true, false)),
    (String ((Ascii (true, true, true, true, false, true, true, false)),
    (String ((Ascii (false, true, true, true, false, true, true, false)),
    EmptyString))))))))))))))))))))

(** val trim_ows : bytes -> bytes **)

let trim_ows v =
  trim_both is_ows v

(** val u64_MAX : n **)

let u64_MAX =
  Npos (XI (XI (XI (XI (XI (XI (XI (XI (XI (XI (XI (XI (XI (XI (XI (XI (XI
    (XI (XI (XI (XI (XI (XI (XI (XI (XI (XI (XI (XI (XI (XI (XI (XI (XI (XI
    (XI (XI (XI (XI (XI (XI (XI (XI (XI (XI (XI (XI (XI (XI (XI (XI (XI (XI
    (XI (XI (XI (XI (XI (XI (XI (XI (XI (XI
    XH)))))))))))))))))))))))))))))))))))))))))))))))))))))))))))))))

(** val parse_digits : n -> bytes -> n option **)

let rec parse_digits acc = function
| [] -> Some acc
| b :: r ->
  if is_digit b
  then let acc' =
         N.add (N.mul acc (Npos (XO (XI (XO XH)))))
           (N.sub (b2n b) (Npos (XO (XO (XO (XO (XI XH)))))))
       in
       if N.leb acc' u64_MAX then parse_digits acc' r else None
  else None

(** val parse_content_length : bytes -> n option **)

let parse_content_length v =
  match trim_ows v with
  | [] -> None
  | b :: l -> parse_digits N0 (b :: l)

(** val has_token_loop : bytes -> bytes -> bool **)

let has_token_loop tok value =
  existsb (fun v -> eq_ic (trim_ows v) tok) (split_on X2c value)

(** val add0 : headers -> bytes -> bytes -> headers **)

let add0 h name value =
  if eq_ic name cONTENT_LENGTH
  then { stored = h.stored; content_length = (parse_content_length value);
         chunked = h.chunked; connection_close = h.connection_close;
         print_date = h.print_date }
  else if eq_ic name tRANSFER_ENCODING
       then { stored = (app h.stored ((name, value) :: [])); content_length =
              h.content_length; chunked =
              ((||) h.chunked
                (has_token_loop
                  (bs (String ((Ascii (true, true, false, false, false, true,
                    true, false)), (String ((Ascii (false, false, false,
                    true, false, true, true, false)), (String ((Ascii (true,
                    false, true, false, true, true, true, false)), (String
                    ((Ascii (false, true, true, true, false, true, true,
                    false)), (String ((Ascii (true, true, false, true, false,
                    true, true, false)), (String ((Ascii (true, false, true,
                    false, false, true, true, false)), (String ((Ascii
                    (false, false, true, false, false, true, true, false)),
                    EmptyString))))))))))))))) value)); connection_close =
              h.connection_close; print_date = h.print_date }
       else if eq_ic name cONNECTION
            then { stored = (app h.stored ((name, value) :: []));
                   content_length = h.content_length; chunked = h.chunked;
                   connection_close =
                   ((||) h.connection_close
                     (has_token_loop
                       (bs (String ((Ascii (true, true, false, false, false,
                         true, true, false)), (String ((Ascii (false, false,
                         true, true, false, true, true, false)), (String
                         ((Ascii (true, true, true, true, false, true, true,
                         false)), (String ((Ascii (true, true, false, false,
                         true, true, true, false)), (String ((Ascii (true,
                         false, true, false, false, true, true, false)),
                         EmptyString))))))))))) value)); print_date =
                   h.print_date }
            else { stored = (app h.stored ((name, value) :: []));
                   content_length = h.content_length; chunked = h.chunked;
                   connection_close = h.connection_close; print_date =
                   h.print_date }

(** val remove : headers -> bytes -> headers **)

let remove h name =
  let st = filter (fun kv -> negb (eq_ic (fst kv) name)) h.stored in
  if eq_ic name cONTENT_LENGTH
  then { stored = st; content_length = None; chunked = h.chunked;
         connection_close = h.connection_close; print_date = h.print_date }
  else if eq_ic name tRANSFER_ENCODING
       then { stored = st; content_length = h.content_length; chunked =
              false; connection_close = h.connection_close; print_date =
              h.print_date }
       else if eq_ic name cONNECTION
            then { stored = st; content_length = h.content_length; chunked =
                   h.chunked; connection_close = false; print_date =
                   h.print_date }
            else { stored = st; content_length = h.content_length; chunked =
                   h.chunked; connection_close = h.connection_close;
                   print_date = h.print_date }

(** val replace : headers -> bytes -> bytes -> headers **)

let replace h name value =
  add0 (remove h name) name value

(** val set_content_length : headers -> n option -> headers **)

let set_content_length h len =
  { stored = h.stored; content_length = len; chunked = h.chunked;
    connection_close = h.connection_close; print_date = h.print_date }

(** val set_transfer_encoding_chunked : headers -> headers **)

let set_transfer_encoding_chunked h =
  if h.chunked
  then h
  else { stored =
         (app h.stored ((tRANSFER_ENCODING,
           (bs (String ((Ascii (true, true, false, false, false, true, true,
             false)), (String ((Ascii (false, false, false, true, false,
             true, true, false)), (String ((Ascii (true, false, true, false,
             true, true, true, false)), (String ((Ascii (false, true, true,
             true, false, true, true, false)), (String ((Ascii (true, true,
             false, true, false, true, true, false)), (String ((Ascii (true,
             false, true, false, false, true, true, false)), (String ((Ascii
             (false, false, true, false, false, true, true, false)),
             EmptyString)))))))))))))))) :: [])); content_length =
         h.content_length; chunked = true; connection_close =
         h.connection_close; print_date = h.print_date }

(** val set_connection_close : headers -> headers **)

let set_connection_close h =
  { stored =
    (app h.stored ((cONNECTION,
      (bs (String ((Ascii (true, true, false, false, false, true, true,
        false)), (String ((Ascii (false, false, true, true, false, true,
        true, false)), (String ((Ascii (true, true, true, true, false, true,
        true, false)), (String ((Ascii (true, true, false, false, true, true,
        true, false)), (String ((Ascii (true, false, true, false, false,
        true, true, false)), EmptyString)))))))))))) :: []));
    content_length = h.content_length; chunked = h.chunked;
    connection_close = true; print_date = h.print_date }

(** val get : headers -> bytes -> bytes option **)

let get h name =
  match find (fun kv -> eq_ic (fst kv) name) (rev h.stored) with
  | Some kv -> Some (snd kv)
  | None -> None

(** val get_all : headers -> bytes -> (bytes * bytes) list **)

let get_all h name =
  filter (fun kv -> eq_ic (fst kv) name) h.stored

(** val get_count : headers -> nat **)

let get_count h =
  length h.stored

(** val token_values : headers -> bytes -> bytes list **)

let token_values h name =
  flat_map (fun kv -> map trim_ows (split_on X2c (snd kv))) (get_all h name)

type hop =
| OAdd of bytes * bytes
| OReplace of bytes * bytes
| ORemove of bytes
| OSetCL of n option
| OSetChunked
| OSetClose

(** val hstep : headers -> hop -> headers **)

let hstep h = function
| OAdd (n0, v) -> add0 h n0 v
| OReplace (n0, v) -> replace h n0 v
| ORemove n0 -> remove h n0
| OSetCL l -> set_content_length h l
| OSetChunked -> set_transfer_encoding_chunked h
| OSetClose -> set_connection_close h

(** val lower : bytes -> bytes **)

let lower s =
  map to_lower s

(** val same_name : bytes -> bytes -> bool **)

let same_name a b =
  bytes_eqb (lower a) (lower b)

(** val strip_ows : bytes -> bytes **)

let strip_ows v =
  rev (drop_while is_ows (rev (drop_while is_ows v)))

(** val tokens : bytes -> bytes list **)

let tokens v =
  map strip_ows (split_on X2c v)

(** val field_has_token : bytes -> bytes -> (bytes * bytes) -> bool **)

let field_has_token name tok f =
  (&&) (same_name (fst f) name)
    (existsb (fun t -> same_name t tok) (tokens (snd f)))

(** val eval_chunked : (bytes * bytes) list -> bool **)

let eval_chunked fs =
  existsb
    (field_has_token
      (bs (String ((Ascii (false, false, true, false, true, true, true,
        false)), (String ((Ascii (false, true, false, false, true, true,
        true, false)), (String ((Ascii (true, false, false, false, false,
        true, true, false)), (String ((Ascii (false, true, true, true, false,
        true, true, false)), (String ((Ascii (true, true, false, false, true,
        true, true, false)), (String ((Ascii (false, true, true, false,
        false, true, true, false)), (String ((Ascii (true, false, true,
        false, false, true, true, false)), (String ((Ascii (false, true,
        false, false, true, true, true, false)), (String ((Ascii (true,
        false, true, true, false, true, false, false)), (String ((Ascii
        (true, false, true, false, false, true, true, false)), (String
        ((Ascii (false, true, true, true, false, true, true, false)), (String
        ((Ascii (true, true, false, false, false, true, true, false)),
        (String ((Ascii (true, true, true, true, false, true, true, false)),
        (String ((Ascii (false, false, true, false, false, true, true,
        false)), (String ((Ascii (true, false, false, true, false, true,
        true, false)), (String ((Ascii (false, true, true, true, false, true,
        true, false)), (String ((Ascii (true, true, true, false, false, true,
        true, false)), EmptyString)))))))))))))))))))))))))))))))))))
      (bs (String ((Ascii (true, true, false, false, false, true, true,
        false)), (String ((Ascii (false, false, false, true, false, true,
        true, false)), (String ((Ascii (true, false, true, false, true, true,
        true, false)), (String ((Ascii (false, true, true, true, false, true,
        true, false)), (String ((Ascii (true, true, false, true, false, true,
        true, false)), (String ((Ascii (true, false, true, false, false,
        true, true, false)), (String ((Ascii (false, false, true, false,
        false, true, true, false)), EmptyString)))))))))))))))) fs

(** val eval_close : (bytes * bytes) list -> bool **)

let eval_close fs =
  existsb
    (field_has_token
      (bs (String ((Ascii (true, true, false, false, false, true, true,
        false)), (String ((Ascii (true, true, true, true, false, true, true,
        false)), (String ((Ascii (false, true, true, true, false, true, true,
        false)), (String ((Ascii (false, true, true, true, false, true, true,
        false)), (String ((Ascii (true, false, true, false, false, true,
        true, false)), (String ((Ascii (true, true, false, false, false,
        true, true, false)), (String ((Ascii (false, false, true, false,
        true, true, true, false)), (String ((Ascii (true, false, false, true,
        false, true, true, false)), (String ((Ascii (true, true, true, true,
        false, true, true, false)), (String ((Ascii (false, true, true, true,
        false, true, true, false)), EmptyString)))))))))))))))))))))
      (bs (String ((Ascii (true, true, false, false, false, true, true,
        false)), (String ((Ascii (false, false, true, true, false, true,
        true, false)), (String ((Ascii (true, true, true, true, false, true,
        true, false)), (String ((Ascii (true, true, false, false, true, true,
        true, false)), (String ((Ascii (true, false, true, false, false,
        true, true, false)), EmptyString)))))))))))) fs

(** val lookup_all : (bytes * bytes) list -> bytes -> (bytes * bytes) list **)

let lookup_all fs name =
  filter (fun f -> same_name (fst f) name) fs

(** val lookup_last : (bytes * bytes) list -> bytes -> bytes option **)

let lookup_last fs name =
  match rev (lookup_all fs name) with
  | [] -> None
  | f :: _ -> Some (snd f)

(** val dec_value : n -> bytes -> n **)

let rec dec_value acc = function
| [] -> acc
| b :: r ->
  dec_value
    (N.add (N.mul acc (Npos (XO (XI (XO XH)))))
      (N.sub (b2n b) (Npos (XO (XO (XO (XO (XI XH)))))))) r

(** val cl_value : bytes -> n option **)

let cl_value v =
  let d = strip_ows v in
  (match d with
   | [] -> None
   | _ :: _ ->
     if (&&) (forallb is_digit d)
          (N.ltb (dec_value N0 d)
            (N.pow (Npos (XO XH)) (Npos (XO (XO (XO (XO (XO (XO XH)))))))))
     then Some (dec_value N0 d)
     else None)

(** val is_cl : bytes -> bool **)

let is_cl n0 =
  same_name n0
    (bs (String ((Ascii (true, true, false, false, false, true, true,
      false)), (String ((Ascii (true, true, true, true, false, true, true,
      false)), (String ((Ascii (false, true, true, true, false, true, true,
      false)), (String ((Ascii (false, false, true, false, true, true, true,
      false)), (String ((Ascii (true, false, true, false, false, true, true,
      false)), (String ((Ascii (false, true, true, true, false, true, true,
      false)), (String ((Ascii (false, false, true, false, true, true, true,
      false)), (String ((Ascii (true, false, true, true, false, true, false,
      false)), (String ((Ascii (false, false, true, true, false, true, true,
      false)), (String ((Ascii (true, false, true, false, false, true, true,
      false)), (String ((Ascii (false, true, true, true, false, true, true,
      false)), (String ((Ascii (true, true, true, false, false, true, true,
      false)), (String ((Ascii (false, false, true, false, true, true, true,
      false)), (String ((Ascii (false, false, false, true, false, true, true,
      false)), EmptyString)))))))))))))))))))))))))))))

(** val store_step : (bytes * bytes) list -> hop -> (bytes * bytes) list **)

let store_step fs o =
  let without = fun n0 -> filter (fun f -> negb (same_name (fst f) n0)) fs in
  (match o with
   | OAdd (n0, v) -> if is_cl n0 then fs else app fs ((n0, v) :: [])
   | OReplace (n0, v) ->
     if is_cl n0 then without n0 else app (without n0) ((n0, v) :: [])
   | ORemove n0 -> without n0
   | OSetCL _ -> fs
   | OSetChunked ->
     if eval_chunked fs
     then fs
     else app fs
            (((bs (String ((Ascii (false, false, true, false, true, true,
                true, false)), (String ((Ascii (false, true, false, false,
                true, true, true, false)), (String ((Ascii (true, false,
                false, false, false, true, true, false)), (String ((Ascii
                (false, true, true, true, false, true, true, false)), (String
                ((Ascii (true, true, false, false, true, true, true, false)),
                (String ((Ascii (false, true, true, false, false, true, true,
                false)), (String ((Ascii (true, false, true, false, false,
                true, true, false)), (String ((Ascii (false, true, false,
                false, true, true, true, false)), (String ((Ascii (true,
                false, true, true, false, true, false, false)), (String
                ((Ascii (true, false, true, false, false, true, true,
                false)), (String ((Ascii (false, true, true, true, false,
                true, true, false)), (String ((Ascii (true, true, false,
                false, false, true, true, false)), (String ((Ascii (true,
                true, true, true, false, true, true, false)), (String ((Ascii
                (false, false, true, false, false, true, true, false)),
                (String ((Ascii (true, false, false, true, false, true, true,
                false)), (String ((Ascii (false, true, true, true, false,
                true, true, false)), (String ((Ascii (true, true, true,
                false, false, true, true, false)),
                EmptyString))))))))))))))))))))))))))))))))))),
            (bs (String ((Ascii (true, true, false, false, false, true, true,
              false)), (String ((Ascii (false, false, false, true, false,
              true, true, false)), (String ((Ascii (true, false, true, false,
              true, true, true, false)), (String ((Ascii (false, true, true,
              true, false, true, true, false)), (String ((Ascii (true, true,
              false, true, false, true, true, false)), (String ((Ascii (true,
              false, true, false, false, true, true, false)), (String ((Ascii
              (false, false, true, false, false, true, true, false)),
              EmptyString)))))))))))))))) :: [])
   | OSetClose ->
     app fs
       (((bs (String ((Ascii (true, true, false, false, false, true, true,
           false)), (String ((Ascii (true, true, true, true, false, true,
           true, false)), (String ((Ascii (false, true, true, true, false,
           true, true, false)), (String ((Ascii (false, true, true, true,
           false, true, true, false)), (String ((Ascii (true, false, true,
           false, false, true, true, false)), (String ((Ascii (true, true,
           false, false, false, true, true, false)), (String ((Ascii (false,
           false, true, false, true, true, true, false)), (String ((Ascii
           (true, false, false, true, false, true, true, false)), (String
           ((Ascii (true, true, true, true, false, true, true, false)),
           (String ((Ascii (false, true, true, true, false, true, true,
           false)), EmptyString))))))))))))))))))))),
       (bs (String ((Ascii (true, true, false, false, false, true, true,
         false)), (String ((Ascii (false, false, true, true, false, true,
         true, false)), (String ((Ascii (true, true, true, true, false, true,
         true, false)), (String ((Ascii (true, true, false, false, true,
         true, true, false)), (String ((Ascii (true, false, true, false,
         false, true, true, false)), EmptyString)))))))))))) :: []))

(** val spec_cl_rev : hop list -> n option **)

let rec spec_cl_rev = function
| [] -> None
| h :: r ->
  (match h with
   | OAdd (n0, v) -> if is_cl n0 then cl_value v else spec_cl_rev r
   | OReplace (n0, v) -> if is_cl n0 then cl_value v else spec_cl_rev r
   | ORemove n0 -> if is_cl n0 then None else spec_cl_rev r
   | OSetCL l -> l
   | _ -> spec_cl_rev r)

(** val spec_cl : hop list -> n option **)

let spec_cl ops =
  spec_cl_rev (rev ops)

(** val b0 : z -> z **)

let b0 z0 =
  Z.modulo z0 (Zpos (XO (XO (XO (XO (XO (XO (XO (XO XH)))))))))

(** val rs : z -> z **)

let rs z0 =
  Z.div z0 (Zpos (XO (XO (XO (XO (XO (XO (XO (XO XH)))))))))

(** val word_of : z list -> z **)

let rec word_of = function
| [] -> Z0
| b :: r ->
  Z.add b
    (Z.mul (Zpos (XO (XO (XO (XO (XO (XO (XO (XO XH))))))))) (word_of r))

(** val uni : nat -> z -> z **)

let rec uni n0 c =
  match n0 with
  | O -> Z0
  | S m ->
    Z.add c
      (Z.mul (Zpos (XO (XO (XO (XO (XO (XO (XO (XO XH))))))))) (uni m c))

(** val p256 : nat -> z **)

let p256 n0 =
  Z.pow (Zpos (XO (XO (XO (XO (XO (XO (XO (XO XH))))))))) (Z.of_nat n0)

(** val offsetnz : nat -> z -> nat **)

let rec offsetnz n0 h =
  match n0 with
  | O -> O
  | S m -> if Z.eqb (b0 h) Z0 then S (offsetnz m (rs h)) else O

(** val uri_hit : nat -> z -> z **)

let uri_hit n0 x =
  let lt =
    Z.coq_land
      (Z.modulo (Z.sub x (uni n0 (Zpos (XI (XO (XO (XO (XO XH))))))))
        (p256 n0))
      (Z.coq_lxor x (uni n0 (Zpos (XI (XI (XI (XI (XI (XI (XI XH))))))))))
  in
  let y = Z.coq_lxor x (uni n0 (Zpos (XI (XI (XI (XI (XI (XI XH)))))))) in
  let eq =
    Z.coq_land (Z.modulo (Z.sub y (uni n0 (Zpos XH))) (p256 n0))
      (Z.coq_lxor y (uni n0 (Zpos (XI (XI (XI (XI (XI (XI (XI XH))))))))))
  in
  Z.coq_land (Z.coq_lor (Z.coq_lor lt eq) x)
    (uni n0 (Zpos (XO (XO (XO (XO (XO (XO (XO XH)))))))))

(** val path_hit : nat -> z -> z **)

let path_hit n0 x =
  let yq = Z.coq_lxor x (uni n0 (Zpos (XI (XI (XI (XI (XI XH))))))) in
  let hq =
    Z.coq_land
      (Z.coq_land (Z.modulo (Z.sub yq (uni n0 (Zpos XH))) (p256 n0))
        (Z.coq_lxor yq (uni n0 (Zpos (XI (XI (XI (XI (XI (XI (XI XH)))))))))))
      (uni n0 (Zpos (XO (XO (XO (XO (XO (XO (XO XH)))))))))
  in
  let ys = Z.coq_lxor x (uni n0 (Zpos (XO (XO (XO (XO (XO XH))))))) in
  let hs =
    Z.coq_land
      (Z.coq_land (Z.modulo (Z.sub ys (uni n0 (Zpos XH))) (p256 n0))
        (Z.coq_lxor ys (uni n0 (Zpos (XI (XI (XI (XI (XI (XI (XI XH)))))))))))
      (uni n0 (Zpos (XO (XO (XO (XO (XO (XO (XO XH)))))))))
  in
  Z.coq_lor hq hs

type perr =
| EVersion
| EStatus
| EHeader
| EEof

type fault =
| FOob
| FStr
| FFuel

type 'a res =
| Ok of 'a
| Err of perr
| Fault of fault

(** val bind : 'a1 res -> ('a1 -> 'a2 res) -> 'a2 res **)

let bind r k =
  match r with
  | Ok a -> k a
  | Err e -> Err e
  | Fault f -> Fault f

(** val str_unchecked : bytes -> bytes res **)

let str_unchecked l =
  if forallb is_ascii l then Ok l else Fault FStr

(** val zs : bytes -> z list **)

let zs l =
  map b2z l

(** val uri_tail : bytes -> nat **)

let rec uri_tail = function
| [] -> O
| b :: r -> if is_vchar b then S (uri_tail r) else O

(** val match_uri_vectored : bytes -> nat **)

let rec match_uri_vectored l = match l with
| [] -> uri_tail l
| a :: l0 ->
  (match l0 with
   | [] -> uri_tail l
   | b :: l1 ->
     (match l1 with
      | [] -> uri_tail l
      | c :: l2 ->
        (match l2 with
         | [] -> uri_tail l
         | d :: l3 ->
           (match l3 with
            | [] -> uri_tail l
            | e :: l4 ->
              (match l4 with
               | [] -> uri_tail l
               | f :: l5 ->
                 (match l5 with
                  | [] -> uri_tail l
                  | g :: l6 ->
                    (match l6 with
                     | [] -> uri_tail l
                     | h :: rest ->
                       let hit =
                         uri_hit (S (S (S (S (S (S (S (S O))))))))
                           (word_of
                             (zs
                               (a :: (b :: (c :: (d :: (e :: (f :: (g :: (h :: []))))))))))
                       in
                       if Z.eqb hit Z0
                       then add (S (S (S (S (S (S (S (S O))))))))
                              (match_uri_vectored rest)
                       else offsetnz (S (S (S (S (S (S (S (S O)))))))) hit)))))))

(** val is_q_or_sp : byte -> bool **)

let is_q_or_sp = function
| X20 -> true
| X3f -> true
| _ -> false

(** val path_tail : bytes -> nat **)

let rec path_tail = function
| [] -> O
| b :: r -> if is_q_or_sp b then O else S (path_tail r)

(** val match_path_vectored : bytes -> nat **)

let rec match_path_vectored l = match l with
| [] -> path_tail l
| a :: l0 ->
  (match l0 with
   | [] -> path_tail l
   | b :: l1 ->
     (match l1 with
      | [] -> path_tail l
      | c :: l2 ->
        (match l2 with
         | [] -> path_tail l
         | d :: l3 ->
           (match l3 with
            | [] -> path_tail l
            | e :: l4 ->
              (match l4 with
               | [] -> path_tail l
               | f :: l5 ->
                 (match l5 with
                  | [] -> path_tail l
                  | g :: l6 ->
                    (match l6 with
                     | [] -> path_tail l
                     | h :: rest ->
                       let hit =
                         path_hit (S (S (S (S (S (S (S (S O))))))))
                           (word_of
                             (zs
                               (a :: (b :: (c :: (d :: (e :: (f :: (g :: (h :: []))))))))))
                       in
                       if Z.eqb hit Z0
                       then add (S (S (S (S (S (S (S (S O))))))))
                              (match_path_vectored rest)
                       else offsetnz (S (S (S (S (S (S (S (S O)))))))) hit)))))))

type method0 =
| MGet
| MPost
| MHead
| MPut
| MPatch
| MDelete
| MOptions
| MTrace
| MCustom of bytes

(** val method_str : method0 -> bytes **)

let method_str = function
| MGet ->
  bs (String ((Ascii (true, true, true, false, false, false, true, false)),
    (String ((Ascii (true, false, true, false, false, false, true, false)),
    (String ((Ascii (false, false, true, false, true, false, true, false)),
    EmptyString))))))
| MPost ->
  bs (String ((Ascii (false, false, false, false, true, false, true, false)),
    (String ((Ascii (true, true, true, true, false, false, true, false)),
    (String ((Ascii (true, true, false, false, true, false, true, false)),
    (String ((Ascii (false, false, true, false, true, false, true, false)),
    EmptyString))))))))
| MHead ->
  bs (String ((Ascii (false, false, false, true, false, false, true, false)),
    (String ((Ascii (true, false, true, false, false, false, true, false)),
    (String ((Ascii (true, false, false, false, false, false, true, false)),
    (String ((Ascii (false, false, true, false, false, false, true, false)),
    EmptyString))))))))
| MPut ->
  bs (String ((Ascii (false, false, false, false, true, false, true, false)),
    (String ((Ascii (true, false, true, false, true, false, true, false)),
    (String ((Ascii (false, false, true, false, true, false, true, false)),
    EmptyString))))))
| MPatch ->
  bs (String ((Ascii (false, false, false, false, true, false, true, false)),
    (String ((Ascii (true, false, false, false, false, false, true, false)),
    (String ((Ascii (false, false, true, false, true, false, true, false)),
    (String ((Ascii (true, true, false, false, false, false, true, false)),
    (String ((Ascii (false, false, false, true, false, false, true, false)),
    EmptyString))))))))))
| MDelete ->
  bs (String ((Ascii (false, false, true, false, false, false, true, false)),
    (String ((Ascii (true, false, true, false, false, false, true, false)),
    (String ((Ascii (false, false, true, true, false, false, true, false)),
    (String ((Ascii (true, false, true, false, false, false, true, false)),
    (String ((Ascii (false, false, true, false, true, false, true, false)),
    (String ((Ascii (true, false, true, false, false, false, true, false)),
    EmptyString))))))))))))
| MOptions ->
  bs (String ((Ascii (true, true, true, true, false, false, true, false)),
    (String ((Ascii (false, false, false, false, true, false, true, false)),
    (String ((Ascii (false, false, true, false, true, false, true, false)),
    (String ((Ascii (true, false, false, true, false, false, true, false)),
    (String ((Ascii (true, true, true, true, false, false, true, false)),
    (String ((Ascii (false, true, true, true, false, false, true, false)),
    (String ((Ascii (true, true, false, false, true, false, true, false)),
    EmptyString))))))))))))))
| MTrace ->
  bs (String ((Ascii (false, false, true, false, true, false, true, false)),
    (String ((Ascii (false, true, false, false, true, false, true, false)),
    (String ((Ascii (true, false, false, false, false, false, true, false)),
    (String ((Ascii (true, true, false, false, false, false, true, false)),
    (String ((Ascii (true, false, true, false, false, false, true, false)),
    EmptyString))))))))))
| MCustom s -> s

type uri = { full : bytes; p_start : nat; p_end : nat }

type request = { q_meth : method0; q_target : uri; q_version : n;
                 q_hdrs : headers; q_offset : nat }

(** val parse_method : bytes -> (method0 * bytes) res **)

let parse_method buf =
  match strip_prefix
          (bs (String ((Ascii (true, true, true, false, false, false, true,
            false)), (String ((Ascii (true, false, true, false, false, false,
            true, false)), (String ((Ascii (false, false, true, false, true,
            false, true, false)), (String ((Ascii (false, false, false,
            false, false, true, false, false)), EmptyString))))))))) buf with
  | Some rest -> Ok (MGet, rest)
  | None ->
    (match strip_prefix
             (bs (String ((Ascii (false, false, false, false, true, false,
               true, false)), (String ((Ascii (true, true, true, true, false,
               false, true, false)), (String ((Ascii (true, true, false,
               false, true, false, true, false)), (String ((Ascii (false,
               false, true, false, true, false, true, false)), (String
               ((Ascii (false, false, false, false, false, true, false,
               false)), EmptyString))))))))))) buf with
     | Some rest -> Ok (MPost, rest)
     | None ->
       (match find_index (eqb0 X20) buf with
        | Some i ->
          let mb = firstn i buf in
          let rest = skipn (S i) buf in
          if bytes_eqb mb
               (bs (String ((Ascii (false, false, false, true, false, false,
                 true, false)), (String ((Ascii (true, false, true, false,
                 false, false, true, false)), (String ((Ascii (true, false,
                 false, false, false, false, true, false)), (String ((Ascii
                 (false, false, true, false, false, false, true, false)),
                 EmptyString)))))))))
          then Ok (MHead, rest)
          else if bytes_eqb mb
                    (bs (String ((Ascii (false, false, false, false, true,
                      false, true, false)), (String ((Ascii (true, false,
                      true, false, true, false, true, false)), (String
                      ((Ascii (false, false, true, false, true, false, true,
                      false)), EmptyString)))))))
               then Ok (MPut, rest)
               else if bytes_eqb mb
                         (bs (String ((Ascii (false, false, false, false,
                           true, false, true, false)), (String ((Ascii (true,
                           false, false, false, false, false, true, false)),
                           (String ((Ascii (false, false, true, false, true,
                           false, true, false)), (String ((Ascii (true, true,
                           false, false, false, false, true, false)), (String
                           ((Ascii (false, false, false, true, false, false,
                           true, false)), EmptyString)))))))))))
                    then Ok (MPatch, rest)
                    else if bytes_eqb mb
                              (bs (String ((Ascii (false, false, true, false,
                                false, false, true, false)), (String ((Ascii
                                (true, false, true, false, false, false,
                                true, false)), (String ((Ascii (false, false,
                                true, true, false, false, true, false)),
                                (String ((Ascii (true, false, true, false,
                                false, false, true, false)), (String ((Ascii
                                (false, false, true, false, true, false,
                                true, false)), (String ((Ascii (true, false,
                                true, false, false, false, true, false)),
                                EmptyString)))))))))))))
                         then Ok (MDelete, rest)
                         else if bytes_eqb mb
                                   (bs (String ((Ascii (true, true, true,
                                     true, false, false, true, false)),
                                     (String ((Ascii (false, false, false,
                                     false, true, false, true, false)),
                                     (String ((Ascii (false, false, true,
                                     false, true, false, true, false)),
                                     (String ((Ascii (true, false, false,
                                     true, false, false, true, false)),
                                     (String ((Ascii (true, true, true, true,
                                     false, false, true, false)), (String
                                     ((Ascii (false, true, true, true, false,
                                     false, true, false)), (String ((Ascii
                                     (true, true, false, false, true, false,
                                     true, false)), EmptyString)))))))))))))))
                              then Ok (MOptions, rest)
                              else if bytes_eqb mb
                                        (bs (String ((Ascii (false, false,
                                          true, false, true, false, true,
                                          false)), (String ((Ascii (false,
                                          true, false, false, true, false,
                                          true, false)), (String ((Ascii
                                          (true, false, false, false, false,
                                          false, true, false)), (String
                                          ((Ascii (true, true, false, false,
                                          false, false, true, false)),
                                          (String ((Ascii (true, false, true,
                                          false, false, false, true, false)),
                                          EmptyString)))))))))))
                                   then Ok (MTrace, rest)
                                   else if (||) (Nat.eqb (length mb) O)
                                             (negb (forallb is_alpha mb))
                                        then Err EStatus
                                        else bind (str_unchecked mb)
                                               (fun s -> Ok ((MCustom s),
                                               rest))
        | None -> Err EEof))

(** val uRI_VALID : bytes **)

let uRI_VALID =
  bs (String ((Ascii (true, false, false, false, false, false, true, false)),
    (String ((Ascii (false, true, false, false, false, false, true, false)),
    (String ((Ascii (true, true, false, false, false, false, true, false)),
    (String ((Ascii (false, false, true, false, false, false, true, false)),
    (String ((Ascii (true, false, true, false, false, false, true, false)),
    (String ((Ascii (false, true, true, false, false, false, true, false)),
    (String ((Ascii (true, true, true, false, false, false, true, false)),
    (String ((Ascii (false, false, false, true, false, false, true, false)),
    (String ((Ascii (true, false, false, true, false, false, true, false)),
    (String ((Ascii (false, true, false, true, false, false, true, false)),
    (String ((Ascii (true, true, false, true, false, false, true, false)),
    (String ((Ascii (false, false, true, true, false, false, true, false)),
    (String ((Ascii (true, false, true, true, false, false, true, false)),
    (String ((Ascii (false, true, true, true, false, false, true, false)),
    (String ((Ascii (true, true, true, true, false, false, true, false)),
    (String ((Ascii (false, false, false, false, true, false, true, false)),
    (String ((Ascii (true, false, false, false, true, false, true, false)),
    (String ((Ascii (false, true, false, false, true, false, true, false)),
    (String ((Ascii (true, true, false, false, true, false, true, false)),
    (String ((Ascii (false, false, true, false, true, false, true, false)),
    (String ((Ascii (true, false, true, false, true, false, true, false)),
    (String ((Ascii (false, true, true, false, true, false, true, false)),
    (String ((Ascii (true, true, true, false, true, false, true, false)),
    (String ((Ascii (false, false, false, true, true, false, true, false)),
    (String ((Ascii (true, false, false, true, true, false, true, false)),
    (String ((Ascii (false, true, false, true, true, false, true, false)),
    (String ((Ascii (true, false, false, false, false, true, true, false)),
    (String ((Ascii (false, true, false, false, false, true, true, false)),
    (String ((Ascii (true, true, false, false, false, true, true, false)),
    (String ((Ascii (false, false, true, false, false, true, true, false)),
    (String ((Ascii (true, false, true, false, false, true, true, false)),
    (String ((Ascii (false, true, true, false, false, true, true, false)),
    (String ((Ascii (true, true, true, false, false, true, true, false)),
    (String ((Ascii (false, false, false, true, false, true, true, false)),
    (String ((Ascii (true, false, false, true, false, true, true, false)),
    (String ((Ascii (false, true, false, true, false, true, true, false)),
    (String ((Ascii (true, true, false, true, false, true, true, false)),
    (String ((Ascii (false, false, true, true, false, true, true, false)),
    (String ((Ascii (true, false, true, true, false, true, true, false)),
    (String ((Ascii (false, true, true, true, false, true, true, false)),
    (String ((Ascii (true, true, true, true, false, true, true, false)),
    (String ((Ascii (false, false, false, false, true, true, true, false)),
    (String ((Ascii (true, false, false, false, true, true, true, false)),
    (String ((Ascii (false, true, false, false, true, true, true, false)),
    (String ((Ascii (true, true, false, false, true, true, true, false)),
    (String ((Ascii (false, false, true, false, true, true, true, false)),
    (String ((Ascii (true, false, true, false, true, true, true, false)),
    (String ((Ascii (false, true, true, false, true, true, true, false)),
    (String ((Ascii (true, true, true, false, true, true, true, false)),
    (String ((Ascii (false, false, false, true, true, true, true, false)),
    (String ((Ascii (true, false, false, true, true, true, true, false)),
    (String ((Ascii (false, true, false, true, true, true, true, false)),
    (String ((Ascii (false, false, false, false, true, true, false, false)),
    (String ((Ascii (true, false, false, false, true, true, false, false)),
    (String ((Ascii (false, true, false, false, true, true, false, false)),
    (String ((Ascii (true, true, false, false, true, true, false, false)),
    (String ((Ascii (false, false, true, false, true, true, false, false)),
    (String ((Ascii (true, false, true, false, true, true, false, false)),
    (String ((Ascii (false, true, true, false, true, true, false, false)),
    (String ((Ascii (true, true, true, false, true, true, false, false)),
    (String ((Ascii (false, false, false, true, true, true, false, false)),
    (String ((Ascii (true, false, false, true, true, true, false, false)),
    (String ((Ascii (true, false, true, true, false, true, false, false)),
    (String ((Ascii (false, true, true, true, false, true, false, false)),
    (String ((Ascii (true, true, true, true, true, false, true, false)),
    (String ((Ascii (false, true, true, true, true, true, true, false)),
    (String ((Ascii (false, true, false, true, true, true, false, false)),
    (String ((Ascii (true, true, true, true, false, true, false, false)),
    (String ((Ascii (true, true, true, true, true, true, false, false)),
    (String ((Ascii (true, true, false, false, false, true, false, false)),
    (String ((Ascii (true, true, false, true, true, false, true, false)),
    (String ((Ascii (true, false, true, true, true, false, true, false)),
    (String ((Ascii (false, false, false, false, false, false, true, false)),
    (String ((Ascii (true, false, false, false, false, true, false, false)),
    (String ((Ascii (false, false, true, false, false, true, false, false)),
    (String ((Ascii (false, true, true, false, false, true, false, false)),
    (String ((Ascii (true, true, true, false, false, true, false, false)),
    (String ((Ascii (false, false, false, true, false, true, false, false)),
    (String ((Ascii (true, false, false, true, false, true, false, false)),
    (String ((Ascii (false, true, false, true, false, true, false, false)),
    (String ((Ascii (true, true, false, true, false, true, false, false)),
    (String ((Ascii (false, false, true, true, false, true, false, false)),
    (String ((Ascii (true, true, false, true, true, true, false, false)),
    (String ((Ascii (true, false, true, true, true, true, false, false)),
    (String ((Ascii (true, false, true, false, false, true, false, false)),
    EmptyString))))))))))))))))))))))))))))))))))))))))))))))))))))))))))))))))))))))))))))))))))))))))))))))))))))))))))))))))))))))))))))))))))))))))))))))))))))))))))))))))))))))))))

(** val is_valid_uri_byte : byte -> bool **)

let is_valid_uri_byte b =
  existsb (eqb0 b) uRI_VALID

type scan2 =
| S2Err
| S2Path of nat
| S2End of nat

(** val step2 : bool -> bytes -> nat -> scan2 **)

let rec step2 seen l i =
  match l with
  | [] -> S2End i
  | b :: r ->
    (match b with
     | X20 -> S2End i
     | X2f -> S2Path i
     | X3a ->
       (match r with
        | [] -> step2 seen r (add i (S O))
        | b1 :: l0 ->
          (match b1 with
           | X2f ->
             (match l0 with
              | [] -> step2 seen r (add i (S O))
              | b2 :: r' ->
                (match b2 with
                 | X2f ->
                   if seen
                   then step2 seen r (add i (S O))
                   else step2 true r' (add i (S (S (S O))))
                 | _ -> step2 seen r (add i (S O))))
           | _ -> step2 seen r (add i (S O))))
     | X3f -> S2End i
     | _ -> if is_valid_uri_byte b then step2 seen r (add i (S O)) else S2Err)

(** val finish_uri : bytes -> nat -> nat -> nat -> (uri * bytes) res **)

let finish_uri buf k ps pe =
  bind (str_unchecked (firstn k buf)) (fun u -> Ok ({ full = u; p_start = ps;
    p_end = pe }, (skipn (S k) buf)))

(** val is_crlf_byte : byte -> bool **)

let is_crlf_byte = function
| X0a -> true
| X0d -> true
| _ -> false

(** val parse_uri : bytes -> (uri * bytes) res **)

let parse_uri buf = match buf with
| [] -> Err EEof
| first :: _ ->
  if eqb0 first X2a
  then (match nth_error buf (S O) with
        | Some b ->
          (match b with
           | X20 ->
             Ok ({ full = (X2a :: []); p_start = O; p_end = (S O) },
               (skipn (S (S O)) buf))
           | _ -> Err EStatus)
        | None -> Err EEof)
  else (match if eqb0 first X2f then S2Path O else step2 false buf O with
        | S2Err -> Err EStatus
        | S2Path ps ->
          let i = add ps (match_path_vectored (skipn ps buf)) in
          let bad =
            add ps (match_uri_vectored (firstn (sub i ps) (skipn ps buf)))
          in
          if Nat.ltb bad i
          then (match nth_error buf bad with
                | Some b ->
                  if is_crlf_byte b then Err EVersion else Err EStatus
                | None -> Fault FOob)
          else (match nth_error buf i with
                | Some b ->
                  (match b with
                   | X20 -> finish_uri buf i ps i
                   | X3f ->
                     let i2 = add (S i) (match_uri_vectored (skipn (S i) buf))
                     in
                     (match nth_error buf i2 with
                      | Some b1 ->
                        (match b1 with
                         | X20 -> finish_uri buf i2 ps i
                         | _ -> Err EStatus)
                      | None -> Err EEof)
                   | _ -> Err EStatus)
                | None -> Err EEof)
        | S2End i ->
          let j = add i (match_uri_vectored (skipn i buf)) in
          (match nth_error buf j with
           | Some b ->
             (match b with
              | X20 ->
                if Nat.eqb j O then Err EStatus else finish_uri buf j O O
              | _ -> Err EStatus)
           | None -> Err EEof))

(** val parse_version : bytes -> (n * bytes) res **)

let parse_version buf =
  match strip_prefix
          (bs (String ((Ascii (false, false, false, true, false, false, true,
            false)), (String ((Ascii (false, false, true, false, true, false,
            true, false)), (String ((Ascii (false, false, true, false, true,
            false, true, false)), (String ((Ascii (false, false, false,
            false, true, false, true, false)), (String ((Ascii (true, true,
            true, true, false, true, false, false)), (String ((Ascii (true,
            false, false, false, true, true, false, false)), (String ((Ascii
            (false, true, true, true, false, true, false, false)),
            EmptyString))))))))))))))) buf with
  | Some rest ->
    (match rest with
     | [] -> Err EEof
     | b :: r ->
       (match b with
        | X30 -> Ok (N0, r)
        | X31 -> Ok ((Npos XH), r)
        | _ -> Err EVersion))
  | None ->
    if is_prefix (firstn (S (S (S (S (S (S (S O))))))) buf)
         (bs (String ((Ascii (false, false, false, true, false, false, true,
           false)), (String ((Ascii (false, false, true, false, true, false,
           true, false)), (String ((Ascii (false, false, true, false, true,
           false, true, false)), (String ((Ascii (false, false, false, false,
           true, false, true, false)), (String ((Ascii (true, true, true,
           true, false, true, false, false)), (String ((Ascii (true, false,
           false, false, true, true, false, false)), (String ((Ascii (false,
           true, true, true, false, true, false, false)),
           EmptyString)))))))))))))))
    then Err EEof
    else Err EVersion

(** val fIELD_VALID : bytes **)

let fIELD_VALID =
  bs (String ((Ascii (true, false, false, false, false, true, false, false)),
    (String ((Ascii (true, true, false, false, false, true, false, false)),
    (String ((Ascii (false, false, true, false, false, true, false, false)),
    (String ((Ascii (true, false, true, false, false, true, false, false)),
    (String ((Ascii (false, true, true, false, false, true, false, false)),
    (String ((Ascii (true, true, true, false, false, true, false, false)),
    (String ((Ascii (false, true, false, true, false, true, false, false)),
    (String ((Ascii (true, true, false, true, false, true, false, false)),
    (String ((Ascii (true, false, true, true, false, true, false, false)),
    (String ((Ascii (false, true, true, true, false, true, false, false)),
    (String ((Ascii (false, true, true, true, true, false, true, false)),
    (String ((Ascii (true, true, true, true, true, false, true, false)),
    (String ((Ascii (false, false, false, false, false, true, true, false)),
    (String ((Ascii (false, false, true, true, true, true, true, false)),
    (String ((Ascii (false, true, true, true, true, true, true, false)),
    (String ((Ascii (true, false, false, false, false, false, true, false)),
    (String ((Ascii (false, true, false, false, false, false, true, false)),
    (String ((Ascii (true, true, false, false, false, false, true, false)),
    (String ((Ascii (false, false, true, false, false, false, true, false)),
    (String ((Ascii (true, false, true, false, false, false, true, false)),
    (String ((Ascii (false, true, true, false, false, false, true, false)),
    (String ((Ascii (true, true, true, false, false, false, true, false)),
    (String ((Ascii (false, false, false, true, false, false, true, false)),
    (String ((Ascii (true, false, false, true, false, false, true, false)),
    (String ((Ascii (false, true, false, true, false, false, true, false)),
    (String ((Ascii (true, true, false, true, false, false, true, false)),
    (String ((Ascii (false, false, true, true, false, false, true, false)),
    (String ((Ascii (true, false, true, true, false, false, true, false)),
    (String ((Ascii (false, true, true, true, false, false, true, false)),
    (String ((Ascii (true, true, true, true, false, false, true, false)),
    (String ((Ascii (false, false, false, false, true, false, true, false)),
    (String ((Ascii (true, false, false, false, true, false, true, false)),
    (String ((Ascii (false, true, false, false, true, false, true, false)),
    (String ((Ascii (true, true, false, false, true, false, true, false)),
    (String ((Ascii (false, false, true, false, true, false, true, false)),
    (String ((Ascii (true, false, true, false, true, false, true, false)),
    (String ((Ascii (false, true, true, false, true, false, true, false)),
    (String ((Ascii (true, true, true, false, true, false, true, false)),
    (String ((Ascii (false, false, false, true, true, false, true, false)),
    (String ((Ascii (true, false, false, true, true, false, true, false)),
    (String ((Ascii (false, true, false, true, true, false, true, false)),
    (String ((Ascii (true, false, false, false, false, true, true, false)),
    (String ((Ascii (false, true, false, false, false, true, true, false)),
    (String ((Ascii (true, true, false, false, false, true, true, false)),
    (String ((Ascii (false, false, true, false, false, true, true, false)),
    (String ((Ascii (true, false, true, false, false, true, true, false)),
    (String ((Ascii (false, true, true, false, false, true, true, false)),
    (String ((Ascii (true, true, true, false, false, true, true, false)),
    (String ((Ascii (false, false, false, true, false, true, true, false)),
    (String ((Ascii (true, false, false, true, false, true, true, false)),
    (String ((Ascii (false, true, false, true, false, true, true, false)),
    (String ((Ascii (true, true, false, true, false, true, true, false)),
    (String ((Ascii (false, false, true, true, false, true, true, false)),
    (String ((Ascii (true, false, true, true, false, true, true, false)),
    (String ((Ascii (false, true, true, true, false, true, true, false)),
    (String ((Ascii (true, true, true, true, false, true, true, false)),
    (String ((Ascii (false, false, false, false, true, true, true, false)),
    (String ((Ascii (true, false, false, false, true, true, true, false)),
    (String ((Ascii (false, true, false, false, true, true, true, false)),
    (String ((Ascii (true, true, false, false, true, true, true, false)),
    (String ((Ascii (false, false, true, false, true, true, true, false)),
    (String ((Ascii (true, false, true, false, true, true, true, false)),
    (String ((Ascii (false, true, true, false, true, true, true, false)),
    (String ((Ascii (true, true, true, false, true, true, true, false)),
    (String ((Ascii (false, false, false, true, true, true, true, false)),
    (String ((Ascii (true, false, false, true, true, true, true, false)),
    (String ((Ascii (false, true, false, true, true, true, true, false)),
    (String ((Ascii (false, false, false, false, true, true, false, false)),
    (String ((Ascii (true, false, false, false, true, true, false, false)),
    (String ((Ascii (false, true, false, false, true, true, false, false)),
    (String ((Ascii (true, true, false, false, true, true, false, false)),
    (String ((Ascii (false, false, true, false, true, true, false, false)),
    (String ((Ascii (true, false, true, false, true, true, false, false)),
    (String ((Ascii (false, true, true, false, true, true, false, false)),
    (String ((Ascii (true, true, true, false, true, true, false, false)),
    (String ((Ascii (false, false, false, true, true, true, false, false)),
    (String ((Ascii (true, false, false, true, true, true, false, false)),
    EmptyString))))))))))))))))))))))))))))))))))))))))))))))))))))))))))))))))))))))))))))))))))))))))))))))))))))))))))))))))))))))))))))))))))))))))))))))))))))))))))

(** val is_valid_header_field_byte : byte -> bool **)

let is_valid_header_field_byte b =
  existsb (eqb0 b) fIELD_VALID

(** val parse_header_line : bytes -> (bytes * bytes) res **)

let parse_header_line line =
  match find_index (eqb0 X3a) line with
  | Some colon ->
    let nm = firstn colon line in
    if (||) (Nat.eqb colon O) (negb (forallb is_valid_header_field_byte nm))
    then Err EHeader
    else bind (str_unchecked nm) (fun name -> Ok (name,
           (trim_start is_ows (skipn (S colon) line))))
  | None -> Err EHeader

(** val parse_headers_f : nat -> headers -> bytes -> (headers * bytes) res **)

let rec parse_headers_f fuel h buf =
  match fuel with
  | O -> Fault FFuel
  | S fuel' ->
    (match strip_prefix (X0d :: (X0a :: [])) buf with
     | Some rest -> Ok (h, rest)
     | None ->
       (match find_index (eqb0 X0a) buf with
        | Some nl ->
          if Nat.eqb nl O
          then Err EHeader
          else (match nth_error buf (sub nl (S O)) with
                | Some c ->
                  if negb (eqb0 c X0d)
                  then Err EHeader
                  else bind (parse_header_line (firstn (sub nl (S O)) buf))
                         (fun x ->
                         let (name, value) = x in
                         if (&&) (eq_ic name cONTENT_LENGTH)
                              (match parse_content_length value with
                               | Some n0 ->
                                 (match h.content_length with
                                  | Some m -> negb (N.eqb n0 m)
                                  | None -> false)
                               | None -> true)
                         then Err EHeader
                         else parse_headers_f fuel' (add0 h name value)
                                (skipn (S nl) buf))
                | None -> Fault FOob)
        | None -> Err EEof))

(** val parse_headers : bytes -> (headers * bytes) res **)

let parse_headers buf =
  parse_headers_f (S (length buf)) new_headers buf

(** val offset_of : bytes -> bytes -> nat res **)

let offset_of buf rest =
  if Nat.leb (length rest) (length buf)
  then Ok (sub (length buf) (length rest))
  else Fault FOob

(** val parse_request : bytes -> request res **)

let parse_request buf =
  bind (parse_method buf) (fun x ->
    let (m, r1) = x in
    bind (parse_uri r1) (fun x0 ->
      let (u, r2) = x0 in
      bind (parse_version r2) (fun x1 ->
        let (v, r3) = x1 in
        (match r3 with
         | [] -> Err EEof
         | b :: l ->
           (match b with
            | X0d ->
              (match l with
               | [] -> Err EEof
               | b1 :: r4 ->
                 (match b1 with
                  | X0a ->
                    bind (parse_headers r4) (fun x2 ->
                      let (hs, r5) = x2 in
                      bind (offset_of buf r5) (fun off -> Ok { q_meth = m;
                        q_target = u; q_version = v; q_hdrs = hs; q_offset =
                        off }))
                  | _ -> Err EStatus))
            | _ -> Err EStatus)))))

type response = { r_version : n; r_code : n; r_reason : bytes;
                  r_hdrs : headers; r_offset : nat }

(** val digit_at : bytes -> nat -> n res **)

let digit_at buf i =
  match nth_error buf i with
  | Some b ->
    if is_digit b
    then Ok (N.sub (b2n b) (Npos (XO (XO (XO (XO (XI XH)))))))
    else Err EStatus
  | None -> Err EEof

(** val is_reason_byte : byte -> bool **)

let is_reason_byte c = match c with
| X09 -> true
| X20 -> true
| _ -> is_vchar c

(** val reason_scan : bytes -> nat -> nat res **)

let rec reason_scan l i =
  match l with
  | [] -> Err EEof
  | c :: r ->
    (match r with
     | [] -> Err EEof
     | d :: _ ->
       if (&&) (eqb0 c X0d) (eqb0 d X0a)
       then Ok i
       else if is_reason_byte c then reason_scan r (S i) else Err EStatus)

(** val parse_response_status : bytes -> ((n * bytes) * bytes) res **)

let parse_response_status buf =
  bind (digit_at buf O) (fun h ->
    bind (digit_at buf (S O)) (fun t ->
      bind (digit_at buf (S (S O))) (fun o ->
        match nth_error buf (S (S (S O))) with
        | Some sp ->
          if negb (eqb0 sp X20)
          then Err EStatus
          else let b = skipn (S (S (S (S O)))) buf in
               bind (reason_scan b O) (fun i ->
                 bind (str_unchecked (firstn i b)) (fun reason -> Ok
                   (((N.add
                       (N.add
                         (N.mul h (Npos (XO (XO (XI (XO (XO (XI XH))))))))
                         (N.mul t (Npos (XO (XI (XO XH)))))) o), reason),
                   (skipn (add i (S (S O))) b))))
        | None -> Err EEof)))

(** val parse_response : bytes -> response res **)

let parse_response buf =
  bind (parse_version buf) (fun x ->
    let (v, r1) = x in
    (match r1 with
     | [] -> Err EEof
     | sp :: r2 ->
       if negb (eqb0 sp X20)
       then Err EStatus
       else bind (parse_response_status r2) (fun x0 ->
              let (p, r3) = x0 in
              let (code, reason) = p in
              bind (parse_headers r3) (fun x1 ->
                let (hs, r4) = x1 in
                bind (offset_of buf r4) (fun off -> Ok { r_version = v;
                  r_code = code; r_reason = reason; r_hdrs = hs; r_offset =
                  off })))))

(** val slice : bytes -> nat -> nat -> bytes res **)

let slice l a b =
  if (&&) (Nat.leb a b) (Nat.leb b (length l))
  then Ok (firstn (sub b a) (skipn a l))
  else Fault FOob

(** val find_sub : bytes -> bytes -> nat option **)

let rec find_sub pat l =
  if is_prefix pat l
  then Some O
  else (match l with
        | [] -> None
        | _ :: r -> option_map (fun x -> S x) (find_sub pat r))

(** val sCHEME_SEP : bytes **)

let sCHEME_SEP =
  bs (String ((Ascii (false, true, false, true, true, true, false, false)),
    (String ((Ascii (true, true, true, true, false, true, false, false)),
    (String ((Ascii (true, true, true, true, false, true, false, false)),
    EmptyString))))))

(** val uri_scheme : uri -> bytes option res **)

let uri_scheme u =
  match find_sub sCHEME_SEP u.full with
  | Some idx -> bind (slice u.full O idx) (fun s -> Ok (Some s))
  | None -> Ok None

(** val uri_path : uri -> bytes res **)

let uri_path u =
  slice u.full u.p_start u.p_end

(** val uri_query : uri -> bytes option res **)

let uri_query u =
  bind (slice u.full u.p_end (length u.full)) (fun ps ->
    match find_index (eqb0 X3f) ps with
    | Some q -> bind (slice ps (S q) (length ps)) (fun s -> Ok (Some s))
    | None -> Ok None)

(** val uri_authority : uri -> bytes option res **)

let uri_authority u =
  match find_sub sCHEME_SEP u.full with
  | Some i ->
    if (||) (Nat.eqb u.p_start O) (Nat.leb (add i (S (S (S O)))) u.p_start)
    then let start = add i (S (S (S O))) in
         if Nat.eqb u.p_start O
         then bind (slice u.full start (length u.full)) (fun rest ->
                match find_index (eqb0 X3f) rest with
                | Some i0 -> bind (slice rest O i0) (fun s -> Ok (Some s))
                | None -> Ok (Some rest))
         else bind (slice u.full start u.p_start) (fun s -> Ok (Some s))
    else (match u.full with
          | [] ->
            (match find_index (fun b -> (||) (eqb0 b X2f) (eqb0 b X3f)) u.full with
             | Some i0 -> bind (slice u.full O i0) (fun s -> Ok (Some s))
             | None -> Ok (Some u.full))
          | b :: _ ->
            (match b with
             | X2f -> Ok None
             | _ ->
               (match find_index (fun b1 -> (||) (eqb0 b1 X2f) (eqb0 b1 X3f))
                        u.full with
                | Some i0 -> bind (slice u.full O i0) (fun s -> Ok (Some s))
                | None -> Ok (Some u.full))))
  | None ->
    (match u.full with
     | [] ->
       (match find_index (fun b -> (||) (eqb0 b X2f) (eqb0 b X3f)) u.full with
        | Some i -> bind (slice u.full O i) (fun s -> Ok (Some s))
        | None -> Ok (Some u.full))
     | b :: _ ->
       (match b with
        | X2f -> Ok None
        | _ ->
          (match find_index (fun b1 -> (||) (eqb0 b1 X2f) (eqb0 b1 X3f))
                   u.full with
           | Some i -> bind (slice u.full O i) (fun s -> Ok (Some s))
           | None -> Ok (Some u.full))))

(** val uri_path_and_query : uri -> bytes res **)

let uri_path_and_query u =
  if negb (Nat.eqb u.p_end O)
  then slice u.full u.p_start (length u.full)
  else (match find_sub sCHEME_SEP u.full with
        | Some scheme_i ->
          bind (slice u.full (add scheme_i (S (S (S O)))) (length u.full))
            (fun rest ->
            match find_index (eqb0 X3f) rest with
            | Some rel_q ->
              slice u.full (add (add scheme_i (S (S (S O)))) rel_q)
                (length u.full)
            | None -> Ok [])
        | None -> Ok [])

(** val lF : byte **)

let lF =
  X0a

(** val sP : byte **)

let sP =
  X20

(** val cRLF : bytes **)

let cRLF =
  X0d :: (X0a :: [])

(** val in_set : bytes -> byte -> bool **)

let in_set s b =
  existsb (eqb0 b) s

(** val is_tchar : byte -> bool **)

let is_tchar b =
  (||) ((||) (is_alpha b) (is_digit b))
    (in_set
      (bs (String ((Ascii (true, false, false, false, false, true, false,
        false)), (String ((Ascii (true, true, false, false, false, true,
        false, false)), (String ((Ascii (false, false, true, false, false,
        true, false, false)), (String ((Ascii (true, false, true, false,
        false, true, false, false)), (String ((Ascii (false, true, true,
        false, false, true, false, false)), (String ((Ascii (true, true,
        true, false, false, true, false, false)), (String ((Ascii (false,
        true, false, true, false, true, false, false)), (String ((Ascii
        (true, true, false, true, false, true, false, false)), (String
        ((Ascii (true, false, true, true, false, true, false, false)),
        (String ((Ascii (false, true, true, true, false, true, false,
        false)), (String ((Ascii (false, true, true, true, true, false, true,
        false)), (String ((Ascii (true, true, true, true, true, false, true,
        false)), (String ((Ascii (false, false, false, false, false, true,
        true, false)), (String ((Ascii (false, false, true, true, true, true,
        true, false)), (String ((Ascii (false, true, true, true, true, true,
        true, false)), EmptyString))))))))))))))))))))))))))))))) b)

(** val is_unreserved : byte -> bool **)

let is_unreserved b =
  (||) ((||) (is_alpha b) (is_digit b))
    (in_set
      (bs (String ((Ascii (true, false, true, true, false, true, false,
        false)), (String ((Ascii (false, true, true, true, false, true,
        false, false)), (String ((Ascii (true, true, true, true, true, false,
        true, false)), (String ((Ascii (false, true, true, true, true, true,
        true, false)), EmptyString))))))))) b)

(** val is_subdelim : byte -> bool **)

let is_subdelim b =
  in_set
    (bs (String ((Ascii (true, false, false, false, false, true, false,
      false)), (String ((Ascii (false, false, true, false, false, true,
      false, false)), (String ((Ascii (false, true, true, false, false, true,
      false, false)), (String ((Ascii (true, true, true, false, false, true,
      false, false)), (String ((Ascii (false, false, false, true, false,
      true, false, false)), (String ((Ascii (true, false, false, true, false,
      true, false, false)), (String ((Ascii (false, true, false, true, false,
      true, false, false)), (String ((Ascii (true, true, false, true, false,
      true, false, false)), (String ((Ascii (false, false, true, true, false,
      true, false, false)), (String ((Ascii (true, true, false, true, true,
      true, false, false)), (String ((Ascii (true, false, true, true, true,
      true, false, false)), EmptyString))))))))))))))))))))))) b

(** val is_pchar : byte -> bool **)

let is_pchar b =
  (||) ((||) (is_unreserved b) (is_subdelim b))
    (in_set
      (bs (String ((Ascii (false, true, false, true, true, true, false,
        false)), (String ((Ascii (false, false, false, false, false, false,
        true, false)), (String ((Ascii (true, false, true, false, false,
        true, false, false)), EmptyString))))))) b)

(** val is_path_char : byte -> bool **)

let is_path_char b =
  (||) (is_pchar b) (eqb0 b X2f)

(** val is_query_char : byte -> bool **)

let is_query_char b =
  (||) (is_pchar b)
    (in_set
      (bs (String ((Ascii (true, true, true, true, false, true, false,
        false)), (String ((Ascii (true, true, true, true, true, true, false,
        false)), EmptyString))))) b)

(** val is_authority_char : byte -> bool **)

let is_authority_char b =
  (||) ((||) (is_unreserved b) (is_subdelim b))
    (in_set
      (bs (String ((Ascii (false, true, false, true, true, true, false,
        false)), (String ((Ascii (false, false, false, false, false, false,
        true, false)), (String ((Ascii (true, false, true, false, false,
        true, false, false)), (String ((Ascii (true, true, false, true, true,
        false, true, false)), (String ((Ascii (true, false, true, true, true,
        false, true, false)), EmptyString))))))))))) b)

(** val is_scheme_char : byte -> bool **)

let is_scheme_char b =
  (||) ((||) (is_alpha b) (is_digit b))
    (in_set
      (bs (String ((Ascii (true, true, false, true, false, true, false,
        false)), (String ((Ascii (true, false, true, true, false, true,
        false, false)), (String ((Ascii (false, true, true, true, false,
        true, false, false)), EmptyString))))))) b)

(** val is_field_vchar : byte -> bool **)

let is_field_vchar b =
  (||)
    ((||) (is_vchar b)
      (N.leb (Npos (XO (XO (XO (XO (XO (XO (XO XH)))))))) (b2n b))) (is_ows b)

type target =
| Origin of bytes * bytes option
| Absolute of bytes * bytes * bytes * bytes option
| AuthorityForm of bytes
| Asterisk

type field = { f_name : bytes; f_ows : bytes; f_value : bytes }

type head = { h_method : bytes; h_target : target; h_minor : bool;
              h_fields : field list }

(** val render_query : bytes option -> bytes **)

let render_query = function
| Some s -> X3f :: s
| None -> []

(** val render_target : target -> bytes **)

let render_target = function
| Origin (p, q) -> app p (render_query q)
| Absolute (s, a, p, q) ->
  app s
    (app
      (bs (String ((Ascii (false, true, false, true, true, true, false,
        false)), (String ((Ascii (true, true, true, true, false, true, false,
        false)), (String ((Ascii (true, true, true, true, false, true, false,
        false)), EmptyString))))))) (app a (app p (render_query q))))
| AuthorityForm a -> a
| Asterisk -> X2a :: []

(** val render_field : field -> bytes **)

let render_field f =
  app f.f_name (app (X3a :: []) (app f.f_ows (app f.f_value cRLF)))

(** val render : head -> bytes **)

let render h =
  app h.h_method
    (app (sP :: [])
      (app (render_target h.h_target)
        (app (sP :: [])
          (app
            (bs (String ((Ascii (false, false, false, true, false, false,
              true, false)), (String ((Ascii (false, false, true, false,
              true, false, true, false)), (String ((Ascii (false, false,
              true, false, true, false, true, false)), (String ((Ascii
              (false, false, false, false, true, false, true, false)),
              (String ((Ascii (true, true, true, true, false, true, false,
              false)), (String ((Ascii (true, false, false, false, true,
              true, false, false)), (String ((Ascii (false, true, true, true,
              false, true, false, false)), EmptyString)))))))))))))))
            (app ((if h.h_minor then X31 else X30) :: [])
              (app cRLF (app (flat_map render_field h.h_fields) cRLF)))))))

(** val nonempty : bytes -> bool **)

let nonempty = function
| [] -> false
| _ :: _ -> true

(** val opt_all : (byte -> bool) -> bytes option -> bool **)

let opt_all p = function
| Some s -> forallb p s
| None -> true

(** val rfc_target : target -> bool **)

let rfc_target = function
| Origin (p, q) ->
  (&&)
    ((&&)
      (match p with
       | [] -> false
       | b :: _ -> (match b with
                    | X2f -> true
                    | _ -> false)) (forallb is_path_char p))
    (opt_all is_query_char q)
| Absolute (s, a, p, q) ->
  (&&)
    ((&&)
      ((&&)
        ((&&)
          ((&&)
            ((&&) (match s with
                   | [] -> false
                   | c :: _ -> is_alpha c) (forallb is_scheme_char s))
            (nonempty a)) (forallb is_authority_char a))
        (match p with
         | [] -> true
         | b :: _ -> (match b with
                      | X2f -> true
                      | _ -> false))) (forallb is_path_char p))
    (opt_all is_query_char q)
| AuthorityForm a ->
  (&&)
    ((&&) (nonempty a)
      (forallb (fun b ->
        (||) ((||) (is_unreserved b) (is_subdelim b))
          (in_set
            (bs (String ((Ascii (false, true, false, true, true, true, false,
              false)), (String ((Ascii (true, false, true, false, false,
              true, false, false)), (String ((Ascii (true, true, false, true,
              true, false, true, false)), (String ((Ascii (true, false, true,
              true, true, false, true, false)), EmptyString))))))))) b)) a))
    (match a with
     | [] -> true
     | b :: _ -> (match b with
                  | X2a -> false
                  | _ -> true))
| Asterisk -> true

(** val rfc_field : field -> bool **)

let rfc_field f =
  (&&)
    ((&&)
      ((&&) ((&&) (nonempty f.f_name) (forallb is_tchar f.f_name))
        (forallb is_ows f.f_ows)) (forallb is_field_vchar f.f_value))
    (match f.f_value with
     | [] -> true
     | b :: _ -> negb (is_ows b))

(** val rfc_head : head -> bool **)

let rfc_head h =
  (&&)
    ((&&) ((&&) (nonempty h.h_method) (forallb is_alpha h.h_method))
      (rfc_target h.h_target)) (forallb rfc_field h.h_fields)

(** val target_path : target -> bytes **)

let target_path = function
| Origin (p, _) -> p
| Absolute (_, _, p, _) -> p
| AuthorityForm _ -> []
| Asterisk -> X2a :: []

(** val target_query : target -> bytes option **)

let target_query = function
| Origin (_, q) -> q
| Absolute (_, _, _, q) -> q
| _ -> None

(** val headers_of : (bytes * bytes) list -> headers **)

let headers_of fs =
  fold_left (fun h nv -> add0 h (fst nv) (snd nv)) fs new_headers

(** val field_pairs : head -> (bytes * bytes) list **)

let field_pairs h =
  map (fun f -> (f.f_name, f.f_value)) h.h_fields

(** val cl_values : (bytes * bytes) list -> n option list **)

let cl_values fs =
  map (fun nv -> parse_content_length (snd nv))
    (filter (fun nv -> eq_ic (fst nv) cONTENT_LENGTH) fs)

(** val cl_consistent : (bytes * bytes) list -> bool **)

let cl_consistent fs =
  match cl_values fs with
  | [] -> true
  | o :: r ->
    (match o with
     | Some n0 ->
       forallb (fun o0 -> match o0 with
                          | Some m -> N.eqb m n0
                          | None -> false) r
     | None -> false)

(** val split_at : byte -> bytes -> (bytes * bytes) option **)

let rec split_at c = function
| [] -> None
| b :: r ->
  if eqb0 b c
  then Some ([], r)
  else (match split_at c r with
        | Some p -> let (x, y) = p in Some ((b :: x), y)
        | None -> None)

(** val take_line : bytes -> (bytes * bytes) option **)

let take_line l =
  match split_at lF l with
  | Some p ->
    let (before, rest) = p in
    (match frev before with
     | [] -> None
     | b :: rb -> (match b with
                   | X0d -> Some ((frev rb), rest)
                   | _ -> None))
  | None -> None

type sfield = { s_name : bytes; s_raw : bytes }

type shead = { s_method : bytes; s_target : bytes; s_minor : bool;
               s_fields : sfield list }

(** val strict_fields : nat -> bytes -> (sfield list * bytes) option **)

let rec strict_fields fuel l =
  match fuel with
  | O -> None
  | S fuel' ->
    (match l with
     | [] ->
       (match take_line l with
        | Some p ->
          let (line, rest) = p in
          (match split_at X3a line with
           | Some p0 ->
             let (name, raw) = p0 in
             if (&&) (nonempty name) (forallb is_tchar name)
             then (match strict_fields fuel' rest with
                   | Some p1 ->
                     let (fs, rest') = p1 in
                     Some (({ s_name = name; s_raw = raw } :: fs), rest')
                   | None -> None)
             else None
           | None -> None)
        | None -> None)
     | b :: l0 ->
       (match b with
        | X0d ->
          (match l0 with
           | [] ->
             (match take_line l with
              | Some p ->
                let (line, rest) = p in
                (match split_at X3a line with
                 | Some p0 ->
                   let (name, raw) = p0 in
                   if (&&) (nonempty name) (forallb is_tchar name)
                   then (match strict_fields fuel' rest with
                         | Some p1 ->
                           let (fs, rest') = p1 in
                           Some (({ s_name = name; s_raw = raw } :: fs),
                           rest')
                         | None -> None)
                   else None
                 | None -> None)
              | None -> None)
           | b1 :: rest ->
             (match b1 with
              | X0a -> Some ([], rest)
              | _ ->
                (match take_line l with
                 | Some p ->
                   let (line, rest0) = p in
                   (match split_at X3a line with
                    | Some p0 ->
                      let (name, raw) = p0 in
                      if (&&) (nonempty name) (forallb is_tchar name)
                      then (match strict_fields fuel' rest0 with
                            | Some p1 ->
                              let (fs, rest') = p1 in
                              Some (({ s_name = name; s_raw = raw } :: fs),
                              rest')
                            | None -> None)
                      else None
                    | None -> None)
                 | None -> None)))
        | _ ->
          (match take_line l with
           | Some p ->
             let (line, rest) = p in
             (match split_at X3a line with
              | Some p0 ->
                let (name, raw) = p0 in
                if (&&) (nonempty name) (forallb is_tchar name)
                then (match strict_fields fuel' rest with
                      | Some p1 ->
                        let (fs, rest') = p1 in
                        Some (({ s_name = name; s_raw = raw } :: fs), rest')
                      | None -> None)
                else None
              | None -> None)
           | None -> None)))

(** val strict_head : bytes -> (shead * nat) option **)

let strict_head s =
  match split_at sP s with
  | Some p ->
    let (m, r1) = p in
    if negb ((&&) (nonempty m) (forallb is_tchar m))
    then None
    else (match split_at sP r1 with
          | Some p0 ->
            let (t, r2) = p0 in
            if negb ((&&) (nonempty t) (forallb is_vchar t))
            then None
            else (match strip_prefix
                          (bs (String ((Ascii (false, false, false, true,
                            false, false, true, false)), (String ((Ascii
                            (false, false, true, false, true, false, true,
                            false)), (String ((Ascii (false, false, true,
                            false, true, false, true, false)), (String
                            ((Ascii (false, false, false, false, true, false,
                            true, false)), (String ((Ascii (true, true, true,
                            true, false, true, false, false)), (String
                            ((Ascii (true, false, false, false, true, true,
                            false, false)), (String ((Ascii (false, true,
                            true, true, false, true, false, false)),
                            EmptyString))))))))))))))) r2 with
                  | Some r3 ->
                    (match r3 with
                     | [] -> None
                     | d :: l ->
                       (match l with
                        | [] -> None
                        | b :: l0 ->
                          (match b with
                           | X0d ->
                             (match l0 with
                              | [] -> None
                              | b1 :: r4 ->
                                (match b1 with
                                 | X0a ->
                                   if (||) (eqb0 d X31) (eqb0 d X30)
                                   then (match strict_fields (S (length r4))
                                                 r4 with
                                         | Some p1 ->
                                           let (fs, rest) = p1 in
                                           Some ({ s_method = m; s_target =
                                           t; s_minor = (eqb0 d X31);
                                           s_fields = fs },
                                           (sub (length s) (length rest)))
                                         | None -> None)
                                   else None
                                 | _ -> None))
                           | _ -> None)))
                  | None -> None)
          | None -> None)
  | None -> None

(** val field_value : bytes -> bytes **)

let field_value raw =
  drop_while is_ows raw

(** val sfield_pairs : sfield list -> (bytes * bytes) list **)

let sfield_pairs fs =
  map (fun f -> (f.s_name, (field_value f.s_raw))) fs

(** val cl_values_rfc : (bytes * bytes) list -> n option list **)

let cl_values_rfc fs =
  map (fun nv -> cl_value (snd nv))
    (filter (fun nv ->
      same_name (fst nv)
        (bs (String ((Ascii (true, true, false, false, false, true, true,
          false)), (String ((Ascii (true, true, true, true, false, true,
          true, false)), (String ((Ascii (false, true, true, true, false,
          true, true, false)), (String ((Ascii (false, false, true, false,
          true, true, true, false)), (String ((Ascii (true, false, true,
          false, false, true, true, false)), (String ((Ascii (false, true,
          true, true, false, true, true, false)), (String ((Ascii (false,
          false, true, false, true, true, true, false)), (String ((Ascii
          (true, false, true, true, false, true, false, false)), (String
          ((Ascii (false, false, true, true, false, true, true, false)),
          (String ((Ascii (true, false, true, false, false, true, true,
          false)), (String ((Ascii (false, true, true, true, false, true,
          true, false)), (String ((Ascii (true, true, true, false, false,
          true, true, false)), (String ((Ascii (false, false, true, false,
          true, true, true, false)), (String ((Ascii (false, false, false,
          true, false, true, true, false)),
          EmptyString)))))))))))))))))))))))))))))) fs)

(** val cl_consistent_rfc : (bytes * bytes) list -> bool **)

let cl_consistent_rfc fs =
  match cl_values_rfc fs with
  | [] -> true
  | o :: r ->
    (match o with
     | Some n0 ->
       forallb (fun o0 -> match o0 with
                          | Some m -> N.eqb m n0
                          | None -> false) r
     | None -> false)

(** val in_rng : byte -> n -> n -> bool **)

let in_rng b lo0 hi =
  (&&) (N.leb lo0 (b2n b)) (N.leb (b2n b) hi)

(** val cont : byte -> bool **)

let cont b =
  in_rng b (Npos (XO (XO (XO (XO (XO (XO (XO XH)))))))) (Npos (XI (XI (XI (XI
    (XI (XI (XO XH))))))))

(** val utf8_valid : bytes -> bool **)

let rec utf8_valid = function
| [] -> true
| b :: r ->
  if N.ltb (b2n b) (Npos (XO (XO (XO (XO (XO (XO (XO XH))))))))
  then utf8_valid r
  else if in_rng b (Npos (XO (XI (XO (XO (XO (XO (XI XH)))))))) (Npos (XI (XI
            (XI (XI (XI (XO (XI XH))))))))
       then (match r with
             | [] -> false
             | c1 :: r' -> (&&) (cont c1) (utf8_valid r'))
       else if in_rng b (Npos (XO (XO (XO (XO (XO (XI (XI XH)))))))) (Npos
                 (XI (XI (XI (XI (XO (XI (XI XH))))))))
            then (match r with
                  | [] -> false
                  | c1 :: l0 ->
                    (match l0 with
                     | [] -> false
                     | c2 :: r' ->
                       (&&)
                         ((&&)
                           (if N.eqb (b2n b) (Npos (XO (XO (XO (XO (XO (XI
                                 (XI XH))))))))
                            then in_rng c1 (Npos (XO (XO (XO (XO (XO (XI (XO
                                   XH)))))))) (Npos (XI (XI (XI (XI (XI (XI
                                   (XO XH))))))))
                            else if N.eqb (b2n b) (Npos (XI (XO (XI (XI (XO
                                      (XI (XI XH))))))))
                                 then in_rng c1 (Npos (XO (XO (XO (XO (XO (XO
                                        (XO XH)))))))) (Npos (XI (XI (XI (XI
                                        (XI (XO (XO XH))))))))
                                 else cont c1) (cont c2)) (utf8_valid r')))
            else if in_rng b (Npos (XO (XO (XO (XO (XI (XI (XI XH))))))))
                      (Npos (XO (XO (XI (XO (XI (XI (XI XH))))))))
                 then (match r with
                       | [] -> false
                       | c1 :: l0 ->
                         (match l0 with
                          | [] -> false
                          | c2 :: l1 ->
                            (match l1 with
                             | [] -> false
                             | c3 :: r' ->
                               (&&)
                                 ((&&)
                                   ((&&)
                                     (if N.eqb (b2n b) (Npos (XO (XO (XO (XO
                                           (XI (XI (XI XH))))))))
                                      then in_rng c1 (Npos (XO (XO (XO (XO
                                             (XI (XO (XO XH)))))))) (Npos (XI
                                             (XI (XI (XI (XI (XI (XO
                                             XH))))))))
                                      else if N.eqb (b2n b) (Npos (XO (XO (XI
                                                (XO (XI (XI (XI XH))))))))
                                           then in_rng c1 (Npos (XO (XO (XO
                                                  (XO (XO (XO (XO XH))))))))
                                                  (Npos (XI (XI (XI (XI (XO
                                                  (XO (XO XH))))))))
                                           else cont c1) (cont c2)) (cont c3))
                                 (utf8_valid r'))))
                 else false

(** val bUF_SIZE : n **)

let bUF_SIZE =
  Npos (XO (XO (XO (XO (XO (XO (XO (XO (XO (XO (XO (XO XH))))))))))))

(** val firstnN : n -> bytes -> bytes **)

let rec firstnN k = function
| [] -> []
| x :: r -> if N.eqb k N0 then [] else x :: (firstnN (N.pred k) r)

(** val skipnN : n -> bytes -> bytes **)

let rec skipnN k l = match l with
| [] -> []
| _ :: r -> if N.eqb k N0 then l else skipnN (N.pred k) r

(** val lenN : bytes -> n **)

let lenN l =
  N.of_nat (length l)

type src = { bbuf : bytes; lo : bytes; segs0 : bytes list; sfuel : nat;
             stake : n option }

(** val mk_src : bytes -> bytes list -> src **)

let mk_src leftover stream =
  { bbuf = []; lo = leftover; segs0 = stream; sfuel =
    (add
      (mul (S (S (S (S O)))) (S
        (add (length leftover) (length (concat stream))))) (S (S (S (S (S (S
      (S (S O))))))))); stake = None }

(** val mk_src_take : bytes -> bytes list -> n -> src **)

let mk_src_take leftover stream limit =
  { bbuf = []; lo = leftover; segs0 = stream; sfuel =
    (add
      (mul (S (S (S (S O)))) (S
        (add (length leftover) (length (concat stream))))) (S (S (S (S (S (S
      (S (S O))))))))); stake = (Some limit) }

(** val src_rest : src -> bytes **)

let src_rest s =
  app s.bbuf (app s.lo (concat s.segs0))

(** val stream_read : n -> bytes list -> bytes * bytes list **)

let rec stream_read k = function
| [] -> ([], [])
| g :: rest ->
  (match g with
   | [] -> stream_read k rest
   | _ :: _ ->
     let out = firstnN k g in
     (match skipnN k g with
      | [] -> (out, rest)
      | b :: l -> (out, ((b :: l) :: rest))))

(** val inner_read :
    n -> bytes -> bytes list -> (bytes * bytes) * bytes list **)

let inner_read k l sg =
  match l with
  | [] -> let (out, sg') = stream_read k sg in ((out, []), sg')
  | _ :: _ -> (((firstnN k l), (skipnN k l)), sg)

(** val take_read : n -> src -> ((bytes * bytes) * bytes list) * n option **)

let take_read k s =
  match s.stake with
  | Some lim ->
    if N.eqb lim N0
    then ((([], s.lo), s.segs0), (Some N0))
    else let (p, sg') = inner_read (N.min k lim) s.lo s.segs0 in
         let (out, l') = p in
         (((out, l'), sg'), (Some (N.sub lim (lenN out))))
  | None -> ((inner_read k s.lo s.segs0), None)

(** val fill_buf : src -> src **)

let fill_buf s =
  match s.bbuf with
  | [] ->
    let (p, tk) = take_read bUF_SIZE s in
    let (p0, sg') = p in
    let (out, l') = p0 in
    { bbuf = out; lo = l'; segs0 = sg'; sfuel = s.sfuel; stake = tk }
  | _ :: _ -> s

(** val consume : n -> src -> src **)

let consume n0 s =
  { bbuf = (skipnN n0 s.bbuf); lo = s.lo; segs0 = s.segs0; sfuel = s.sfuel;
    stake = s.stake }

(** val buf_read : n -> src -> bytes * src **)

let buf_read k s =
  match s.bbuf with
  | [] ->
    if N.leb bUF_SIZE k
    then let (p, tk) = take_read k s in
         let (p0, sg') = p in
         let (out, l') = p0 in
         (out, { bbuf = []; lo = l'; segs0 = sg'; sfuel = s.sfuel; stake =
         tk })
    else let s' = fill_buf s in ((firstnN k s'.bbuf), (consume k s'))
  | _ :: _ -> ((firstnN k s.bbuf), (consume k s))

(** val read_exact_loop : nat -> n -> src -> bytes -> (bytes * src) option **)

let rec read_exact_loop fuel n0 s acc =
  if N.eqb n0 N0
  then Some (acc, s)
  else (match fuel with
        | O -> None
        | S fuel' ->
          let (out, s') = buf_read n0 s in
          (match out with
           | [] -> None
           | _ :: _ ->
             read_exact_loop fuel' (N.sub n0 (lenN out)) s' (app acc out)))

(** val read_exact : n -> src -> (bytes * src) option **)

let read_exact n0 s =
  if N.leb n0 (lenN (firstnN n0 s.bbuf))
  then Some ((firstnN n0 s.bbuf), (consume n0 s))
  else read_exact_loop (N.to_nat n0) n0 s []

(** val read_until_lf : nat -> src -> bytes -> bytes * src **)

let rec read_until_lf fuel s acc =
  match fuel with
  | O -> (acc, s)
  | S fuel' ->
    let s1 = fill_buf s in
    let avail = s1.bbuf in
    (match find_index (eqb0 X0a) avail with
     | Some i ->
       ((app acc (firstn (S i) avail)), (consume (N.of_nat (S i)) s1))
     | None ->
       (match avail with
        | [] -> (acc, s1)
        | _ :: _ ->
          read_until_lf fuel' (consume (lenN avail) s1) (app acc avail)))

type ioerr =
| EUnexpectedEof
| EInvalidData

(** val read_line : src -> (bytes, ioerr) sum * src **)

let read_line s =
  let (line, s') = read_until_lf s.sfuel s [] in
  if utf8_valid line then ((Inl line), s') else ((Inr EInvalidData), s')

type fixed = { f_src : src; f_remaining : n }

type 's rres0 =
| ROk of bytes * 's
| RErr of ioerr * 's

(** val fixed_read : n -> fixed -> fixed rres0 **)

let fixed_read k r =
  if (||) (N.eqb r.f_remaining N0) (N.eqb k N0)
  then ROk ([], r)
  else let to_read = N.min r.f_remaining k in
       let (out, s') = buf_read to_read r.f_src in
       (match out with
        | [] ->
          RErr (EUnexpectedEof, { f_src = s'; f_remaining = r.f_remaining })
        | _ :: _ ->
          ROk (out, { f_src = s'; f_remaining =
            (N.sub r.f_remaining (lenN out)) }))

(** val fixed_fill_buf : fixed -> fixed rres0 **)

let fixed_fill_buf r =
  if N.eqb r.f_remaining N0
  then ROk ([], r)
  else let s' = fill_buf r.f_src in
       (match s'.bbuf with
        | [] ->
          RErr (EUnexpectedEof, { f_src = s'; f_remaining = r.f_remaining })
        | b1 :: l ->
          ROk ((firstnN r.f_remaining (b1 :: l)), { f_src = s'; f_remaining =
            r.f_remaining }))

(** val fixed_consume : n -> fixed -> fixed **)

let fixed_consume amt r =
  { f_src = (consume amt r.f_src); f_remaining = (N.sub r.f_remaining amt) }

type cstate =
| CSize
| CData
| CCrlf
| CTrailer
| CDone

type chunked0 = { c_src : src; c_state : cstate; c_remaining : n }

(** val is_hexdigit : byte -> bool **)

let is_hexdigit b =
  (||)
    ((||) (is_digit b)
      ((&&) (N.leb (Npos (XI (XO (XO (XO (XO (XO XH))))))) (b2n b))
        (N.leb (b2n b) (Npos (XO (XI (XI (XO (XO (XO XH))))))))))
    ((&&) (N.leb (Npos (XI (XO (XO (XO (XO (XI XH))))))) (b2n b))
      (N.leb (b2n b) (Npos (XO (XI (XI (XO (XO (XI XH)))))))))

(** val hexval : byte -> n **)

let hexval b =
  if is_digit b
  then N.sub (b2n b) (Npos (XO (XO (XO (XO (XI XH))))))
  else if N.leb (b2n b) (Npos (XO (XI (XI (XO (XO (XO XH)))))))
       then N.sub (b2n b) (Npos (XI (XI (XI (XO (XI XH))))))
       else N.sub (b2n b) (Npos (XI (XI (XI (XO (XI (XO XH)))))))

(** val uSIZE_MAX : n **)

let uSIZE_MAX =
  Npos (XI (XI (XI (XI (XI (XI (XI (XI (XI (XI (XI (XI (XI (XI (XI (XI (XI
    (XI (XI (XI (XI (XI (XI (XI (XI (XI (XI (XI (XI (XI (XI (XI (XI (XI (XI
    (XI (XI (XI (XI (XI (XI (XI (XI (XI (XI (XI (XI (XI (XI (XI (XI (XI (XI
    (XI (XI (XI (XI (XI (XI (XI (XI (XI (XI
    XH)))))))))))))))))))))))))))))))))))))))))))))))))))))))))))))))

(** val parse_hex : n -> bytes -> n option **)

let rec parse_hex acc = function
| [] -> Some acc
| b :: r ->
  let acc' = N.add (N.mul acc (Npos (XO (XO (XO (XO XH)))))) (hexval b) in
  if N.leb acc' uSIZE_MAX then parse_hex acc' r else None

(** val strip_suffix_byte : byte -> bytes -> bytes option **)

let strip_suffix_byte c l =
  match rev l with
  | [] -> None
  | x :: r -> if eqb0 x c then Some (rev r) else None

(** val read_chunk_size : chunked0 -> chunked0 rres0 **)

let read_chunk_size c =
  let (r, s') = read_line c.c_src in
  let st = fun e -> RErr (e, { c_src = s'; c_state = c.c_state; c_remaining =
    c.c_remaining })
  in
  (match r with
   | Inl line ->
     (match line with
      | [] -> st EUnexpectedEof
      | _ :: _ ->
        (match strip_suffix_byte X0a line with
         | Some l1 ->
           let l2 =
             match strip_suffix_byte X0d l1 with
             | Some x -> x
             | None -> l1
           in
           let hex = match split_on X3b l2 with
                     | [] -> []
                     | h :: _ -> h in
           (match hex with
            | [] -> st EInvalidData
            | _ :: _ ->
              if forallb is_hexdigit hex
              then (match parse_hex N0 hex with
                    | Some n0 ->
                      ROk ([], { c_src = s'; c_state =
                        (if N.eqb n0 N0 then CTrailer else CData);
                        c_remaining = n0 })
                    | None -> st EInvalidData)
              else st EInvalidData)
         | None -> st EUnexpectedEof))
   | Inr e -> st e)

(** val trailer_loop : nat -> src -> ioerr option * src **)

let rec trailer_loop fuel s =
  match fuel with
  | O -> ((Some EUnexpectedEof), s)
  | S fuel' ->
    let (r, s') = read_line s in
    (match r with
     | Inl line ->
       (match line with
        | [] -> ((Some EUnexpectedEof), s')
        | _ :: _ ->
          if (||) (bytes_eqb line (X0d :: (X0a :: [])))
               (bytes_eqb line (X0a :: []))
          then (None, s')
          else trailer_loop fuel' s')
     | Inr e -> ((Some e), s'))

(** val advance : nat -> chunked0 -> chunked0 rres0 **)

let rec advance fuel c =
  match fuel with
  | O -> RErr (EInvalidData, c)
  | S fuel' ->
    (match c.c_state with
     | CSize ->
       (match read_chunk_size c with
        | ROk (_, c') -> advance fuel' c'
        | RErr (e0, st) -> RErr (e0, st))
     | CData ->
       if N.eqb c.c_remaining N0
       then advance fuel' { c_src = c.c_src; c_state = CCrlf; c_remaining =
              N0 }
       else ROk ([], c)
     | CCrlf ->
       (match read_exact (Npos (XO XH)) c.c_src with
        | Some p ->
          let (crlf, s') = p in
          if bytes_eqb crlf (X0d :: (X0a :: []))
          then advance fuel' { c_src = s'; c_state = CSize; c_remaining =
                 c.c_remaining }
          else RErr (EInvalidData, { c_src = s'; c_state = CCrlf;
                 c_remaining = c.c_remaining })
        | None -> RErr (EUnexpectedEof, c))
     | CTrailer ->
       let (o, s') = trailer_loop c.c_src.sfuel c.c_src in
       (match o with
        | Some e ->
          RErr (e, { c_src = s'; c_state = CTrailer; c_remaining =
            c.c_remaining })
        | None ->
          advance fuel' { c_src = s'; c_state = CDone; c_remaining =
            c.c_remaining })
     | CDone -> ROk ([], c))

(** val adv_fuel : chunked0 -> nat **)

let adv_fuel c =
  c.c_src.sfuel

(** val chunked_read_loop :
    nat -> n -> chunked0 -> bytes -> chunked0 rres0 **)

let rec chunked_read_loop fuel k c written =
  match fuel with
  | O -> ROk (written, c)
  | S fuel' ->
    (match advance (adv_fuel c) c with
     | ROk (_, c1) ->
       (match c1.c_state with
        | CDone -> ROk (written, c1)
        | _ ->
          if N.eqb k N0
          then ROk (written, c1)
          else let to_read = N.min c1.c_remaining k in
               let (out, s') = buf_read to_read c1.c_src in
               (match out with
                | [] ->
                  RErr (EUnexpectedEof, { c_src = s'; c_state = c1.c_state;
                    c_remaining = c1.c_remaining })
                | _ :: _ ->
                  let n0 = lenN out in
                  let c2 = { c_src = s'; c_state = c1.c_state; c_remaining =
                    (N.sub c1.c_remaining n0) }
                  in
                  if (||) (N.eqb c2.c_remaining N0) (N.eqb (N.sub k n0) N0)
                  then ROk ((app written out), c2)
                  else chunked_read_loop fuel' (N.sub k n0) c2
                         (app written out)))
     | RErr (e, c') -> RErr (e, c'))

(** val chunked_read : n -> chunked0 -> chunked0 rres0 **)

let chunked_read k c =
  chunked_read_loop c.c_src.sfuel k c []

(** val chunked_fill_buf : chunked0 -> chunked0 rres0 **)

let chunked_fill_buf c =
  match advance (adv_fuel c) c with
  | ROk (_, c1) ->
    (match c1.c_state with
     | CDone -> ROk ([], c1)
     | _ ->
       let s' = fill_buf c1.c_src in
       let c2 = { c_src = s'; c_state = c1.c_state; c_remaining =
         c1.c_remaining }
       in
       (match s'.bbuf with
        | [] -> RErr (EUnexpectedEof, c2)
        | b1 :: l -> ROk ((firstnN c1.c_remaining (b1 :: l)), c2)))
  | RErr (e, c') -> RErr (e, c')

(** val chunked_consume : n -> chunked0 -> chunked0 **)

let chunked_consume amt c =
  { c_src = (consume amt c.c_src); c_state = c.c_state; c_remaining =
    (N.sub c.c_remaining amt) }

type body =
| BFixed of fixed
| BChunked of chunked0
| BEof of src
| BEmpty of src

(** val new_fixed : bytes -> bytes list -> n -> body **)

let new_fixed leftover stream len =
  BFixed { f_src = (mk_src_take leftover stream len); f_remaining = len }

(** val new_chunked : bytes -> bytes list -> body **)

let new_chunked leftover stream =
  BChunked { c_src = (mk_src leftover stream); c_state = CSize; c_remaining =
    N0 }

(** val new_eof : bytes -> bytes list -> body **)

let new_eof leftover stream =
  BEof (mk_src leftover stream)

(** val new_empty : bytes -> bytes list -> body **)

let new_empty leftover stream =
  BEmpty (mk_src leftover stream)

(** val lift : ('a1 -> body) -> 'a1 rres0 -> body rres0 **)

let lift f = function
| ROk (o, s) -> ROk (o, (f s))
| RErr (e, s) -> RErr (e, (f s))

(** val body_read : n -> body -> body rres0 **)

let body_read k b = match b with
| BFixed r -> lift (fun x -> BFixed x) (fixed_read k r)
| BChunked c -> lift (fun x -> BChunked x) (chunked_read k c)
| BEof s -> let (out, s') = buf_read k s in ROk (out, (BEof s'))
| BEmpty _ -> ROk ([], b)

(** val body_fill_buf : body -> body rres0 **)

let body_fill_buf b = match b with
| BFixed r -> lift (fun x -> BFixed x) (fixed_fill_buf r)
| BChunked c -> lift (fun x -> BChunked x) (chunked_fill_buf c)
| BEof s -> let s' = fill_buf s in ROk (s'.bbuf, (BEof s'))
| BEmpty _ -> ROk ([], b)

(** val body_consume : n -> body -> body **)

let body_consume amt b = match b with
| BFixed r -> BFixed (fixed_consume amt r)
| BChunked c -> BChunked (chunked_consume amt c)
| BEof s -> BEof (consume amt s)
| BEmpty _ -> b

(** val body_src : body -> src **)

let body_src = function
| BFixed r -> r.f_src
| BChunked c -> c.c_src
| BEof s -> s
| BEmpty s -> s

type outcome =
| AtEof
| Failed of ioerr
| More

(** val read_all : body -> n list -> bytes -> (bytes * outcome) * body **)

let rec read_all b sizes acc =
  match sizes with
  | [] -> ((acc, More), b)
  | k :: rest ->
    (match body_read k b with
     | ROk (out, b') ->
       (match out with
        | [] -> ((acc, AtEof), b')
        | _ :: _ -> read_all b' rest (app acc out))
     | RErr (e, b') -> ((acc, (Failed e)), b'))

(** val bufread_all : body -> n list -> bytes -> (bytes * outcome) * body **)

let rec bufread_all b amts acc =
  match amts with
  | [] -> ((acc, More), b)
  | a :: rest ->
    (match body_fill_buf b with
     | ROk (avail, b') ->
       (match avail with
        | [] -> ((acc, AtEof), b')
        | _ :: _ ->
          let got = firstnN a avail in
          bufread_all (body_consume (lenN got) b') rest (app acc got))
     | RErr (e, b') -> ((acc, (Failed e)), b'))

(** val drain_ok : nat -> body -> bool **)

let rec drain_ok fuel b =
  match fuel with
  | O -> false
  | S fuel' ->
    (match b with
     | BFixed _ ->
       (match body_read (Npos (XO (XO (XO (XO (XO (XO (XO (XO (XO (XO
                XH))))))))))) b with
        | ROk (out, b') ->
          (match out with
           | [] -> true
           | _ :: _ -> drain_ok fuel' b')
        | RErr (_, _) -> false)
     | BChunked _ ->
       (match body_read (Npos (XO (XO (XO (XO (XO (XO (XO (XO (XO (XO
                XH))))))))))) b with
        | ROk (out, b') ->
          (match out with
           | [] -> true
           | _ :: _ -> drain_ok fuel' b')
        | RErr (_, _) -> false)
     | _ -> true)

(** val drain : nat -> body -> body **)

let rec drain fuel b =
  match fuel with
  | O -> b
  | S fuel' ->
    (match b with
     | BFixed _ ->
       (match body_read (Npos (XO (XO (XO (XO (XO (XO (XO (XO (XO (XO
                XH))))))))))) b with
        | ROk (out, b') ->
          (match out with
           | [] -> b'
           | _ :: _ -> drain fuel' b')
        | RErr (_, b') -> b')
     | BChunked _ ->
       (match body_read (Npos (XO (XO (XO (XO (XO (XO (XO (XO (XO (XO
                XH))))))))))) b with
        | ROk (out, b') ->
          (match out with
           | [] -> b'
           | _ :: _ -> drain fuel' b')
        | RErr (_, b') -> b')
     | _ -> b)

type sev =
| SData of bytes
| SIntr

(** val strip : sev list -> bytes list **)

let rec strip = function
| [] -> []
| s :: r -> (match s with
             | SData g -> g :: (strip r)
             | SIntr -> strip r)

(** val count_intr : sev list -> nat **)

let rec count_intr = function
| [] -> O
| s :: r -> (match s with
             | SData _ -> count_intr r
             | SIntr -> S (count_intr r))

type 's eres =
| EOk of bytes * 's
| EErr of ioerr * 's
| EIntr of 's

(** val emap : ('a1 -> 'a2) -> 'a1 eres -> 'a2 eres **)

let emap f = function
| EOk (o, s) -> EOk (o, (f s))
| EErr (e, s) -> EErr (e, (f s))
| EIntr s -> EIntr (f s)

type src_e = { bbuf_e : bytes; lo_e : bytes; evs_e : sev list; sfuel_e : 
               nat; stake_e : n option }

(** val mk_src_e : bytes -> sev list -> src_e **)

let mk_src_e leftover evs =
  { bbuf_e = []; lo_e = leftover; evs_e = evs; sfuel_e =
    (add
      (add
        (mul (S (S (S (S O)))) (S
          (add (length leftover) (length (concat (strip evs)))))) (S (S (S (S
        (S (S (S (S O))))))))) (count_intr evs)); stake_e = None }

(** val mk_src_take_e : bytes -> sev list -> n -> src_e **)

let mk_src_take_e leftover evs limit =
  { bbuf_e = []; lo_e = leftover; evs_e = evs; sfuel_e =
    (add
      (add
        (mul (S (S (S (S O)))) (S
          (add (length leftover) (length (concat (strip evs)))))) (S (S (S (S
        (S (S (S (S O))))))))) (count_intr evs)); stake_e = (Some limit) }

(** val stream_read_e : n -> sev list -> sev list eres **)

let rec stream_read_e k = function
| [] -> EOk ([], [])
| s :: rest ->
  (match s with
   | SData g ->
     (match g with
      | [] -> stream_read_e k rest
      | _ :: _ ->
        let out = firstnN k g in
        (match skipnN k g with
         | [] -> EOk (out, rest)
         | b :: l -> EOk (out, ((SData (b :: l)) :: rest))))
   | SIntr -> EIntr rest)

(** val inner_read_e : n -> bytes -> sev list -> (bytes * sev list) eres **)

let inner_read_e k l ev0 =
  match l with
  | [] -> emap (fun ev' -> ([], ev')) (stream_read_e k ev0)
  | _ :: _ -> EOk ((firstnN k l), ((skipnN k l), ev0))

(** val take_read_e : n -> src_e -> ((bytes * sev list) * n option) eres **)

let take_read_e k s =
  match s.stake_e with
  | Some lim ->
    if N.eqb lim N0
    then EOk ([], ((s.lo_e, s.evs_e), (Some N0)))
    else (match inner_read_e (N.min k lim) s.lo_e s.evs_e with
          | EOk (out, t) -> EOk (out, (t, (Some (N.sub lim (lenN out)))))
          | EErr (e, t) -> EErr (e, (t, (Some lim)))
          | EIntr t -> EIntr (t, (Some lim)))
  | None -> emap (fun t -> (t, None)) (inner_read_e k s.lo_e s.evs_e)

(** val with_tail :
    src_e -> bytes -> ((bytes * sev list) * n option) -> src_e **)

let with_tail s b = function
| (p, tk) ->
  let (l', ev') = p in
  { bbuf_e = b; lo_e = l'; evs_e = ev'; sfuel_e = s.sfuel_e; stake_e = tk }

(** val fill_buf_e : src_e -> src_e eres **)

let fill_buf_e s =
  match s.bbuf_e with
  | [] ->
    (match take_read_e bUF_SIZE s with
     | EOk (out, t) -> EOk (out, (with_tail s out t))
     | EErr (e, t) -> EErr (e, (with_tail s [] t))
     | EIntr t -> EIntr (with_tail s [] t))
  | _ :: _ -> EOk (s.bbuf_e, s)

(** val consume_e : n -> src_e -> src_e **)

let consume_e n0 s =
  { bbuf_e = (skipnN n0 s.bbuf_e); lo_e = s.lo_e; evs_e = s.evs_e; sfuel_e =
    s.sfuel_e; stake_e = s.stake_e }

(** val buf_read_e : n -> src_e -> src_e eres **)

let buf_read_e k s =
  match s.bbuf_e with
  | [] ->
    if N.leb bUF_SIZE k
    then (match take_read_e k s with
          | EOk (out, t) -> EOk (out, (with_tail s [] t))
          | EErr (e, t) -> EErr (e, (with_tail s [] t))
          | EIntr t -> EIntr (with_tail s [] t))
    else (match fill_buf_e s with
          | EOk (_, s') -> EOk ((firstnN k s'.bbuf_e), (consume_e k s'))
          | x -> x)
  | _ :: _ -> EOk ((firstnN k s.bbuf_e), (consume_e k s))

(** val read_exact_loop_e :
    nat -> n -> src_e -> bytes -> (bytes * src_e) option **)

let rec read_exact_loop_e fuel n0 s acc =
  if N.eqb n0 N0
  then Some (acc, s)
  else (match fuel with
        | O -> None
        | S fuel' ->
          (match buf_read_e n0 s with
           | EOk (out, s') ->
             (match out with
              | [] -> None
              | _ :: _ ->
                read_exact_loop_e fuel' (N.sub n0 (lenN out)) s' (app acc out))
           | EErr (_, _) -> None
           | EIntr s' -> read_exact_loop_e fuel' n0 s' acc))

(** val read_exact_e : n -> src_e -> (bytes * src_e) option **)

let read_exact_e n0 s =
  if N.leb n0 (lenN (firstnN n0 s.bbuf_e))
  then Some ((firstnN n0 s.bbuf_e), (consume_e n0 s))
  else read_exact_loop_e (add (N.to_nat n0) (count_intr s.evs_e)) n0 s []

(** val read_until_lf_e : nat -> src_e -> bytes -> bytes * src_e **)

let rec read_until_lf_e fuel s acc =
  match fuel with
  | O -> (acc, s)
  | S fuel' ->
    (match fill_buf_e s with
     | EOk (avail, s1) ->
       (match find_index (eqb0 X0a) avail with
        | Some i ->
          ((app acc (firstn (S i) avail)), (consume_e (N.of_nat (S i)) s1))
        | None ->
          (match avail with
           | [] -> (acc, s1)
           | _ :: _ ->
             read_until_lf_e fuel' (consume_e (lenN avail) s1) (app acc avail)))
     | EErr (_, s1) -> (acc, s1)
     | EIntr s1 -> read_until_lf_e fuel' s1 acc)

(** val read_line_e : src_e -> (bytes, ioerr) sum * src_e **)

let read_line_e s =
  let (line, s') = read_until_lf_e s.sfuel_e s [] in
  if utf8_valid line then ((Inl line), s') else ((Inr EInvalidData), s')

type fixed_e = { f_src_e : src_e; f_remaining_e : n }

(** val fixed_read_e : n -> fixed_e -> fixed_e eres **)

let fixed_read_e k r =
  if (||) (N.eqb r.f_remaining_e N0) (N.eqb k N0)
  then EOk ([], r)
  else let to_read = N.min r.f_remaining_e k in
       (match buf_read_e to_read r.f_src_e with
        | EOk (out, s') ->
          (match out with
           | [] ->
             EErr (EUnexpectedEof, { f_src_e = s'; f_remaining_e =
               r.f_remaining_e })
           | _ :: _ ->
             EOk (out, { f_src_e = s'; f_remaining_e =
               (N.sub r.f_remaining_e (lenN out)) }))
        | EErr (e, s') ->
          EErr (e, { f_src_e = s'; f_remaining_e = r.f_remaining_e })
        | EIntr s' -> EIntr { f_src_e = s'; f_remaining_e = r.f_remaining_e })

(** val fixed_fill_buf_e : fixed_e -> fixed_e eres **)

let fixed_fill_buf_e r =
  if N.eqb r.f_remaining_e N0
  then EOk ([], r)
  else (match fill_buf_e r.f_src_e with
        | EOk (b, s') ->
          (match b with
           | [] ->
             EErr (EUnexpectedEof, { f_src_e = s'; f_remaining_e =
               r.f_remaining_e })
           | _ :: _ ->
             EOk ((firstnN r.f_remaining_e b), { f_src_e = s';
               f_remaining_e = r.f_remaining_e }))
        | EErr (e, s') ->
          EErr (e, { f_src_e = s'; f_remaining_e = r.f_remaining_e })
        | EIntr s' -> EIntr { f_src_e = s'; f_remaining_e = r.f_remaining_e })

(** val fixed_consume_e : n -> fixed_e -> fixed_e **)

let fixed_consume_e amt r =
  { f_src_e = (consume_e amt r.f_src_e); f_remaining_e =
    (N.sub r.f_remaining_e amt) }

type chunked_e = { c_src_e : src_e; c_state_e : cstate; c_remaining_e : n }

(** val read_chunk_size_e : chunked_e -> chunked_e rres0 **)

let read_chunk_size_e c =
  let (r, s') = read_line_e c.c_src_e in
  let st = fun e -> RErr (e, { c_src_e = s'; c_state_e = c.c_state_e;
    c_remaining_e = c.c_remaining_e })
  in
  (match r with
   | Inl line ->
     (match line with
      | [] -> st EUnexpectedEof
      | _ :: _ ->
        (match strip_suffix_byte X0a line with
         | Some l1 ->
           let l2 =
             match strip_suffix_byte X0d l1 with
             | Some x -> x
             | None -> l1
           in
           let hex = match split_on X3b l2 with
                     | [] -> []
                     | h :: _ -> h in
           (match hex with
            | [] -> st EInvalidData
            | _ :: _ ->
              if forallb is_hexdigit hex
              then (match parse_hex N0 hex with
                    | Some n0 ->
                      ROk ([], { c_src_e = s'; c_state_e =
                        (if N.eqb n0 N0 then CTrailer else CData);
                        c_remaining_e = n0 })
                    | None -> st EInvalidData)
              else st EInvalidData)
         | None -> st EUnexpectedEof))
   | Inr e -> st e)

(** val trailer_loop_e : nat -> src_e -> ioerr option * src_e **)

let rec trailer_loop_e fuel s =
  match fuel with
  | O -> ((Some EUnexpectedEof), s)
  | S fuel' ->
    let (r, s') = read_line_e s in
    (match r with
     | Inl line ->
       (match line with
        | [] -> ((Some EUnexpectedEof), s')
        | _ :: _ ->
          if (||) (bytes_eqb line (X0d :: (X0a :: [])))
               (bytes_eqb line (X0a :: []))
          then (None, s')
          else trailer_loop_e fuel' s')
     | Inr e -> ((Some e), s'))

(** val advance_e : nat -> chunked_e -> chunked_e rres0 **)

let rec advance_e fuel c =
  match fuel with
  | O -> RErr (EInvalidData, c)
  | S fuel' ->
    (match c.c_state_e with
     | CSize ->
       (match read_chunk_size_e c with
        | ROk (_, c') -> advance_e fuel' c'
        | RErr (e0, st) -> RErr (e0, st))
     | CData ->
       if N.eqb c.c_remaining_e N0
       then advance_e fuel' { c_src_e = c.c_src_e; c_state_e = CCrlf;
              c_remaining_e = N0 }
       else ROk ([], c)
     | CCrlf ->
       (match read_exact_e (Npos (XO XH)) c.c_src_e with
        | Some p ->
          let (crlf, s') = p in
          if bytes_eqb crlf (X0d :: (X0a :: []))
          then advance_e fuel' { c_src_e = s'; c_state_e = CSize;
                 c_remaining_e = c.c_remaining_e }
          else RErr (EInvalidData, { c_src_e = s'; c_state_e = CCrlf;
                 c_remaining_e = c.c_remaining_e })
        | None -> RErr (EUnexpectedEof, c))
     | CTrailer ->
       let (o, s') = trailer_loop_e c.c_src_e.sfuel_e c.c_src_e in
       (match o with
        | Some e ->
          RErr (e, { c_src_e = s'; c_state_e = CTrailer; c_remaining_e =
            c.c_remaining_e })
        | None ->
          advance_e fuel' { c_src_e = s'; c_state_e = CDone; c_remaining_e =
            c.c_remaining_e })
     | CDone -> ROk ([], c))

(** val adv_fuel_e : chunked_e -> nat **)

let adv_fuel_e c =
  c.c_src_e.sfuel_e

(** val chunked_read_loop_e :
    nat -> n -> chunked_e -> bytes -> chunked_e eres **)

let rec chunked_read_loop_e fuel k c written =
  match fuel with
  | O -> EOk (written, c)
  | S fuel' ->
    (match advance_e (adv_fuel_e c) c with
     | ROk (_, c1) ->
       (match c1.c_state_e with
        | CDone -> EOk (written, c1)
        | _ ->
          if N.eqb k N0
          then EOk (written, c1)
          else let to_read = N.min c1.c_remaining_e k in
               let back = fun s' -> { c_src_e = s'; c_state_e = c1.c_state_e;
                 c_remaining_e = c1.c_remaining_e }
               in
               (match buf_read_e to_read c1.c_src_e with
                | EOk (out, s') ->
                  (match out with
                   | [] -> EErr (EUnexpectedEof, (back s'))
                   | _ :: _ ->
                     let n0 = lenN out in
                     let c2 = { c_src_e = s'; c_state_e = c1.c_state_e;
                       c_remaining_e = (N.sub c1.c_remaining_e n0) }
                     in
                     if (||) (N.eqb c2.c_remaining_e N0)
                          (N.eqb (N.sub k n0) N0)
                     then EOk ((app written out), c2)
                     else chunked_read_loop_e fuel' (N.sub k n0) c2
                            (app written out))
                | EErr (e, s') ->
                  (match written with
                   | [] -> EErr (e, (back s'))
                   | _ :: _ -> EOk (written, (back s')))
                | EIntr s' ->
                  (match written with
                   | [] -> EIntr (back s')
                   | _ :: _ -> EOk (written, (back s')))))
     | RErr (e, c') -> EErr (e, c'))

(** val chunked_read_e : n -> chunked_e -> chunked_e eres **)

let chunked_read_e k c =
  chunked_read_loop_e c.c_src_e.sfuel_e k c []

(** val chunked_fill_buf_e : chunked_e -> chunked_e eres **)

let chunked_fill_buf_e c =
  match advance_e (adv_fuel_e c) c with
  | ROk (_, c1) ->
    (match c1.c_state_e with
     | CDone -> EOk ([], c1)
     | _ ->
       let back = fun s' -> { c_src_e = s'; c_state_e = c1.c_state_e;
         c_remaining_e = c1.c_remaining_e }
       in
       (match fill_buf_e c1.c_src_e with
        | EOk (b, s') ->
          (match b with
           | [] -> EErr (EUnexpectedEof, (back s'))
           | _ :: _ -> EOk ((firstnN c1.c_remaining_e b), (back s')))
        | EErr (e, s') -> EErr (e, (back s'))
        | EIntr s' -> EIntr (back s')))
  | RErr (e, c') -> EErr (e, c')

(** val chunked_consume_e : n -> chunked_e -> chunked_e **)

let chunked_consume_e amt c =
  { c_src_e = (consume_e amt c.c_src_e); c_state_e = c.c_state_e;
    c_remaining_e = (N.sub c.c_remaining_e amt) }

type body_e =
| BFixed_e of fixed_e
| BChunked_e of chunked_e
| BEof_e of src_e
| BEmpty_e of src_e

(** val new_fixed_e : bytes -> sev list -> n -> body_e **)

let new_fixed_e leftover evs len =
  BFixed_e { f_src_e = (mk_src_take_e leftover evs len); f_remaining_e = len }

(** val new_chunked_e : bytes -> sev list -> body_e **)

let new_chunked_e leftover evs =
  BChunked_e { c_src_e = (mk_src_e leftover evs); c_state_e = CSize;
    c_remaining_e = N0 }

(** val body_read_e : n -> body_e -> body_e eres **)

let body_read_e k b = match b with
| BFixed_e r -> emap (fun x -> BFixed_e x) (fixed_read_e k r)
| BChunked_e c -> emap (fun x -> BChunked_e x) (chunked_read_e k c)
| BEof_e s -> emap (fun x -> BEof_e x) (buf_read_e k s)
| BEmpty_e _ -> EOk ([], b)

(** val body_fill_buf_e : body_e -> body_e eres **)

let body_fill_buf_e b = match b with
| BFixed_e r -> emap (fun x -> BFixed_e x) (fixed_fill_buf_e r)
| BChunked_e c -> emap (fun x -> BChunked_e x) (chunked_fill_buf_e c)
| BEof_e s -> emap (fun x -> BEof_e x) (fill_buf_e s)
| BEmpty_e _ -> EOk ([], b)

(** val body_consume_e : n -> body_e -> body_e **)

let body_consume_e amt b = match b with
| BFixed_e r -> BFixed_e (fixed_consume_e amt r)
| BChunked_e c -> BChunked_e (chunked_consume_e amt c)
| BEof_e s -> BEof_e (consume_e amt s)
| BEmpty_e _ -> b

(** val read_all_e :
    body_e -> n list -> bytes -> (bytes * outcome) * body_e **)

let rec read_all_e b sizes acc =
  match sizes with
  | [] -> ((acc, More), b)
  | k :: rest ->
    (match body_read_e k b with
     | EOk (out, b') ->
       (match out with
        | [] -> ((acc, AtEof), b')
        | _ :: _ -> read_all_e b' rest (app acc out))
     | EErr (e, b') -> ((acc, (Failed e)), b')
     | EIntr b' -> read_all_e b' rest acc)

(** val bufread_all_e :
    body_e -> n list -> bytes -> (bytes * outcome) * body_e **)

let rec bufread_all_e b amts acc =
  match amts with
  | [] -> ((acc, More), b)
  | a :: rest ->
    (match body_fill_buf_e b with
     | EOk (avail, b') ->
       (match avail with
        | [] -> ((acc, AtEof), b')
        | _ :: _ ->
          let got = firstnN a avail in
          bufread_all_e (body_consume_e (lenN got) b') rest (app acc got))
     | EErr (e, b') -> ((acc, (Failed e)), b')
     | EIntr b' -> bufread_all_e b' rest acc)

type sev2 =
| S2Data of bytes
| S2Intr
| S2Fail

(** val strip2 : sev2 list -> bytes list **)

let rec strip2 = function
| [] -> []
| s :: r -> (match s with
             | S2Data g -> g :: (strip2 r)
             | _ -> strip2 r)

(** val count_nd : sev2 list -> nat **)

let rec count_nd = function
| [] -> O
| s :: r -> (match s with
             | S2Data _ -> count_nd r
             | _ -> S (count_nd r))

type 's fres =
| FOk of bytes * 's
| FErr of ioerr * 's
| FIntr of 's
| FFail of 's

(** val fmap : ('a1 -> 'a2) -> 'a1 fres -> 'a2 fres **)

let fmap f = function
| FOk (o, s) -> FOk (o, (f s))
| FErr (e, s) -> FErr (e, (f s))
| FIntr s -> FIntr (f s)
| FFail s -> FFail (f s)

type src_f = { bbuf_f : bytes; lo_f : bytes; evs_f : sev2 list;
               sfuel_f : nat; stake_f : n option }

(** val mk_src_f : bytes -> sev2 list -> src_f **)

let mk_src_f leftover evs =
  { bbuf_f = []; lo_f = leftover; evs_f = evs; sfuel_f =
    (add
      (add
        (mul (S (S (S (S O)))) (S
          (add (length leftover) (length (concat (strip2 evs)))))) (S (S (S
        (S (S (S (S (S O))))))))) (count_nd evs)); stake_f = None }

(** val mk_src_take_f : bytes -> sev2 list -> n -> src_f **)

let mk_src_take_f leftover evs limit =
  { bbuf_f = []; lo_f = leftover; evs_f = evs; sfuel_f =
    (add
      (add
        (mul (S (S (S (S O)))) (S
          (add (length leftover) (length (concat (strip2 evs)))))) (S (S (S
        (S (S (S (S (S O))))))))) (count_nd evs)); stake_f = (Some limit) }

(** val stream_read_f : n -> sev2 list -> sev2 list fres **)

let rec stream_read_f k = function
| [] -> FOk ([], [])
| s :: rest ->
  (match s with
   | S2Data g ->
     (match g with
      | [] -> stream_read_f k rest
      | _ :: _ ->
        let out = firstnN k g in
        (match skipnN k g with
         | [] -> FOk (out, rest)
         | b :: l -> FOk (out, ((S2Data (b :: l)) :: rest))))
   | S2Intr -> FIntr rest
   | S2Fail -> FFail rest)

(** val inner_read_f : n -> bytes -> sev2 list -> (bytes * sev2 list) fres **)

let inner_read_f k l ev0 =
  match l with
  | [] -> fmap (fun ev' -> ([], ev')) (stream_read_f k ev0)
  | _ :: _ -> FOk ((firstnN k l), ((skipnN k l), ev0))

(** val take_read_f : n -> src_f -> ((bytes * sev2 list) * n option) fres **)

let take_read_f k s =
  match s.stake_f with
  | Some lim ->
    if N.eqb lim N0
    then FOk ([], ((s.lo_f, s.evs_f), (Some N0)))
    else (match inner_read_f (N.min k lim) s.lo_f s.evs_f with
          | FOk (out, t) -> FOk (out, (t, (Some (N.sub lim (lenN out)))))
          | FErr (e, t) -> FErr (e, (t, (Some lim)))
          | FIntr t -> FIntr (t, (Some lim))
          | FFail t -> FFail (t, (Some lim)))
  | None -> fmap (fun t -> (t, None)) (inner_read_f k s.lo_f s.evs_f)

(** val with_tail_f :
    src_f -> bytes -> ((bytes * sev2 list) * n option) -> src_f **)

let with_tail_f s b = function
| (p, tk) ->
  let (l', ev') = p in
  { bbuf_f = b; lo_f = l'; evs_f = ev'; sfuel_f = s.sfuel_f; stake_f = tk }

(** val fill_buf_f : src_f -> src_f fres **)

let fill_buf_f s =
  match s.bbuf_f with
  | [] ->
    (match take_read_f bUF_SIZE s with
     | FOk (out, t) -> FOk (out, (with_tail_f s out t))
     | FErr (e, t) -> FErr (e, (with_tail_f s [] t))
     | FIntr t -> FIntr (with_tail_f s [] t)
     | FFail t -> FFail (with_tail_f s [] t))
  | _ :: _ -> FOk (s.bbuf_f, s)

(** val consume_f : n -> src_f -> src_f **)

let consume_f n0 s =
  { bbuf_f = (skipnN n0 s.bbuf_f); lo_f = s.lo_f; evs_f = s.evs_f; sfuel_f =
    s.sfuel_f; stake_f = s.stake_f }

(** val buf_read_f : n -> src_f -> src_f fres **)

let buf_read_f k s =
  match s.bbuf_f with
  | [] ->
    if N.leb bUF_SIZE k
    then (match take_read_f k s with
          | FOk (out, t) -> FOk (out, (with_tail_f s [] t))
          | FErr (e, t) -> FErr (e, (with_tail_f s [] t))
          | FIntr t -> FIntr (with_tail_f s [] t)
          | FFail t -> FFail (with_tail_f s [] t))
    else (match fill_buf_f s with
          | FOk (_, s') -> FOk ((firstnN k s'.bbuf_f), (consume_f k s'))
          | x -> x)
  | _ :: _ -> FOk ((firstnN k s.bbuf_f), (consume_f k s))

(** val read_exact_loop_f : nat -> n -> src_f -> bytes -> src_f fres **)

let rec read_exact_loop_f fuel n0 s acc =
  if N.eqb n0 N0
  then FOk (acc, s)
  else (match fuel with
        | O -> FErr (EUnexpectedEof, s)
        | S fuel' ->
          (match buf_read_f n0 s with
           | FOk (out, s') ->
             (match out with
              | [] -> FErr (EUnexpectedEof, s')
              | _ :: _ ->
                read_exact_loop_f fuel' (N.sub n0 (lenN out)) s' (app acc out))
           | FIntr s' -> read_exact_loop_f fuel' n0 s' acc
           | x -> x))

(** val read_exact_f : n -> src_f -> src_f fres **)

let read_exact_f n0 s =
  if N.leb n0 (lenN (firstnN n0 s.bbuf_f))
  then FOk ((firstnN n0 s.bbuf_f), (consume_f n0 s))
  else read_exact_loop_f (add (N.to_nat n0) (count_nd s.evs_f)) n0 s []

(** val read_until_lf_f : nat -> src_f -> bytes -> src_f fres **)

let rec read_until_lf_f fuel s acc =
  match fuel with
  | O -> FOk (acc, s)
  | S fuel' ->
    (match fill_buf_f s with
     | FOk (avail, s1) ->
       (match find_index (eqb0 X0a) avail with
        | Some i ->
          FOk ((app acc (firstn (S i) avail)),
            (consume_f (N.of_nat (S i)) s1))
        | None ->
          (match avail with
           | [] -> FOk (acc, s1)
           | _ :: _ ->
             read_until_lf_f fuel' (consume_f (lenN avail) s1) (app acc avail)))
     | FIntr s1 -> read_until_lf_f fuel' s1 acc
     | x -> x)

(** val read_line_f : src_f -> src_f fres **)

let read_line_f s =
  match read_until_lf_f s.sfuel_f s [] with
  | FOk (line, s') ->
    if utf8_valid line then FOk (line, s') else FErr (EInvalidData, s')
  | x -> x

type fixed_f = { f_src_f : src_f; f_remaining_f : n }

(** val fixed_read_f : n -> fixed_f -> fixed_f fres **)

let fixed_read_f k r =
  if (||) (N.eqb r.f_remaining_f N0) (N.eqb k N0)
  then FOk ([], r)
  else let to_read = N.min r.f_remaining_f k in
       let back = fun s' -> { f_src_f = s'; f_remaining_f = r.f_remaining_f }
       in
       (match buf_read_f to_read r.f_src_f with
        | FOk (out, s') ->
          (match out with
           | [] -> FErr (EUnexpectedEof, (back s'))
           | _ :: _ ->
             FOk (out, { f_src_f = s'; f_remaining_f =
               (N.sub r.f_remaining_f (lenN out)) }))
        | FErr (e, s') -> FErr (e, (back s'))
        | FIntr s' -> FIntr (back s')
        | FFail s' -> FFail (back s'))

(** val fixed_fill_buf_f : fixed_f -> fixed_f fres **)

let fixed_fill_buf_f r =
  if N.eqb r.f_remaining_f N0
  then FOk ([], r)
  else let back = fun s' -> { f_src_f = s'; f_remaining_f = r.f_remaining_f }
       in
       (match fill_buf_f r.f_src_f with
        | FOk (b, s') ->
          (match b with
           | [] -> FErr (EUnexpectedEof, (back s'))
           | _ :: _ -> FOk ((firstnN r.f_remaining_f b), (back s')))
        | FErr (e, s') -> FErr (e, (back s'))
        | FIntr s' -> FIntr (back s')
        | FFail s' -> FFail (back s'))

(** val fixed_consume_f : n -> fixed_f -> fixed_f **)

let fixed_consume_f amt r =
  { f_src_f = (consume_f amt r.f_src_f); f_remaining_f =
    (N.sub r.f_remaining_f amt) }

type chunked_f = { c_src_f : src_f; c_state_f : cstate; c_remaining_f : n }

(** val read_chunk_size_f : chunked_f -> chunked_f fres **)

let read_chunk_size_f c =
  let back = fun s' -> { c_src_f = s'; c_state_f = c.c_state_f;
    c_remaining_f = c.c_remaining_f }
  in
  (match read_line_f c.c_src_f with
   | FOk (line, s') ->
     let st = fun e -> FErr (e, (back s')) in
     (match line with
      | [] -> st EUnexpectedEof
      | _ :: _ ->
        (match strip_suffix_byte X0a line with
         | Some l1 ->
           let l2 =
             match strip_suffix_byte X0d l1 with
             | Some x -> x
             | None -> l1
           in
           let hex = match split_on X3b l2 with
                     | [] -> []
                     | h :: _ -> h in
           (match hex with
            | [] -> st EInvalidData
            | _ :: _ ->
              if forallb is_hexdigit hex
              then (match parse_hex N0 hex with
                    | Some n0 ->
                      FOk ([], { c_src_f = s'; c_state_f =
                        (if N.eqb n0 N0 then CTrailer else CData);
                        c_remaining_f = n0 })
                    | None -> st EInvalidData)
              else st EInvalidData)
         | None -> st EUnexpectedEof))
   | FErr (e, s') -> FErr (e, (back s'))
   | FIntr s' -> FIntr (back s')
   | FFail s' -> FFail (back s'))

(** val trailer_loop_f : nat -> src_f -> src_f fres **)

let rec trailer_loop_f fuel s =
  match fuel with
  | O -> FErr (EUnexpectedEof, s)
  | S fuel' ->
    (match read_line_f s with
     | FOk (line, s') ->
       (match line with
        | [] -> FErr (EUnexpectedEof, s')
        | _ :: _ ->
          if (||) (bytes_eqb line (X0d :: (X0a :: [])))
               (bytes_eqb line (X0a :: []))
          then FOk ([], s')
          else trailer_loop_f fuel' s')
     | x -> x)

(** val advance_f : nat -> chunked_f -> chunked_f fres **)

let rec advance_f fuel c =
  match fuel with
  | O -> FErr (EInvalidData, c)
  | S fuel' ->
    (match c.c_state_f with
     | CSize ->
       (match read_chunk_size_f c with
        | FOk (_, c') -> advance_f fuel' c'
        | x -> x)
     | CData ->
       if N.eqb c.c_remaining_f N0
       then advance_f fuel' { c_src_f = c.c_src_f; c_state_f = CCrlf;
              c_remaining_f = N0 }
       else FOk ([], c)
     | CCrlf ->
       let back = fun s' -> { c_src_f = s'; c_state_f = CCrlf;
         c_remaining_f = c.c_remaining_f }
       in
       (match read_exact_f (Npos (XO XH)) c.c_src_f with
        | FOk (crlf, s') ->
          if bytes_eqb crlf (X0d :: (X0a :: []))
          then advance_f fuel' { c_src_f = s'; c_state_f = CSize;
                 c_remaining_f = c.c_remaining_f }
          else FErr (EInvalidData, (back s'))
        | FErr (e, s') -> FErr (e, (back s'))
        | FIntr s' -> FIntr (back s')
        | FFail s' -> FFail (back s'))
     | CTrailer ->
       let back = fun s' -> { c_src_f = s'; c_state_f = CTrailer;
         c_remaining_f = c.c_remaining_f }
       in
       (match trailer_loop_f c.c_src_f.sfuel_f c.c_src_f with
        | FOk (_, s') ->
          advance_f fuel' { c_src_f = s'; c_state_f = CDone; c_remaining_f =
            c.c_remaining_f }
        | FErr (e, s') -> FErr (e, (back s'))
        | FIntr s' -> FIntr (back s')
        | FFail s' -> FFail (back s'))
     | CDone -> FOk ([], c))

(** val adv_fuel_f : chunked_f -> nat **)

let adv_fuel_f c =
  c.c_src_f.sfuel_f

(** val chunked_read_loop_f :
    nat -> n -> chunked_f -> bytes -> chunked_f fres **)

let rec chunked_read_loop_f fuel k c written =
  match fuel with
  | O -> FOk (written, c)
  | S fuel' ->
    (match advance_f (adv_fuel_f c) c with
     | FOk (_, c1) ->
       (match c1.c_state_f with
        | CDone -> FOk (written, c1)
        | _ ->
          if N.eqb k N0
          then FOk (written, c1)
          else let to_read = N.min c1.c_remaining_f k in
               let back = fun s' -> { c_src_f = s'; c_state_f = c1.c_state_f;
                 c_remaining_f = c1.c_remaining_f }
               in
               (match buf_read_f to_read c1.c_src_f with
                | FOk (out, s') ->
                  (match out with
                   | [] -> FErr (EUnexpectedEof, (back s'))
                   | _ :: _ ->
                     let n0 = lenN out in
                     let c2 = { c_src_f = s'; c_state_f = c1.c_state_f;
                       c_remaining_f = (N.sub c1.c_remaining_f n0) }
                     in
                     if (||) (N.eqb c2.c_remaining_f N0)
                          (N.eqb (N.sub k n0) N0)
                     then FOk ((app written out), c2)
                     else chunked_read_loop_f fuel' (N.sub k n0) c2
                            (app written out))
                | FErr (e, s') ->
                  (match written with
                   | [] -> FErr (e, (back s'))
                   | _ :: _ -> FOk (written, (back s')))
                | FIntr s' ->
                  (match written with
                   | [] -> FIntr (back s')
                   | _ :: _ -> FOk (written, (back s')))
                | FFail s' ->
                  (match written with
                   | [] -> FFail (back s')
                   | _ :: _ -> FOk (written, (back s')))))
     | x -> x)

(** val chunked_read_f : n -> chunked_f -> chunked_f fres **)

let chunked_read_f k c =
  chunked_read_loop_f c.c_src_f.sfuel_f k c []

(** val chunked_fill_buf_f : chunked_f -> chunked_f fres **)

let chunked_fill_buf_f c =
  match advance_f (adv_fuel_f c) c with
  | FOk (_, c1) ->
    (match c1.c_state_f with
     | CDone -> FOk ([], c1)
     | _ ->
       let back = fun s' -> { c_src_f = s'; c_state_f = c1.c_state_f;
         c_remaining_f = c1.c_remaining_f }
       in
       (match fill_buf_f c1.c_src_f with
        | FOk (b, s') ->
          (match b with
           | [] -> FErr (EUnexpectedEof, (back s'))
           | _ :: _ -> FOk ((firstnN c1.c_remaining_f b), (back s')))
        | FErr (e, s') -> FErr (e, (back s'))
        | FIntr s' -> FIntr (back s')
        | FFail s' -> FFail (back s')))
  | x -> x

(** val chunked_consume_f : n -> chunked_f -> chunked_f **)

let chunked_consume_f amt c =
  { c_src_f = (consume_f amt c.c_src_f); c_state_f = c.c_state_f;
    c_remaining_f = (N.sub c.c_remaining_f amt) }

type body_f =
| BFixed_f of fixed_f
| BChunked_f of chunked_f
| BEof_f of src_f
| BEmpty_f of src_f

(** val new_fixed_f : bytes -> sev2 list -> n -> body_f **)

let new_fixed_f leftover evs len =
  BFixed_f { f_src_f = (mk_src_take_f leftover evs len); f_remaining_f = len }

(** val new_chunked_f : bytes -> sev2 list -> body_f **)

let new_chunked_f leftover evs =
  BChunked_f { c_src_f = (mk_src_f leftover evs); c_state_f = CSize;
    c_remaining_f = N0 }

(** val body_read_f : n -> body_f -> body_f fres **)

let body_read_f k b = match b with
| BFixed_f r -> fmap (fun x -> BFixed_f x) (fixed_read_f k r)
| BChunked_f c -> fmap (fun x -> BChunked_f x) (chunked_read_f k c)
| BEof_f s -> fmap (fun x -> BEof_f x) (buf_read_f k s)
| BEmpty_f _ -> FOk ([], b)

(** val body_fill_buf_f : body_f -> body_f fres **)

let body_fill_buf_f b = match b with
| BFixed_f r -> fmap (fun x -> BFixed_f x) (fixed_fill_buf_f r)
| BChunked_f c -> fmap (fun x -> BChunked_f x) (chunked_fill_buf_f c)
| BEof_f s -> fmap (fun x -> BEof_f x) (fill_buf_f s)
| BEmpty_f _ -> FOk ([], b)

(** val body_consume_f : n -> body_f -> body_f **)

let body_consume_f amt b = match b with
| BFixed_f r -> BFixed_f (fixed_consume_f amt r)
| BChunked_f c -> BChunked_f (chunked_consume_f amt c)
| BEof_f s -> BEof_f (consume_f amt s)
| BEmpty_f _ -> b

(** val hexdig : byte -> bool **)

let hexdig = function
| X30 -> true
| X31 -> true
| X32 -> true
| X33 -> true
| X34 -> true
| X35 -> true
| X36 -> true
| X37 -> true
| X38 -> true
| X39 -> true
| X41 -> true
| X42 -> true
| X43 -> true
| X44 -> true
| X45 -> true
| X46 -> true
| X61 -> true
| X62 -> true
| X63 -> true
| X64 -> true
| X65 -> true
| X66 -> true
| _ -> false

(** val hexdig_val : byte -> n **)

let hexdig_val = function
| X31 -> Npos XH
| X32 -> Npos (XO XH)
| X33 -> Npos (XI XH)
| X34 -> Npos (XO (XO XH))
| X35 -> Npos (XI (XO XH))
| X36 -> Npos (XO (XI XH))
| X37 -> Npos (XI (XI XH))
| X38 -> Npos (XO (XO (XO XH)))
| X39 -> Npos (XI (XO (XO XH)))
| X41 -> Npos (XO (XI (XO XH)))
| X42 -> Npos (XI (XI (XO XH)))
| X43 -> Npos (XO (XO (XI XH)))
| X44 -> Npos (XI (XO (XI XH)))
| X45 -> Npos (XO (XI (XI XH)))
| X46 -> Npos (XI (XI (XI XH)))
| X61 -> Npos (XO (XI (XO XH)))
| X62 -> Npos (XI (XI (XO XH)))
| X63 -> Npos (XO (XO (XI XH)))
| X64 -> Npos (XI (XO (XI XH)))
| X65 -> Npos (XO (XI (XI XH)))
| X66 -> Npos (XI (XI (XI XH)))
| _ -> N0

(** val hex_value : bytes -> n **)

let hex_value l =
  fold_left (fun a b ->
    N.add (N.mul a (Npos (XO (XO (XO (XO XH)))))) (hexdig_val b)) l N0

(** val text_byte : byte -> bool **)

let text_byte b =
  (||) (is_vchar b) (is_ows b)

(** val wf_ext : bytes -> bool **)

let wf_ext = function
| [] -> true
| b :: r -> (match b with
             | X3b -> forallb text_byte r
             | _ -> false)

type why =
| Truncated
| BadSize
| BadChunkEnd

type dres =
| Valid of bytes * bytes
| Invalid of why
| Unspecified

(** val to_lf : bytes -> (bytes * bytes) option **)

let rec to_lf = function
| [] -> None
| b :: r ->
  if eqb0 b X0a
  then Some ([], r)
  else (match to_lf r with
        | Some p -> let (x, y) = p in Some ((b :: x), y)
        | None -> None)

(** val line_crlf : bytes -> (bytes option * bytes) option **)

let line_crlf l =
  match to_lf l with
  | Some p ->
    let (before, rest) = p in
    (match frev before with
     | [] -> Some (None, rest)
     | b :: rb ->
       (match b with
        | X0d -> Some ((Some (frev rb)), rest)
        | _ -> Some (None, rest)))
  | None -> None

(** val take_while : (byte -> bool) -> bytes -> bytes * bytes **)

let rec take_while p l = match l with
| [] -> ([], [])
| b :: r ->
  if p b then let (x, y) = take_while p r in ((b :: x), y) else ([], l)

(** val dec_trailers : nat -> bytes -> bytes option option **)

let rec dec_trailers fuel l =
  match fuel with
  | O -> None
  | S fuel' ->
    (match line_crlf l with
     | Some p ->
       let (o, rest) = p in
       (match o with
        | Some t ->
          (match t with
           | [] -> Some (Some rest)
           | _ :: _ ->
             if forallb text_byte t
             then dec_trailers fuel' rest
             else Some None)
        | None -> Some None)
     | None -> None)

(** val take_n : n -> bytes -> (bytes * bytes) option **)

let rec take_n n0 l =
  if N.eqb n0 N0
  then Some ([], l)
  else (match l with
        | [] -> None
        | b :: r ->
          (match take_n (N.pred n0) r with
           | Some p -> let (x, y) = p in Some ((b :: x), y)
           | None -> None))

(** val dec_chunks : nat -> bytes -> bytes -> dres **)

let rec dec_chunks fuel l acc =
  match fuel with
  | O -> Invalid Truncated
  | S fuel' ->
    (match line_crlf l with
     | Some p ->
       let (o, rest) = p in
       (match o with
        | Some line ->
          let (sz, ext) = take_while hexdig line in
          (match sz with
           | [] -> Invalid BadSize
           | _ :: _ ->
             (match ext with
              | [] ->
                if negb (wf_ext ext)
                then Unspecified
                else if negb
                          (N.ltb (hex_value sz)
                            (N.pow (Npos (XO XH)) (Npos (XO (XO (XO (XO (XO
                              (XO XH)))))))))
                     then Invalid BadSize
                     else if N.eqb (hex_value sz) N0
                          then (match dec_trailers (S (length rest)) rest with
                                | Some o0 ->
                                  (match o0 with
                                   | Some rest' -> Valid (acc, rest')
                                   | None -> Unspecified)
                                | None -> Invalid Truncated)
                          else (match take_n (hex_value sz) rest with
                                | Some p0 ->
                                  let (data, after) = p0 in
                                  (match after with
                                   | [] -> Invalid Truncated
                                   | b :: l0 ->
                                     (match b with
                                      | X0d ->
                                        (match l0 with
                                         | [] -> Invalid Truncated
                                         | b1 :: rest' ->
                                           (match b1 with
                                            | X0a ->
                                              dec_chunks fuel' rest'
                                                (app acc data)
                                            | _ -> Invalid BadChunkEnd))
                                      | _ -> Invalid BadChunkEnd))
                                | None -> Invalid Truncated)
              | b :: _ ->
                (match b with
                 | X3b ->
                   if negb (wf_ext ext)
                   then Unspecified
                   else if negb
                             (N.ltb (hex_value sz)
                               (N.pow (Npos (XO XH)) (Npos (XO (XO (XO (XO
                                 (XO (XO XH)))))))))
                        then Invalid BadSize
                        else if N.eqb (hex_value sz) N0
                             then (match dec_trailers (S (length rest)) rest with
                                   | Some o0 ->
                                     (match o0 with
                                      | Some rest' -> Valid (acc, rest')
                                      | None -> Unspecified)
                                   | None -> Invalid Truncated)
                             else (match take_n (hex_value sz) rest with
                                   | Some p0 ->
                                     let (data, after) = p0 in
                                     (match after with
                                      | [] -> Invalid Truncated
                                      | b1 :: l0 ->
                                        (match b1 with
                                         | X0d ->
                                           (match l0 with
                                            | [] -> Invalid Truncated
                                            | b2 :: rest' ->
                                              (match b2 with
                                               | X0a ->
                                                 dec_chunks fuel' rest'
                                                   (app acc data)
                                               | _ -> Invalid BadChunkEnd))
                                         | _ -> Invalid BadChunkEnd))
                                   | None -> Invalid Truncated)
                 | _ -> Invalid BadSize)))
        | None -> Unspecified)
     | None ->
       let (_, after) = take_while hexdig l in
       (match after with
        | [] -> Invalid Truncated
        | b :: _ ->
          if (||) (eqb0 b X3b) (eqb0 b X0d)
          then Invalid Truncated
          else Invalid BadSize))

(** val spec_decode : bytes -> dres **)

let spec_decode l =
  dec_chunks (S (length l)) l []

(** val spec_fixed : n -> bytes -> dres **)

let spec_fixed n0 l =
  match take_n n0 l with
  | Some p0 -> let (p, rest) = p0 in Valid (p, rest)
  | None -> Invalid Truncated

type behaviour =
| BAll
| BReadK of n
| BNone of n
| BFirst
| BHold
| BErr
| BErrAfter
| BClose
| BReader of n

type hook_action =
| HProceed
| HAnswer
| HAnswerClose

type app0 = { behaviour_of : (request -> behaviour);
              hook_of : (request -> hook_action);
              describe : (request -> bytes -> bytes) }

type response_ev = { rs_status : n; rs_body : bytes; rs_close : bool }

type rr =
| RParsed of bytes * request
| RTooLarge
| RInvalid
| REof

(** val read_request :
    nat -> nat -> bytes -> bytes list -> rr * bytes list **)

let rec read_request fuel max_size filled sg =
  match fuel with
  | O -> (REof, sg)
  | S fuel' ->
    if Nat.eqb (length filled) max_size
    then (RTooLarge, sg)
    else let (out, sg') =
           stream_read (N.of_nat (sub max_size (length filled))) sg
         in
         (match out with
          | [] -> (REof, sg')
          | _ :: _ ->
            let buf = app filled out in
            (match parse_request buf with
             | Ok r -> ((RParsed (buf, r)), sg')
             | Err e ->
               (match e with
                | EEof -> read_request fuel' max_size buf sg'
                | _ -> (RInvalid, sg'))
             | Fault _ -> (RInvalid, sg')))

(** val te_tokens : headers -> bytes list **)

let te_tokens h =
  token_values h tRANSFER_ENCODING

(** val te_final_chunked : headers -> bool **)

let te_final_chunked h =
  match rev (te_tokens h) with
  | [] -> false
  | t :: _ ->
    eq_ic t
      (bs (String ((Ascii (true, true, false, false, false, true, true,
        false)), (String ((Ascii (false, false, false, true, false, true,
        true, false)), (String ((Ascii (true, false, true, false, true, true,
        true, false)), (String ((Ascii (false, true, true, true, false, true,
        true, false)), (String ((Ascii (true, true, false, true, false, true,
        true, false)), (String ((Ascii (true, false, true, false, false,
        true, true, false)), (String ((Ascii (false, false, true, false,
        false, true, true, false)), EmptyString)))))))))))))))

(** val te_present : headers -> bool **)

let te_present h =
  match te_tokens h with
  | [] -> false
  | _ :: _ -> true

(** val from_request : bytes -> bytes list -> headers -> body **)

let from_request leftover sg h =
  if h.chunked
  then new_chunked leftover sg
  else (match h.content_length with
        | Some n0 ->
          if N.eqb n0 N0
          then new_empty leftover sg
          else new_fixed leftover sg n0
        | None -> new_empty leftover sg)

(** val read_to_end : nat -> body -> bytes -> (bytes, ioerr) sum * body **)

let rec read_to_end fuel b acc =
  match fuel with
  | O -> ((Inl acc), b)
  | S fuel' ->
    (match body_read (Npos (XO (XO (XO (XO (XO (XO (XO (XO (XO (XO (XO (XO
             (XO XH)))))))))))))) b with
     | ROk (out, b') ->
       (match out with
        | [] -> ((Inl acc), b')
        | _ :: _ -> read_to_end fuel' b' (app acc out))
     | RErr (e, b') -> ((Inr e), b'))

(** val read_k : nat -> n -> body -> bytes -> (bytes, ioerr) sum * body **)

let rec read_k fuel k b acc =
  match fuel with
  | O -> ((Inl acc), b)
  | S fuel' ->
    if N.eqb k N0
    then ((Inl acc), b)
    else (match body_read k b with
          | ROk (out, b') ->
            (match out with
             | [] -> ((Inl acc), b')
             | _ :: _ -> read_k fuel' (N.sub k (lenN out)) b' (app acc out))
          | RErr (e, b') -> ((Inr e), b'))

(** val body_fuel : body -> nat **)

let body_fuel b =
  (body_src b).sfuel

(** val carry_of : src -> bytes **)

let carry_of s =
  app s.bbuf s.lo

(** val with_carry : bytes -> bytes list -> bytes list **)

let with_carry c sg =
  match c with
  | [] -> sg
  | _ :: _ -> c :: sg

(** val after_drop : body -> bytes list **)

let after_drop b =
  let s = body_src (drain (body_fuel b) b) in with_carry (carry_of s) s.segs0

(** val located : bool -> body -> bool **)

let located failed b =
  (&&) (negb failed) (drain_ok (body_fuel b) b)

(** val reader_payload : n -> bytes **)

let reader_payload n0 =
  map (fun i ->
    n2b
      (N.add (Npos (XI (XO (XO (XO (XO (XI XH)))))))
        (N.modulo (N.of_nat i) (Npos (XO (XI (XO (XI XH))))))))
    (seq O (N.to_nat n0))

(** val run_handler :
    app0 -> request -> body -> ((response_ev list * bool) * bytes list) * bool **)

let run_handler a r b =
  let resp = fun st body0 cl -> { rs_status = st; rs_body = body0; rs_close =
    cl }
  in
  (match a.behaviour_of r with
   | BAll ->
     let (s, b') = read_to_end (body_fuel b) b [] in
     (match s with
      | Inl data ->
        (((((resp (Npos (XO (XO (XO (XI (XO (XO (XI XH))))))))
              (a.describe r data) false) :: []), true), (after_drop b')),
          (located false b'))
      | Inr _ -> ((([], false), (after_drop b')), false))
   | BReadK k ->
     let (s, b') = read_k (body_fuel b) k b [] in
     (match s with
      | Inl data ->
        (((((resp (Npos (XO (XO (XO (XI (XO (XO (XI XH))))))))
              (a.describe r data) false) :: []), true), (after_drop b')),
          (located false b'))
      | Inr _ -> ((([], false), (after_drop b')), false))
   | BNone st ->
     (((((resp st (a.describe r []) false) :: []), true), (after_drop b)),
       (located false b))
   | BFirst ->
     let (res0, b') = read_to_end (body_fuel b) b [] in
     (((((resp (Npos (XO (XO (XO (XI (XO (XO (XI XH)))))))) (a.describe r [])
           false) :: []), true), (after_drop b')),
     (located (match res0 with
               | Inl _ -> false
               | Inr _ -> true) b'))
   | BHold ->
     (((((resp (Npos (XO (XO (XO (XI (XO (XO (XI XH)))))))) (a.describe r [])
           false) :: []), true), (after_drop b)), (located false b))
   | BErr -> ((([], false), (after_drop b)), (located false b))
   | BErrAfter ->
     (((((resp (Npos (XO (XO (XO (XI (XO (XO (XI XH)))))))) (a.describe r [])
           false) :: []), false), (after_drop b)), (located false b))
   | BClose ->
     (((((resp (Npos (XO (XO (XO (XI (XO (XO (XI XH)))))))) (a.describe r [])
           true) :: []), true), (after_drop b)), (located false b))
   | BReader n0 ->
     (((((resp (Npos (XO (XO (XO (XI (XO (XO (XI XH))))))))
           (reader_payload n0) false) :: []), true), (after_drop b)),
       (located false b)))

type one = { o_resps : response_ev list; o_keep : bool; o_ok : bool;
             o_rest : bytes list; o_hooked : bool; o_eof : bool }

(** val close_resp : n -> response_ev **)

let close_resp st =
  { rs_status = st; rs_body = []; rs_close = true }

(** val handle_one_request : app0 -> nat -> bool -> bytes list -> one **)

let handle_one_request a max_head ka sg =
  let (r0, sg') =
    read_request (add (S (length sg)) (length (concat sg))) max_head [] sg
  in
  (match r0 with
   | RParsed (buf, r) ->
     let h = r.q_hdrs in
     if (&&) (te_present h) (negb (te_final_chunked h))
     then { o_resps =
            ((close_resp (Npos (XO (XO (XO (XO (XI (XO (XO (XI XH)))))))))) :: []);
            o_keep = false; o_ok = true; o_rest = sg'; o_hooked = false;
            o_eof = false }
     else let client_close = h.connection_close in
          let leftover = skipn r.q_offset buf in
          let b = from_request leftover sg' h in
          (match a.hook_of r with
           | HProceed ->
             let (p, loc) = run_handler a r b in
             let (p0, rest) = p in
             let (resps, ok) = p0 in
             let ka' = (&&) ka (negb (existsb (fun r1 -> r1.rs_close) resps))
             in
             { o_resps = resps; o_keep =
             ((&&) ((&&) ((&&) ok (negb client_close)) ka') loc); o_ok = ok;
             o_rest = rest; o_hooked = true; o_eof = false }
           | HAnswer ->
             { o_resps = ({ rs_status = (Npos (XO (XO (XO (XI (XO (XO (XI
               XH)))))))); rs_body =
               (bs (String ((Ascii (false, false, false, true, false, true,
                 true, false)), (String ((Ascii (true, true, true, true,
                 false, true, true, false)), (String ((Ascii (true, true,
                 true, true, false, true, true, false)), (String ((Ascii
                 (true, true, false, true, false, true, true, false)),
                 EmptyString))))))))); rs_close = false } :: []); o_keep =
               ((&&) ((&&) ka (negb client_close)) (located false b)); o_ok =
               true; o_rest = (after_drop b); o_hooked = true; o_eof = false }
           | HAnswerClose ->
             { o_resps = ({ rs_status = (Npos (XO (XO (XO (XI (XO (XO (XI
               XH)))))))); rs_body =
               (bs (String ((Ascii (false, false, false, true, false, true,
                 true, false)), (String ((Ascii (true, true, true, true,
                 false, true, true, false)), (String ((Ascii (true, true,
                 true, true, false, true, true, false)), (String ((Ascii
                 (true, true, false, true, false, true, true, false)),
                 EmptyString))))))))); rs_close = true } :: []); o_keep =
               false; o_ok = true; o_rest = (after_drop b); o_hooked = true;
               o_eof = false })
   | RTooLarge ->
     { o_resps =
       ((close_resp (Npos (XI (XI (XI (XI (XO (XI (XO (XI XH)))))))))) :: []);
       o_keep = false; o_ok = true; o_rest = sg'; o_hooked = false; o_eof =
       false }
   | RInvalid ->
     { o_resps =
       ((close_resp (Npos (XO (XO (XO (XO (XI (XO (XO (XI XH)))))))))) :: []);
       o_keep = false; o_ok = true; o_rest = sg'; o_hooked = false; o_eof =
       false }
   | REof ->
     { o_resps = []; o_keep = false; o_ok = true; o_rest = sg'; o_hooked =
       false; o_eof = true })

type conn_result = { c_resps : response_ev list; c_ok : bool;
                     c_rest : bytes list; c_requests : nat; c_waiting : 
                     bool }

(** val handle_connection :
    nat -> app0 -> nat -> bool -> bytes list -> response_ev list -> nat ->
    conn_result **)

let rec handle_connection fuel a max_head ka sg acc nreq =
  match fuel with
  | O ->
    { c_resps = acc; c_ok = true; c_rest = sg; c_requests = nreq; c_waiting =
      false }
  | S fuel' ->
    let o = handle_one_request a max_head ka sg in
    let acc' = app acc o.o_resps in
    let n' = if o.o_hooked then S nreq else nreq in
    if negb o.o_ok
    then { c_resps = acc'; c_ok = false; c_rest = o.o_rest; c_requests = n';
           c_waiting = false }
    else if o.o_keep
         then handle_connection fuel' a max_head
                ((&&) ka (negb (existsb (fun r -> r.rs_close) o.o_resps)))
                o.o_rest acc' n'
         else { c_resps = acc'; c_ok = true; c_rest = o.o_rest; c_requests =
                n'; c_waiting = o.o_eof }

(** val serve_conn : app0 -> nat -> bytes list -> conn_result **)

let serve_conn a max_head sg =
  handle_connection (add (S (length sg)) (length (concat sg))) a max_head
    true sg [] O

type framing =
| FChunked
| FFixed of n
| FEmpty
| FReject

(** val values_of : bytes -> (bytes * bytes) list -> bytes list **)

let values_of name fs =
  map snd (filter (fun f -> same_name (fst f) name) fs)

(** val te_codings : (bytes * bytes) list -> bytes list **)

let te_codings fs =
  flat_map tokens
    (values_of
      (bs (String ((Ascii (false, false, true, false, true, true, true,
        false)), (String ((Ascii (false, true, false, false, true, true,
        true, false)), (String ((Ascii (true, false, false, false, false,
        true, true, false)), (String ((Ascii (false, true, true, true, false,
        true, true, false)), (String ((Ascii (true, true, false, false, true,
        true, true, false)), (String ((Ascii (false, true, true, false,
        false, true, true, false)), (String ((Ascii (true, false, true,
        false, false, true, true, false)), (String ((Ascii (false, true,
        false, false, true, true, true, false)), (String ((Ascii (true,
        false, true, true, false, true, false, false)), (String ((Ascii
        (true, false, true, false, false, true, true, false)), (String
        ((Ascii (false, true, true, true, false, true, true, false)), (String
        ((Ascii (true, true, false, false, false, true, true, false)),
        (String ((Ascii (true, true, true, true, false, true, true, false)),
        (String ((Ascii (false, false, true, false, false, true, true,
        false)), (String ((Ascii (true, false, false, true, false, true,
        true, false)), (String ((Ascii (false, true, true, true, false, true,
        true, false)), (String ((Ascii (true, true, true, false, false, true,
        true, false)), EmptyString))))))))))))))))))))))))))))))))))) fs)

(** val last_is_chunked : bytes list -> bool **)

let last_is_chunked cs =
  match rev cs with
  | [] -> false
  | c :: _ ->
    same_name c
      (bs (String ((Ascii (true, true, false, false, false, true, true,
        false)), (String ((Ascii (false, false, false, true, false, true,
        true, false)), (String ((Ascii (true, false, true, false, true, true,
        true, false)), (String ((Ascii (false, true, true, true, false, true,
        true, false)), (String ((Ascii (true, true, false, true, false, true,
        true, false)), (String ((Ascii (true, false, true, false, false,
        true, true, false)), (String ((Ascii (false, false, true, false,
        false, true, true, false)), EmptyString)))))))))))))))

(** val cl_decision : bytes list -> framing **)

let cl_decision vs =
  match map cl_value vs with
  | [] -> FEmpty
  | o :: rest ->
    (match o with
     | Some n0 ->
       if forallb (fun o0 ->
            match o0 with
            | Some m -> N.eqb m n0
            | None -> false) rest
       then if N.eqb n0 N0 then FEmpty else FFixed n0
       else FReject
     | None -> FReject)

(** val rfc_framing : (bytes * bytes) list -> framing **)

let rfc_framing fs =
  match te_codings fs with
  | [] ->
    cl_decision
      (values_of
        (bs (String ((Ascii (true, true, false, false, false, true, true,
          false)), (String ((Ascii (true, true, true, true, false, true,
          true, false)), (String ((Ascii (false, true, true, true, false,
          true, true, false)), (String ((Ascii (false, false, true, false,
          true, true, true, false)), (String ((Ascii (true, false, true,
          false, false, true, true, false)), (String ((Ascii (false, true,
          true, true, false, true, true, false)), (String ((Ascii (false,
          false, true, false, true, true, true, false)), (String ((Ascii
          (true, false, true, true, false, true, false, false)), (String
          ((Ascii (false, false, true, true, false, true, true, false)),
          (String ((Ascii (true, false, true, false, false, true, true,
          false)), (String ((Ascii (false, true, true, true, false, true,
          true, false)), (String ((Ascii (true, true, true, false, false,
          true, true, false)), (String ((Ascii (false, false, true, false,
          true, true, true, false)), (String ((Ascii (false, false, false,
          true, false, true, true, false)),
          EmptyString))))))))))))))))))))))))))))) fs)
  | b :: l -> if last_is_chunked (b :: l) then FChunked else FReject

(** val raw_fields : bytes -> (bytes * bytes) list **)

let raw_fields s =
  match strict_head s with
  | Some p -> let (sh, _) = p in sfield_pairs sh.s_fields
  | None -> []

type body_view =
| BodyOk of bytes * bytes
| BodyBad
| BodyUnspec

(** val view_body : framing -> bytes -> body_view **)

let view_body f after_head =
  match f with
  | FChunked ->
    (match spec_decode after_head with
     | Valid (p, r) -> BodyOk (p, r)
     | Invalid _ -> BodyBad
     | Unspecified -> BodyUnspec)
  | FFixed n0 ->
    (match spec_fixed n0 after_head with
     | Valid (p, r) -> BodyOk (p, r)
     | Invalid _ -> BodyBad
     | Unspecified -> BodyUnspec)
  | FEmpty -> BodyOk ([], after_head)
  | FReject -> BodyBad

(** val ev : n -> bytes -> bool -> response_ev **)

let ev st b c =
  { rs_status = st; rs_body = b; rs_close = c }

(** val firstn_bytes : n -> bytes -> bytes **)

let firstn_bytes k l =
  firstn (N.to_nat (N.min k (N.of_nat (length l)))) l

(** val spec_one :
    app0 -> request -> (bytes * bytes) list -> bytes -> (response_ev
    list * bool) * bytes **)

let spec_one a r raw after_head =
  match rfc_framing raw with
  | FReject ->
    ((((ev (Npos (XO (XO (XO (XO (XI (XO (XO (XI XH))))))))) [] true) :: []),
      false), [])
  | x ->
    let req_close = eval_close raw in
    let v = view_body x after_head in
    let rest = match v with
               | BodyOk (_, r') -> r'
               | _ -> [] in
    let readable = match v with
                   | BodyOk (_, _) -> true
                   | _ -> false in
    let payload = match v with
                  | BodyOk (p, _) -> p
                  | _ -> [] in
    (match a.hook_of r with
     | HProceed ->
       (match a.behaviour_of r with
        | BAll ->
          if readable
          then ((((ev (Npos (XO (XO (XO (XI (XO (XO (XI XH))))))))
                    (a.describe r payload) false) :: []), (negb req_close)),
                 rest)
          else (([], false), [])
        | BReadK k ->
          ((((ev (Npos (XO (XO (XO (XI (XO (XO (XI XH))))))))
               (a.describe r (firstn_bytes k payload)) false) :: []),
            ((&&) (negb req_close) readable)), rest)
        | BNone st ->
          ((((ev st (a.describe r []) false) :: []),
            ((&&) (negb req_close) readable)), rest)
        | BErr -> (([], false), [])
        | BErrAfter ->
          ((((ev (Npos (XO (XO (XO (XI (XO (XO (XI XH))))))))
               (a.describe r []) false) :: []), false), [])
        | BClose ->
          ((((ev (Npos (XO (XO (XO (XI (XO (XO (XI XH))))))))
               (a.describe r []) true) :: []), false), rest)
        | BReader n0 ->
          ((((ev (Npos (XO (XO (XO (XI (XO (XO (XI XH))))))))
               (reader_payload n0) false) :: []),
            ((&&) (negb req_close) readable)), rest)
        | _ ->
          ((((ev (Npos (XO (XO (XO (XI (XO (XO (XI XH))))))))
               (a.describe r []) false) :: []),
            ((&&) (negb req_close) readable)), rest))
     | HAnswer ->
       ((((ev (Npos (XO (XO (XO (XI (XO (XO (XI XH))))))))
            (bs (String ((Ascii (false, false, false, true, false, true,
              true, false)), (String ((Ascii (true, true, true, true, false,
              true, true, false)), (String ((Ascii (true, true, true, true,
              false, true, true, false)), (String ((Ascii (true, true, false,
              true, false, true, true, false)), EmptyString))))))))) false) :: []),
         ((&&) (negb req_close) readable)), rest)
     | HAnswerClose ->
       ((((ev (Npos (XO (XO (XO (XI (XO (XO (XI XH))))))))
            (bs (String ((Ascii (false, false, false, true, false, true,
              true, false)), (String ((Ascii (true, true, true, true, false,
              true, true, false)), (String ((Ascii (true, true, true, true,
              false, true, true, false)), (String ((Ascii (true, true, false,
              true, false, true, true, false)), EmptyString))))))))) true) :: []),
         false), rest))

type ending =
| EClosed
| EWaiting
| EUnspec

(** val body_unspecified_for :
    app0 -> request -> (bytes * bytes) list -> bytes -> bool **)

let body_unspecified_for a r raw after_head =
  match rfc_framing raw with
  | FReject -> false
  | x ->
    (match view_body x after_head with
     | BodyOk (_, _) -> false
     | BodyBad ->
       (match a.hook_of r with
        | HProceed ->
          (match a.behaviour_of r with
           | BReadK _ -> true
           | _ -> false)
        | _ -> false)
     | BodyUnspec -> true)

(** val spec_conn_f :
    nat -> app0 -> nat -> bytes -> response_ev list -> response_ev
    list * ending **)

let rec spec_conn_f fuel a max_head s acc =
  match fuel with
  | O -> (acc, EClosed)
  | S fuel' ->
    (match s with
     | [] -> (acc, EWaiting)
     | _ :: _ ->
       (match parse_request (firstn max_head s) with
        | Ok r ->
          if body_unspecified_for a r (raw_fields (firstn max_head s))
               (skipn r.q_offset s)
          then (acc, EUnspec)
          else let (p, rest) =
                 spec_one a r (raw_fields (firstn max_head s))
                   (skipn r.q_offset s)
               in
               let (resps, keep) = p in
               if keep
               then spec_conn_f fuel' a max_head rest (app acc resps)
               else ((app acc resps), EClosed)
        | Err e ->
          (match e with
           | EEof ->
             if Nat.leb max_head (length s)
             then ((app acc
                     ((ev (Npos (XI (XI (XI (XI (XO (XI (XO (XI XH)))))))))
                        [] true) :: [])), EClosed)
             else (acc, EWaiting)
           | _ ->
             ((app acc
                ((ev (Npos (XO (XO (XO (XO (XI (XO (XO (XI XH))))))))) []
                   true) :: [])), EClosed))
        | Fault _ ->
          ((app acc
             ((ev (Npos (XO (XO (XO (XO (XI (XO (XO (XI XH))))))))) [] true) :: [])),
            EClosed)))

(** val spec_conn : app0 -> nat -> bytes -> response_ev list * ending **)

let spec_conn a max_head s =
  spec_conn_f (S (length s)) a max_head s []

type reqinfo = { ri_end : nat; ri_chunked : bool; ri_readable : bool;
                 ri_reads_body : bool }

(** val reads_body : app0 -> request -> bool **)

let reads_body a r =
  match a.hook_of r with
  | HProceed -> (match a.behaviour_of r with
                 | BAll -> true
                 | _ -> false)
  | _ -> false

(** val req_infos : nat -> app0 -> nat -> bytes -> nat -> reqinfo list **)

let rec req_infos fuel a max_head s pos =
  match fuel with
  | O -> []
  | S fuel' ->
    (match s with
     | [] -> []
     | _ :: _ ->
       (match parse_request (firstn max_head s) with
        | Ok r ->
          let raw = raw_fields (firstn max_head s) in
          let f = rfc_framing raw in
          let after = skipn r.q_offset s in
          (match f with
           | FReject -> []
           | _ ->
             (match view_body f after with
              | BodyOk (_, rest) ->
                let e = add pos (sub (length s) (length rest)) in
                { ri_end = e; ri_chunked =
                (match f with
                 | FChunked -> true
                 | _ -> false); ri_readable = true; ri_reads_body =
                (reads_body a r) } :: (req_infos fuel' a max_head rest e)
              | BodyBad ->
                { ri_end = (add pos (length s)); ri_chunked =
                  (match f with
                   | FChunked -> true
                   | _ -> false); ri_readable = false; ri_reads_body =
                  (reads_body a r) } :: []
              | BodyUnspec -> []))
        | _ -> []))

(** val boundaries : bytes list -> nat -> nat list **)

let rec boundaries segs1 pos =
  match segs1 with
  | [] -> []
  | g :: r -> (add pos (length g)) :: (boundaries r (add pos (length g)))

(** val known_F20c : app0 -> nat -> bytes list -> bool **)

let known_F20c a max_head segs1 =
  let total = concat segs1 in
  let infos = req_infos (S (length total)) a max_head total O in
  let bs0 = boundaries segs1 O in
  existsb (fun ri ->
    (&&)
      ((&&) ((&&) ri.ri_chunked ri.ri_readable)
        (Nat.ltb ri.ri_end (length total)))
      (negb (existsb (Nat.eqb ri.ri_end) bs0))) infos

(** val known_F21 : app0 -> nat -> bytes list -> bool **)

let known_F21 a max_head segs1 =
  let total = concat segs1 in
  existsb (fun ri -> (&&) (negb ri.ri_readable) (negb ri.ri_reads_body))
    (req_infos (S (length total)) a max_head total O)

(** val cRLF0 : bytes **)

let cRLF0 =
  X0d :: (X0a :: [])

(** val digit : n -> byte **)

let digit n0 =
  n2b
    (N.add (Npos (XO (XO (XO (XO (XI XH))))))
      (N.modulo n0 (Npos (XO (XI (XO XH))))))

(** val u16_to_ascii : n -> bytes **)

let u16_to_ascii n0 =
  (n2b
    (N.add (Npos (XO (XO (XO (XO (XI XH))))))
      (N.modulo (N.div n0 (Npos (XO (XO (XI (XO (XO (XI XH)))))))) (Npos (XO
        (XO (XO (XO (XO (XO (XO (XO XH)))))))))))) :: ((n2b
                                                         (N.add (Npos (XO (XO
                                                           (XO (XO (XI
                                                           XH))))))
                                                           (N.modulo
                                                             (N.div n0 (Npos
                                                               (XO (XI (XO
                                                               XH))))) (Npos
                                                             (XO (XI (XO
                                                             XH))))))) :: (
    (n2b
      (N.add (Npos (XO (XO (XO (XO (XI XH))))))
        (N.modulo n0 (Npos (XO (XI (XO XH))))))) :: (X20 :: [])))

(** val dec_digits : nat -> n -> bytes -> bytes **)

let rec dec_digits fuel n0 acc =
  match fuel with
  | O -> acc
  | S f ->
    if N.eqb n0 N0
    then acc
    else dec_digits f (N.div n0 (Npos (XO (XI (XO XH))))) ((digit n0) :: acc)

(** val u64_to_ascii : n -> bytes **)

let u64_to_ascii n0 =
  if N.eqb n0 N0
  then X30 :: []
  else dec_digits (S (S (S (S (S (S (S (S (S (S (S (S (S (S (S (S (S (S (S (S
         O)))))))))))))))))))) n0 []

(** val hexdigit_upper : n -> byte **)

let hexdigit_upper d =
  if N.ltb d (Npos (XO (XI (XO XH))))
  then n2b (N.add (Npos (XO (XO (XO (XO (XI XH)))))) d)
  else n2b (N.add (Npos (XI (XI (XI (XO (XI XH)))))) d)

(** val hex_digits : nat -> n -> bytes -> bytes **)

let rec hex_digits fuel n0 acc =
  match fuel with
  | O -> acc
  | S f ->
    if N.eqb n0 N0
    then acc
    else hex_digits f (N.div n0 (Npos (XO (XO (XO (XO XH))))))
           ((hexdigit_upper (N.modulo n0 (Npos (XO (XO (XO (XO XH))))))) :: acc)

(** val hex_upper : n -> bytes **)

let hex_upper n0 =
  if N.eqb n0 N0
  then X30 :: []
  else hex_digits (S (S (S (S (S (S (S (S (S (S (S (S (S (S (S (S
         O)))))))))))))))) n0 []

(** val status_line : n -> bytes -> bytes **)

let status_line code reason =
  app
    (bs (String ((Ascii (false, false, false, true, false, false, true,
      false)), (String ((Ascii (false, false, true, false, true, false, true,
      false)), (String ((Ascii (false, false, true, false, true, false, true,
      false)), (String ((Ascii (false, false, false, false, true, false,
      true, false)), (String ((Ascii (true, true, true, true, false, true,
      false, false)), (String ((Ascii (true, false, false, false, true, true,
      false, false)), (String ((Ascii (false, true, true, true, false, true,
      false, false)), (String ((Ascii (true, false, false, false, true, true,
      false, false)), (String ((Ascii (false, false, false, false, false,
      true, false, false)), EmptyString)))))))))))))))))))
    (app (u16_to_ascii code) (app reason cRLF0))

(** val header_lines : headers -> bytes **)

let header_lines h =
  flat_map (fun nv ->
    app (fst nv)
      (app
        (bs (String ((Ascii (false, true, false, true, true, true, false,
          false)), (String ((Ascii (false, false, false, false, false, true,
          false, false)), EmptyString))))) (app (snd nv) cRLF0))) h.stored

(** val head_fields : headers -> bytes -> bytes **)

let head_fields h date =
  app (header_lines h) (if h.print_date then date else [])

(** val content_length_header : n -> bytes **)

let content_length_header n0 =
  app
    (bs (String ((Ascii (true, true, false, false, false, true, true,
      false)), (String ((Ascii (true, true, true, true, false, true, true,
      false)), (String ((Ascii (false, true, true, true, false, true, true,
      false)), (String ((Ascii (false, false, true, false, true, true, true,
      false)), (String ((Ascii (true, false, true, false, false, true, true,
      false)), (String ((Ascii (false, true, true, true, false, true, true,
      false)), (String ((Ascii (false, false, true, false, true, true, true,
      false)), (String ((Ascii (true, false, true, true, false, true, false,
      false)), (String ((Ascii (false, false, true, true, false, true, true,
      false)), (String ((Ascii (true, false, true, false, false, true, true,
      false)), (String ((Ascii (false, true, true, true, false, true, true,
      false)), (String ((Ascii (true, true, true, false, false, true, true,
      false)), (String ((Ascii (false, false, true, false, true, true, true,
      false)), (String ((Ascii (false, false, false, true, false, true, true,
      false)), (String ((Ascii (false, true, false, true, true, true, false,
      false)), (String ((Ascii (false, false, false, false, false, true,
      false, false)), EmptyString)))))))))))))))))))))))))))))))))
    (u64_to_ascii n0)

(** val chunk : bytes -> bytes **)

let chunk data =
  app (hex_upper (N.of_nat (length data))) (app cRLF0 (app data cRLF0))

(** val lAST_CHUNK : bytes **)

let lAST_CHUNK =
  app
    (bs (String ((Ascii (false, false, false, false, true, true, false,
      false)), EmptyString))) (app cRLF0 cRLF0)

(** val iNLINE_COPY_MAX : nat **)

let iNLINE_COPY_MAX =
  S (S (S (S (S (S (S (S (S (S (S (S (S (S (S (S (S (S (S (S (S (S (S (S (S
    (S (S (S (S (S (S (S (S (S (S (S (S (S (S (S (S (S (S (S (S (S (S (S (S
    (S (S (S (S (S (S (S (S (S (S (S (S (S (S (S (S (S (S (S (S (S (S (S (S
    (S (S (S (S (S (S (S (S (S (S (S (S (S (S (S (S (S (S (S (S (S (S (S (S
    (S (S (S (S (S (S (S (S (S (S (S (S (S (S (S (S (S (S (S (S (S (S (S (S
    (S (S (S (S (S (S (S (S (S (S (S (S (S (S (S (S (S (S (S (S (S (S (S (S
    (S (S (S (S (S (S (S (S (S (S (S (S (S (S (S (S (S (S (S (S (S (S (S (S
    (S (S (S (S (S (S (S (S (S (S (S (S (S (S (S (S (S (S (S (S (S (S (S (S
    (S (S (S (S (S (S (S (S (S (S (S (S (S (S (S (S (S (S (S (S (S (S (S (S
    (S (S (S (S (S (S (S (S (S (S (S (S (S (S (S (S (S (S (S (S (S (S (S (S
    (S (S (S (S (S (S (S (S (S (S (S (S (S (S (S (S (S (S (S (S (S (S (S (S
    (S (S (S (S (S (S (S (S (S (S (S (S (S (S (S (S (S (S (S (S (S (S (S (S
    (S (S (S (S (S (S (S (S (S (S (S (S (S (S (S (S (S (S (S (S (S (S (S (S
    (S (S (S (S (S (S (S (S (S (S (S (S (S (S (S (S (S (S (S (S (S (S (S (S
    (S (S (S (S (S (S (S (S (S (S (S (S (S (S (S (S (S (S (S (S (S (S (S (S
    (S (S (S (S (S (S (S (S (S (S (S (S (S (S (S (S (S (S (S (S (S (S (S (S
    (S (S (S (S (S (S (S (S (S (S (S (S (S (S (S (S (S (S (S (S (S (S (S (S
    (S (S (S (S (S (S (S (S (S (S (S (S (S (S (S (S (S (S (S (S (S (S (S (S
    (S (S (S (S (S (S (S (S (S (S (S (S (S (S (S (S (S (S (S (S (S (S (S (S
    (S (S (S (S (S (S (S (S (S (S (S (S (S (S (S (S (S (S (S (S (S (S (S (S
    (S (S (S (S (S (S (S (S (S (S (S (S (S (S (S (S (S (S (S (S (S (S (S (S
    (S (S (S (S (S (S (S (S (S (S (S (S (S (S (S (S (S (S (S (S (S (S (S (S
    (S (S (S (S (S (S (S (S (S (S (S (S (S (S (S (S (S (S (S (S (S (S (S (S
    (S (S (S (S (S (S (S (S (S (S (S (S (S (S (S (S (S (S (S (S (S (S (S (S
    (S (S (S (S (S (S (S (S (S (S (S (S (S (S (S (S (S (S (S (S (S (S (S (S
    (S (S (S (S (S (S (S (S (S (S (S (S (S (S (S (S (S (S (S (S (S (S (S (S
    (S (S (S (S (S (S (S (S (S (S (S (S (S (S (S (S (S (S (S (S (S (S (S (S
    (S (S (S (S (S (S (S (S (S (S (S (S (S (S (S (S (S (S (S (S (S (S (S (S
    (S (S (S (S (S (S (S (S (S (S (S (S (S (S (S (S (S (S (S (S (S (S (S (S
    (S (S (S (S (S (S (S (S (S (S (S (S (S (S (S (S (S (S (S (S (S (S (S (S
    (S (S (S (S (S (S (S (S (S (S (S (S (S (S (S (S (S (S (S (S (S (S (S (S
    (S (S (S (S (S (S (S (S (S (S (S (S (S (S (S (S (S (S (S (S (S (S (S (S
    (S (S (S (S (S (S (S (S (S (S (S (S (S (S (S (S (S (S (S (S (S (S (S (S
    (S (S (S (S (S (S (S (S (S (S (S (S (S (S (S (S (S (S (S (S (S (S (S (S
    (S (S (S (S (S (S (S (S (S (S (S (S (S (S (S (S (S (S (S (S (S (S (S (S
    (S (S (S (S (S (S (S (S (S (S (S (S (S (S (S (S (S (S (S (S (S (S (S (S
    (S (S (S (S (S (S (S (S (S (S (S (S (S (S (S (S (S (S (S (S (S (S (S (S
    (S (S (S (S (S (S (S (S (S (S (S (S (S (S (S (S (S (S (S (S (S (S (S (S
    (S (S (S (S (S (S (S (S (S (S (S (S (S (S (S (S (S (S (S (S (S (S (S (S
    (S (S (S (S (S (S (S (S (S (S (S (S (S (S (S (S (S (S (S (S (S (S (S (S
    (S (S (S (S (S (S (S (S (S (S (S (S (S (S (S (S (S (S (S (S (S (S (S (S
    (S (S (S (S (S (S (S (S (S (S (S (S (S (S (S (S (S (S (S (S (S (S (S (S
    (S (S (S (S (S (S (S (S (S (S (S (S (S (S (S (S (S (S (S (S (S (S (S (S
    (S (S (S (S (S (S (S (S (S (S (S (S (S (S (S (S (S (S (S (S (S (S (S (S
    (S (S (S (S (S (S (S (S (S (S (S (S (S (S (S (S (S (S (S (S (S (S (S (S
    (S (S (S (S (S (S (S (S (S (S (S (S (S (S (S (S (S (S (S (S (S (S (S (S
    (S (S (S (S (S (S (S (S (S (S (S (S (S (S (S (S (S (S (S (S (S (S (S (S
    (S (S (S (S (S (S (S (S (S (S (S (S (S (S (S (S (S (S (S (S (S (S (S (S
    (S (S (S (S (S (S (S (S (S (S (S (S (S (S (S (S (S (S (S (S (S (S (S (S
    (S (S (S (S (S (S (S (S (S (S (S (S (S (S (S (S (S (S (S (S (S (S (S (S
    (S (S (S (S (S (S (S (S (S (S (S (S (S (S (S (S (S (S (S (S (S (S (S (S
    (S (S (S (S (S (S (S (S (S (S (S (S (S (S (S (S (S (S (S (S (S (S (S (S
    (S (S (S (S (S (S (S (S (S (S (S (S (S (S (S (S (S (S (S (S (S (S (S (S
    (S (S (S (S (S (S (S (S (S (S (S (S (S (S (S (S (S (S (S (S (S (S (S (S
    (S (S (S (S (S (S (S (S (S (S (S (S (S (S (S (S (S (S (S (S (S (S (S (S
    (S (S (S (S (S (S (S (S (S (S (S (S (S (S (S (S (S (S (S (S (S (S (S (S
    (S (S (S (S (S (S (S (S (S (S (S (S (S (S (S (S (S (S (S (S (S (S (S (S
    (S (S (S (S (S (S (S (S (S (S (S (S (S (S (S (S (S (S (S (S (S (S (S (S
    (S (S (S (S (S (S (S (S (S (S (S (S (S (S (S (S (S (S (S (S (S (S (S (S
    (S (S (S (S (S (S (S (S (S (S (S (S (S (S (S (S (S (S (S (S (S (S (S (S
    (S (S (S (S (S (S (S (S (S (S (S (S (S (S (S (S (S (S (S (S (S (S (S (S
    (S (S (S (S (S (S (S (S (S (S (S (S (S (S (S (S (S (S (S (S (S (S (S (S
    (S (S (S (S (S (S (S (S (S (S (S (S (S (S (S (S (S (S (S (S (S (S (S (S
    (S (S (S (S (S (S (S (S (S (S (S (S (S (S (S (S (S (S (S (S (S (S (S (S
    (S (S (S (S (S (S (S (S (S (S (S (S (S (S (S (S (S (S (S (S (S (S (S (S
    (S (S (S (S (S (S (S (S (S (S (S (S (S (S (S (S (S (S (S (S (S (S (S (S
    (S (S (S (S (S (S (S (S (S (S (S (S (S (S (S (S (S (S (S (S (S (S (S (S
    (S (S (S (S (S (S (S (S (S (S (S (S (S (S (S (S (S (S (S (S (S (S (S (S
    (S (S (S (S (S (S (S (S (S (S (S (S (S (S (S (S (S (S (S (S (S (S (S (S
    (S (S (S (S (S (S (S (S (S (S (S (S (S (S (S (S (S (S (S (S (S (S (S (S
    (S (S (S (S (S (S (S (S (S (S (S (S (S (S (S (S (S (S (S (S (S (S (S (S
    (S (S (S (S (S (S (S (S (S (S (S (S (S (S (S (S (S (S (S (S (S (S (S (S
    (S (S (S (S (S (S (S (S (S (S (S (S (S (S (S (S (S (S (S (S (S (S (S (S
    (S (S (S (S (S (S (S (S (S (S (S (S (S (S (S (S (S (S (S (S (S (S (S (S
    (S (S (S (S (S (S (S (S (S (S (S (S (S (S (S (S (S (S (S (S (S (S (S (S
    (S (S (S (S (S (S (S (S (S (S (S (S (S (S (S (S (S (S (S (S (S (S (S (S
    (S (S (S (S (S (S (S (S (S (S (S (S (S (S (S (S (S (S (S (S (S (S (S (S
    (S (S (S (S (S (S (S (S (S (S (S (S (S (S (S (S (S (S (S (S (S (S (S (S
    (S (S (S (S (S (S (S (S (S (S (S (S (S (S (S (S (S (S (S (S (S (S (S (S
    (S (S (S (S (S (S (S (S (S (S (S (S (S (S (S (S (S (S (S (S (S (S (S (S
    (S (S (S (S (S (S (S (S (S (S (S (S (S (S (S (S (S (S (S (S (S (S (S (S
    (S (S (S (S (S (S (S (S (S (S (S (S (S (S (S (S (S (S (S (S (S (S (S (S
    (S (S (S (S (S (S (S (S (S (S (S (S (S (S (S (S (S (S (S (S (S (S (S (S
    (S (S (S (S (S (S (S (S (S (S (S (S (S (S (S (S (S (S (S (S (S (S (S (S
    (S (S (S (S (S (S (S (S (S (S (S (S (S (S (S (S (S (S (S (S (S (S (S (S
    (S (S (S (S (S (S (S
    O)))))))))))))))))))))))))))))))))))))))))))))))))))))))))))))))))))))))))))))))))))))))))))))))))))))))))))))))))))))))))))))))))))))))))))))))))))))))))))))))))))))))))))))))))))))))))))))))))))))))))))))))))))))))))))))))))))))))))))))))))))))))))))))))))))))))))))))))))))))))))))))))))))))))))))))))))))))))))))))))))))))))))))))))))))))))))))))))))))))))))))))))))))))))))))))))))))))))))))))))))))))))))))))))))))))))))))))))))))))))))))))))))))))))))))))))))))))))))))))))))))))))))))))))))))))))))))))))))))))))))))))))))))))))))))))))))))))))))))))))))))))))))))))))))))))))))))))))))))))))))))))))))))))))))))))))))))))))))))))))))))))))))))))))))))))))))))))))))))))))))))))))))))))))))))))))))))))))))))))))))))))))))))))))))))))))))))))))))))))))))))))))))))))))))))))))))))))))))))))))))))))))))))))))))))))))))))))))))))))))))))))))))))))))))))))))))))))))))))))))))))))))))))))))))))))))))))))))))))))))))))))))))))))))))))))))))))))))))))))))))))))))))))))))))))))))))))))))))))))))))))))))))))))))))))))))))))))))))))))))))))))))))))))))))))))))))))))))))))))))))))))))))))))))))))))))))))))))))))))))))))))))))))))))))))))))))))))))))))))))))))))))))))))))))))))))))))))))))))))))))))))))))))))))))))))))))))))))))))))))))))))))))))))))))))))))))))))))))))))))))))))))))))))))))))))))))))))))))))))))))))))))))))))))))))))))))))))))))))))))))))))))))))))))))))))))))))))))))))))))))))))))))))))))))))))))))))))))))))))))))))))))))))))))))))))))))))))))))))))))))))))))))))))))))))))))))))))))))))))))))))))))))))))))))))))))))))))))))))))))))))))))))))))))))))))))))))))))))))))))))))))))))))))))))))))))))))))))))))))))))))))))))))))))))))))))))))))))))))))))))))))))))))))))))))))))))))))))))))))))))))))))))))))))))))))))))))))))))))))))))))))))))))))))))))))))))))))))))))))))))))))))))))))))))))))))))))))))))))))))))))))))))))))))))))))))))))))))))))))))))))))))))))))))))))))))))))))))))))))))))))))))))))))))))))))))))))))))))))))))))))))))))))))))))))))))))))))))))))))))))))))))))))))))))))))))))))))))))))))))))))))))

(** val write_vectored_bytes : bytes -> bytes -> nat -> bytes **)

let write_vectored_bytes head0 body0 accepted =
  if Nat.ltb (length body0) iNLINE_COPY_MAX
  then app head0 body0
  else let n0 = Nat.min accepted (add (length head0) (length body0)) in
       app (firstn n0 (app head0 body0))
         (if Nat.ltb n0 (length head0)
          then app (skipn n0 head0) body0
          else skipn (sub n0 (length head0)) body0)

type reader = bytes list

(** val rd : nat -> reader -> bytes * reader **)

let rec rd k = function
| [] -> ([], [])
| p :: rest ->
  (match p with
   | [] -> rd k rest
   | _ :: _ ->
     (match skipn k p with
      | [] -> ((firstn k p), rest)
      | b :: l -> ((firstn k p), ((b :: l) :: rest))))

(** val take_all : nat -> nat -> reader -> bytes -> bytes * reader **)

let rec take_all fuel limit r acc =
  match fuel with
  | O -> (acc, r)
  | S f ->
    if Nat.eqb limit O
    then (acc, r)
    else let (out, r') = rd limit r in
         (match out with
          | [] -> (acc, r')
          | _ :: _ -> take_all f (sub limit (length out)) r' (app acc out))

(** val pROBE_MAX : nat **)

let pROBE_MAX =
  N.to_nat (Npos (XO (XO (XO (XO (XO (XO (XO (XO (XO (XO (XO (XO (XO
    XH))))))))))))))

(** val probe_body : nat -> reader -> bytes -> (bytes * bool) * reader **)

let rec probe_body fuel r acc =
  match fuel with
  | O -> ((acc, false), r)
  | S f ->
    if Nat.leb pROBE_MAX (length acc)
    then ((acc, false), r)
    else let (out, r') = rd (sub pROBE_MAX (length acc)) r in
         (match out with
          | [] -> ((acc, true), r')
          | _ :: _ -> probe_body f r' (app acc out))

(** val cHUNK_BUF : nat **)

let cHUNK_BUF =
  N.to_nat (Npos (XO (XO (XO (XO (XO (XO (XO (XO (XO (XO (XO (XO (XO (XO (XO
    (XO (XO XH))))))))))))))))))

(** val write_chunked : nat -> reader -> bytes **)

let rec write_chunked fuel r =
  match fuel with
  | O -> lAST_CHUNK
  | S f ->
    let (out, r') = rd cHUNK_BUF r in
    (match out with
     | [] -> lAST_CHUNK
     | _ :: _ -> app (chunk out) (write_chunked f r'))

(** val reader_fuel : reader -> nat **)

let reader_fuel r =
  S (add (length r) (length (concat r)))

type wres =
| WOk of bytes
| WErr of bytes

(** val write_response_empty : n -> bytes -> headers -> bytes -> wres **)

let write_response_empty code reason h date =
  WOk
    (app (status_line code reason)
      (app (head_fields h date)
        (if h.chunked
         then app cRLF0 lAST_CHUNK
         else app
                (bs (String ((Ascii (true, true, false, false, false, true,
                  true, false)), (String ((Ascii (true, true, true, true,
                  false, true, true, false)), (String ((Ascii (false, true,
                  true, true, false, true, true, false)), (String ((Ascii
                  (false, false, true, false, true, true, true, false)),
                  (String ((Ascii (true, false, true, false, false, true,
                  true, false)), (String ((Ascii (false, true, true, true,
                  false, true, true, false)), (String ((Ascii (false, false,
                  true, false, true, true, true, false)), (String ((Ascii
                  (true, false, true, true, false, true, false, false)),
                  (String ((Ascii (false, false, true, true, false, true,
                  true, false)), (String ((Ascii (true, false, true, false,
                  false, true, true, false)), (String ((Ascii (false, true,
                  true, true, false, true, true, false)), (String ((Ascii
                  (true, true, true, false, false, true, true, false)),
                  (String ((Ascii (false, false, true, false, true, true,
                  true, false)), (String ((Ascii (false, false, false, true,
                  false, true, true, false)), (String ((Ascii (false, true,
                  false, true, true, true, false, false)), (String ((Ascii
                  (false, false, false, false, false, true, false, false)),
                  (String ((Ascii (false, false, false, false, true, true,
                  false, false)),
                  EmptyString)))))))))))))))))))))))))))))))))))
                (app cRLF0 cRLF0))))

(** val write_response_bytes :
    n -> bytes -> headers -> bytes -> bytes -> nat -> wres **)

let write_response_bytes code reason h date body0 accepted =
  let head0 = app (status_line code reason) (head_fields h date) in
  if h.chunked
  then WOk
         (app head0
           (app cRLF0
             (app (match body0 with
                   | [] -> []
                   | _ :: _ -> chunk body0) lAST_CHUNK)))
  else WOk
         (write_vectored_bytes
           (app head0
             (app (content_length_header (N.of_nat (length body0)))
               (app cRLF0 cRLF0))) body0 accepted)

(** val with_body : bytes -> headers -> bytes -> reader -> nat -> wres **)

let with_body start h date r accepted =
  let fields = head_fields h date in
  if h.chunked
  then WOk
         (app start
           (app fields (app cRLF0 (write_chunked (reader_fuel r) r))))
  else (match h.content_length with
        | Some cl ->
          if N.leb cl (N.of_nat pROBE_MAX)
          then let (buf, _) = take_all (reader_fuel r) (N.to_nat cl) r [] in
               if N.eqb (N.of_nat (length buf)) cl
               then WOk
                      (write_vectored_bytes
                        (app start
                          (app fields
                            (app (content_length_header cl) (app cRLF0 cRLF0))))
                        buf accepted)
               else WErr []
          else let head0 =
                 app start
                   (app fields
                     (app (content_length_header cl) (app cRLF0 cRLF0)))
               in
               let (data, _) = take_all (reader_fuel r) (N.to_nat cl) r [] in
               if N.eqb (N.of_nat (length data)) cl
               then WOk (app head0 data)
               else WErr (app head0 data)
        | None ->
          let (p, r') = probe_body (reader_fuel r) r [] in
          let (prefix, complete) = p in
          if complete
          then WOk
                 (write_vectored_bytes
                   (app start
                     (app fields
                       (app
                         (content_length_header (N.of_nat (length prefix)))
                         (app cRLF0 cRLF0)))) prefix accepted)
          else WOk
                 (app start
                   (app fields
                     (app
                       (bs (String ((Ascii (false, false, true, false, true,
                         true, true, false)), (String ((Ascii (false, true,
                         false, false, true, true, true, false)), (String
                         ((Ascii (true, false, false, false, false, true,
                         true, false)), (String ((Ascii (false, true, true,
                         true, false, true, true, false)), (String ((Ascii
                         (true, true, false, false, true, true, true,
                         false)), (String ((Ascii (false, true, true, false,
                         false, true, true, false)), (String ((Ascii (true,
                         false, true, false, false, true, true, false)),
                         (String ((Ascii (false, true, false, false, true,
                         true, true, false)), (String ((Ascii (true, false,
                         true, true, false, true, false, false)), (String
                         ((Ascii (true, false, true, false, false, true,
                         true, false)), (String ((Ascii (false, true, true,
                         true, false, true, true, false)), (String ((Ascii
                         (true, true, false, false, false, true, true,
                         false)), (String ((Ascii (true, true, true, true,
                         false, true, true, false)), (String ((Ascii (false,
                         false, true, false, false, true, true, false)),
                         (String ((Ascii (true, false, false, true, false,
                         true, true, false)), (String ((Ascii (false, true,
                         true, true, false, true, true, false)), (String
                         ((Ascii (true, true, true, false, false, true, true,
                         false)), (String ((Ascii (false, true, false, true,
                         true, true, false, false)), (String ((Ascii (false,
                         false, false, false, false, true, false, false)),
                         (String ((Ascii (true, true, false, false, false,
                         true, true, false)), (String ((Ascii (false, false,
                         false, true, false, true, true, false)), (String
                         ((Ascii (true, false, true, false, true, true, true,
                         false)), (String ((Ascii (false, true, true, true,
                         false, true, true, false)), (String ((Ascii (true,
                         true, false, true, false, true, true, false)),
                         (String ((Ascii (true, false, true, false, false,
                         true, true, false)), (String ((Ascii (false, false,
                         true, false, false, true, true, false)),
                         EmptyString)))))))))))))))))))))))))))))))))))))))))))))))))))))
                       (app cRLF0
                         (app cRLF0
                           (app (chunk prefix)
                             (write_chunked (reader_fuel r') r'))))))))

(** val write_response :
    n -> bytes -> headers -> bytes -> reader -> nat -> wres **)

let write_response code reason h date r accepted =
  with_body (status_line code reason) h date r accepted

(** val write_request :
    bytes -> bytes -> headers -> bytes -> reader -> nat -> wres **)

let write_request method1 uri0 h date r accepted =
  with_body
    (app method1
      (app (X20 :: [])
        (app uri0
          (app (X20 :: [])
            (app
              (bs (String ((Ascii (false, false, false, true, false, false,
                true, false)), (String ((Ascii (false, false, true, false,
                true, false, true, false)), (String ((Ascii (false, false,
                true, false, true, false, true, false)), (String ((Ascii
                (false, false, false, false, true, false, true, false)),
                (String ((Ascii (true, true, true, true, false, true, false,
                false)), (String ((Ascii (true, false, false, false, true,
                true, false, false)), (String ((Ascii (false, true, true,
                true, false, true, false, false)), (String ((Ascii (true,
                false, false, false, true, true, false, false)),
                EmptyString))))))))))))))))) cRLF0))))) h date r accepted

type message = { m_start : bytes; m_fields : (bytes * bytes) list;
                 m_body : bytes; m_rest : bytes }

(** val dec_fields : nat -> bytes -> ((bytes * bytes) list * bytes) option **)

let rec dec_fields fuel l =
  match fuel with
  | O -> None
  | S f ->
    (match line_crlf l with
     | Some p ->
       let (o, rest) = p in
       (match o with
        | Some line ->
          (match line with
           | [] -> Some ([], rest)
           | _ :: _ ->
             (match find_index (eqb0 X3a) line with
              | Some i ->
                (match dec_fields f rest with
                 | Some p0 ->
                   let (fs, rest') = p0 in
                   Some ((((firstn i line),
                   (strip_ows (skipn (S i) line))) :: fs), rest')
                 | None -> None)
              | None -> None))
        | None -> None)
     | None -> None)

(** val is_name : bytes -> (bytes * bytes) -> bool **)

let is_name n0 f =
  same_name (fst f) n0

(** val decode_msg : bytes -> message option **)

let decode_msg l =
  match line_crlf l with
  | Some p ->
    let (o, r1) = p in
    (match o with
     | Some start ->
       (match dec_fields (S (length r1)) r1 with
        | Some p0 ->
          let (fs, r2) = p0 in
          let cls =
            filter
              (is_name
                (bs (String ((Ascii (true, true, false, false, false, true,
                  true, false)), (String ((Ascii (true, true, true, true,
                  false, true, true, false)), (String ((Ascii (false, true,
                  true, true, false, true, true, false)), (String ((Ascii
                  (false, false, true, false, true, true, true, false)),
                  (String ((Ascii (true, false, true, false, false, true,
                  true, false)), (String ((Ascii (false, true, true, true,
                  false, true, true, false)), (String ((Ascii (false, false,
                  true, false, true, true, true, false)), (String ((Ascii
                  (true, false, true, true, false, true, false, false)),
                  (String ((Ascii (false, false, true, true, false, true,
                  true, false)), (String ((Ascii (true, false, true, false,
                  false, true, true, false)), (String ((Ascii (false, true,
                  true, true, false, true, true, false)), (String ((Ascii
                  (true, true, true, false, false, true, true, false)),
                  (String ((Ascii (false, false, true, false, true, true,
                  true, false)), (String ((Ascii (false, false, false, true,
                  false, true, true, false)),
                  EmptyString)))))))))))))))))))))))))))))) fs
          in
          let tes =
            filter
              (is_name
                (bs (String ((Ascii (false, false, true, false, true, true,
                  true, false)), (String ((Ascii (false, true, false, false,
                  true, true, true, false)), (String ((Ascii (true, false,
                  false, false, false, true, true, false)), (String ((Ascii
                  (false, true, true, true, false, true, true, false)),
                  (String ((Ascii (true, true, false, false, true, true,
                  true, false)), (String ((Ascii (false, true, true, false,
                  false, true, true, false)), (String ((Ascii (true, false,
                  true, false, false, true, true, false)), (String ((Ascii
                  (false, true, false, false, true, true, true, false)),
                  (String ((Ascii (true, false, true, true, false, true,
                  false, false)), (String ((Ascii (true, false, true, false,
                  false, true, true, false)), (String ((Ascii (false, true,
                  true, true, false, true, true, false)), (String ((Ascii
                  (true, true, false, false, false, true, true, false)),
                  (String ((Ascii (true, true, true, true, false, true, true,
                  false)), (String ((Ascii (false, false, true, false, false,
                  true, true, false)), (String ((Ascii (true, false, false,
                  true, false, true, true, false)), (String ((Ascii (false,
                  true, true, true, false, true, true, false)), (String
                  ((Ascii (true, true, true, false, false, true, true,
                  false)), EmptyString)))))))))))))))))))))))))))))))))))) fs
          in
          (match cls with
           | [] ->
             (match tes with
              | [] -> None
              | te :: l0 ->
                (match l0 with
                 | [] ->
                   if same_name (snd te)
                        (bs (String ((Ascii (true, true, false, false, false,
                          true, true, false)), (String ((Ascii (false, false,
                          false, true, false, true, true, false)), (String
                          ((Ascii (true, false, true, false, true, true,
                          true, false)), (String ((Ascii (false, true, true,
                          true, false, true, true, false)), (String ((Ascii
                          (true, true, false, true, false, true, true,
                          false)), (String ((Ascii (true, false, true, false,
                          false, true, true, false)), (String ((Ascii (false,
                          false, true, false, false, true, true, false)),
                          EmptyString)))))))))))))))
                   then (match spec_decode r2 with
                         | Valid (body0, rest) ->
                           Some { m_start = start; m_fields = fs; m_body =
                             body0; m_rest = rest }
                         | _ -> None)
                   else None
                 | _ :: _ -> None))
           | cl :: l0 ->
             (match l0 with
              | [] ->
                (match tes with
                 | [] ->
                   (match cl_value (snd cl) with
                    | Some n0 ->
                      (match take_n n0 r2 with
                       | Some p1 ->
                         let (body0, rest) = p1 in
                         Some { m_start = start; m_fields = fs; m_body =
                         body0; m_rest = rest }
                       | None -> None)
                    | None -> None)
                 | _ :: _ -> None)
              | _ :: _ -> None))
        | None -> None)
     | None -> None)
  | None -> None

(** val is_te : (bytes * bytes) -> bool **)

let is_te f =
  same_name (fst f)
    (bs (String ((Ascii (false, false, true, false, true, true, true,
      false)), (String ((Ascii (false, true, false, false, true, true, true,
      false)), (String ((Ascii (true, false, false, false, false, true, true,
      false)), (String ((Ascii (false, true, true, true, false, true, true,
      false)), (String ((Ascii (true, true, false, false, true, true, true,
      false)), (String ((Ascii (false, true, true, false, false, true, true,
      false)), (String ((Ascii (true, false, true, false, false, true, true,
      false)), (String ((Ascii (false, true, false, false, true, true, true,
      false)), (String ((Ascii (true, false, true, true, false, true, false,
      false)), (String ((Ascii (true, false, true, false, false, true, true,
      false)), (String ((Ascii (false, true, true, true, false, true, true,
      false)), (String ((Ascii (true, true, false, false, false, true, true,
      false)), (String ((Ascii (true, true, true, true, false, true, true,
      false)), (String ((Ascii (false, false, true, false, false, true, true,
      false)), (String ((Ascii (true, false, false, true, false, true, true,
      false)), (String ((Ascii (false, true, true, true, false, true, true,
      false)), (String ((Ascii (true, true, true, false, false, true, true,
      false)), EmptyString)))))))))))))))))))))))))))))))))))

(** val norm_field : (bytes * bytes) -> bytes * bytes **)

let norm_field f =
  ((fst f), (strip_ows (snd f)))

(** val te_fields_st : (bytes * bytes) list -> (bytes * bytes) list **)

let te_fields_st st =
  filter is_te st

(** val printable_st : (bytes * bytes) list -> bool **)

let printable_st st =
  match te_fields_st st with
  | [] -> true
  | te :: l ->
    (match l with
     | [] ->
       same_name (strip_ows (snd te))
         (bs (String ((Ascii (true, true, false, false, false, true, true,
           false)), (String ((Ascii (false, false, false, true, false, true,
           true, false)), (String ((Ascii (true, false, true, false, true,
           true, true, false)), (String ((Ascii (false, true, true, true,
           false, true, true, false)), (String ((Ascii (true, true, false,
           true, false, true, true, false)), (String ((Ascii (true, false,
           true, false, false, true, true, false)), (String ((Ascii (false,
           false, true, false, false, true, true, false)),
           EmptyString)))))))))))))))
     | _ :: _ -> false)

type wstate =
| WIdle
| WLocked
| WGot of nat
| WRunning of nat
| WDisc
| WExited

type mstate =
| MSubmitting
| MJoining of nat
| MReturned

type label =
| LSend
| LDropSender
| LJoined
| LReturned
| LLock of nat
| LUnlock of nat
| LExit of nat
| LJobStart of nat * nat
| LJobEnd of nat

type pstate = { p_workers : wstate list; p_queue : nat list; p_sent : 
                nat; p_sender : bool; p_lock : nat option; p_main : mstate;
                p_starts : nat list; p_done : nat list }

(** val pool_init : nat -> pstate **)

let pool_init n0 =
  { p_workers = (repeat WIdle n0); p_queue = []; p_sent = O; p_sender = true;
    p_lock = None; p_main = MSubmitting; p_starts = []; p_done = [] }

(** val set_nth : 'a1 list -> nat -> 'a1 -> 'a1 list **)

let rec set_nth l i x =
  match l with
  | [] -> []
  | y :: r -> (match i with
               | O -> x :: r
               | S k -> y :: (set_nth r k x))

(** val upd : pstate -> nat -> wstate -> pstate **)

let upd s w ws =
  { p_workers = (set_nth s.p_workers w ws); p_queue = s.p_queue; p_sent =
    s.p_sent; p_sender = s.p_sender; p_lock = s.p_lock; p_main = s.p_main;
    p_starts = s.p_starts; p_done = s.p_done }

(** val step : pstate -> label -> pstate option **)

let step s = function
| LSend ->
  (match s.p_main with
   | MSubmitting ->
     if s.p_sender
     then Some { p_workers = s.p_workers; p_queue =
            (app s.p_queue (s.p_sent :: [])); p_sent = (S s.p_sent);
            p_sender = true; p_lock = s.p_lock; p_main = MSubmitting;
            p_starts = s.p_starts; p_done = s.p_done }
     else None
   | _ -> None)
| LDropSender ->
  (match s.p_main with
   | MSubmitting ->
     Some { p_workers = s.p_workers; p_queue = s.p_queue; p_sent = s.p_sent;
       p_sender = false; p_lock = s.p_lock; p_main = (MJoining O); p_starts =
       s.p_starts; p_done = s.p_done }
   | _ -> None)
| LJoined ->
  (match s.p_main with
   | MJoining i ->
     (match nth_error s.p_workers i with
      | Some w ->
        (match w with
         | WExited ->
           Some { p_workers = s.p_workers; p_queue = s.p_queue; p_sent =
             s.p_sent; p_sender = s.p_sender; p_lock = s.p_lock; p_main =
             (MJoining (S i)); p_starts = s.p_starts; p_done = s.p_done }
         | _ -> None)
      | None -> None)
   | _ -> None)
| LReturned ->
  (match s.p_main with
   | MJoining i ->
     if Nat.eqb i (length s.p_workers)
     then Some { p_workers = s.p_workers; p_queue = s.p_queue; p_sent =
            s.p_sent; p_sender = s.p_sender; p_lock = s.p_lock; p_main =
            MReturned; p_starts = s.p_starts; p_done = s.p_done }
     else None
   | _ -> None)
| LLock w ->
  (match nth_error s.p_workers w with
   | Some w0 ->
     (match w0 with
      | WIdle ->
        (match s.p_lock with
         | Some _ -> None
         | None ->
           let s' = upd s w WLocked in
           Some { p_workers = s'.p_workers; p_queue = s.p_queue; p_sent =
           s.p_sent; p_sender = s.p_sender; p_lock = (Some w); p_main =
           s.p_main; p_starts = s.p_starts; p_done = s.p_done })
      | _ -> None)
   | None -> None)
| LUnlock w ->
  (match nth_error s.p_workers w with
   | Some w0 ->
     (match w0 with
      | WLocked ->
        (match s.p_queue with
         | [] ->
           if s.p_sender
           then None
           else let s' = upd s w WDisc in
                Some { p_workers = s'.p_workers; p_queue = []; p_sent =
                s.p_sent; p_sender = false; p_lock = None; p_main = s.p_main;
                p_starts = s.p_starts; p_done = s.p_done }
         | j :: q ->
           let s' = upd s w (WGot j) in
           Some { p_workers = s'.p_workers; p_queue = q; p_sent = s.p_sent;
           p_sender = s.p_sender; p_lock = None; p_main = s.p_main;
           p_starts = s.p_starts; p_done = s.p_done })
      | _ -> None)
   | None -> None)
| LExit w ->
  (match nth_error s.p_workers w with
   | Some w0 -> (match w0 with
                 | WDisc -> Some (upd s w WExited)
                 | _ -> None)
   | None -> None)
| LJobStart (j, w) ->
  (match nth_error s.p_workers w with
   | Some w0 ->
     (match w0 with
      | WGot j' ->
        if Nat.eqb j j'
        then let s' = upd s w (WRunning j) in
             Some { p_workers = s'.p_workers; p_queue = s.p_queue; p_sent =
             s.p_sent; p_sender = s.p_sender; p_lock = s.p_lock; p_main =
             s.p_main; p_starts = (app s.p_starts (j :: [])); p_done =
             s.p_done }
        else None
      | _ -> None)
   | None -> None)
| LJobEnd j ->
  (match find_index (fun ws ->
           match ws with
           | WRunning j' -> Nat.eqb j j'
           | _ -> false) s.p_workers with
   | Some w ->
     let s' = upd s w WIdle in
     Some { p_workers = s'.p_workers; p_queue = s.p_queue; p_sent = s.p_sent;
     p_sender = s.p_sender; p_lock = s.p_lock; p_main = s.p_main; p_starts =
     s.p_starts; p_done = (app s.p_done (j :: [])) }
   | None -> None)

(** val run : pstate -> label list -> pstate option **)

let rec run s = function
| [] -> Some s
| l :: r -> (match step s l with
             | Some s' -> run s' r
             | None -> None)

(** val first_rejected : pstate -> label list -> nat -> nat option **)

let rec first_rejected s tr i =
  match tr with
  | [] -> None
  | l :: r ->
    (match step s l with
     | Some s' -> first_rejected s' r (S i)
     | None -> Some i)

type alloc =
| ALive
| AFreed

type jphase =
| JQueued
| JRunning
| JDeleted
| JDropped
| JStored

type conn = { k_rec : alloc; k_stream : bool; k_registered : bool;
              k_in_flight : bool; k_closed : bool; k_pending : nat;
              k_peer_closed : bool; k_jobs : jphase list; k_in_batch : 
              bool; k_grave : bool; k_answered : nat; k_taken : nat list }

type elstate =
| EWaiting0
| EBatch

type estate = { e_conns : conn list; e_loop : elstate }

(** val ep_init : estate **)

let ep_init =
  { e_conns = []; e_loop = EWaiting0 }

type outcome0 =
| OStale
| ODispatched
| OBusy

type elabel =
| LAccept of bool
| LClientSend of nat
| LClientClose of nat
| LWait of nat list
| LEvent of nat * outcome0
| LFree of nat
| LBatchEnd
| LJobStart0 of nat
| LRearm of nat
| LDel of nat
| LStreamDrop of nat
| LClosedStore of nat
| LGrave of nat

(** val ready : conn -> bool **)

let ready k =
  (&&) k.k_registered ((||) (Nat.ltb O k.k_pending) k.k_peer_closed)

(** val set_nth0 : 'a1 list -> nat -> 'a1 -> 'a1 list **)

let rec set_nth0 l i x =
  match l with
  | [] -> []
  | y :: r -> (match i with
               | O -> x :: r
               | S n0 -> y :: (set_nth0 r n0 x))

(** val with_conn :
    estate -> nat -> (conn -> conn option) -> estate option **)

let with_conn s c f =
  match nth_error s.e_conns c with
  | Some k ->
    (match f k with
     | Some k' ->
       Some { e_conns = (set_nth0 s.e_conns c k'); e_loop = s.e_loop }
     | None -> None)
  | None -> None

(** val upd_jobs : conn -> jphase list -> conn **)

let upd_jobs k js =
  { k_rec = k.k_rec; k_stream = k.k_stream; k_registered = k.k_registered;
    k_in_flight = k.k_in_flight; k_closed = k.k_closed; k_pending =
    k.k_pending; k_peer_closed = k.k_peer_closed; k_jobs = js; k_in_batch =
    k.k_in_batch; k_grave = k.k_grave; k_answered = k.k_answered; k_taken =
    k.k_taken }

(** val move_job :
    jphase list -> jphase -> jphase option -> jphase list option **)

let rec move_job js p q =
  match js with
  | [] -> None
  | j :: r ->
    (match j with
     | JQueued ->
       (match p with
        | JQueued -> Some (match q with
                           | Some q' -> q' :: r
                           | None -> r)
        | _ ->
          (match move_job r p q with
           | Some r' -> Some (j :: r')
           | None -> None))
     | JRunning ->
       (match p with
        | JRunning -> Some (match q with
                            | Some q' -> q' :: r
                            | None -> r)
        | _ ->
          (match move_job r p q with
           | Some r' -> Some (j :: r')
           | None -> None))
     | JDeleted ->
       (match p with
        | JDeleted -> Some (match q with
                            | Some q' -> q' :: r
                            | None -> r)
        | _ ->
          (match move_job r p q with
           | Some r' -> Some (j :: r')
           | None -> None))
     | JDropped ->
       (match p with
        | JDropped -> Some (match q with
                            | Some q' -> q' :: r
                            | None -> r)
        | _ ->
          (match move_job r p q with
           | Some r' -> Some (j :: r')
           | None -> None))
     | JStored ->
       (match p with
        | JStored -> Some (match q with
                           | Some q' -> q' :: r
                           | None -> r)
        | _ ->
          (match move_job r p q with
           | Some r' -> Some (j :: r')
           | None -> None)))

(** val new_conn : bool -> conn **)

let new_conn add_ok =
  { k_rec = (if add_ok then ALive else AFreed); k_stream = add_ok;
    k_registered = add_ok; k_in_flight = false; k_closed = false; k_pending =
    O; k_peer_closed = false; k_jobs = []; k_in_batch = false; k_grave =
    false; k_answered = O; k_taken = [] }

(** val all_distinct : nat list -> bool **)

let rec all_distinct = function
| [] -> true
| x :: r -> (&&) (negb (existsb (Nat.eqb x) r)) (all_distinct r)

(** val step0 : estate -> elabel -> estate option **)

let step0 s = function
| LAccept ok ->
  Some { e_conns = (app s.e_conns ((new_conn ok) :: [])); e_loop = s.e_loop }
| LClientSend c ->
  with_conn s c (fun k ->
    if k.k_peer_closed
    then None
    else Some { k_rec = k.k_rec; k_stream = k.k_stream; k_registered =
           k.k_registered; k_in_flight = k.k_in_flight; k_closed =
           k.k_closed; k_pending = (S k.k_pending); k_peer_closed = false;
           k_jobs = k.k_jobs; k_in_batch = k.k_in_batch; k_grave = k.k_grave;
           k_answered = k.k_answered; k_taken = k.k_taken })
| LClientClose c ->
  with_conn s c (fun k -> Some { k_rec = k.k_rec; k_stream = k.k_stream;
    k_registered = k.k_registered; k_in_flight = k.k_in_flight; k_closed =
    k.k_closed; k_pending = k.k_pending; k_peer_closed = true; k_jobs =
    k.k_jobs; k_in_batch = k.k_in_batch; k_grave = k.k_grave; k_answered =
    k.k_answered; k_taken = k.k_taken })
| LWait batch ->
  (match s.e_loop with
   | EWaiting0 ->
     if (&&) (all_distinct batch)
          (forallb (fun c ->
            match nth_error s.e_conns c with
            | Some k -> ready k
            | None -> false) batch)
     then Some { e_conns =
            (map (fun ck ->
              let (i, k) = ck in
              if existsb (Nat.eqb i) batch
              then { k_rec = k.k_rec; k_stream = k.k_stream; k_registered =
                     k.k_registered; k_in_flight = k.k_in_flight; k_closed =
                     k.k_closed; k_pending = k.k_pending; k_peer_closed =
                     k.k_peer_closed; k_jobs = k.k_jobs; k_in_batch = true;
                     k_grave = k.k_grave; k_answered = k.k_answered;
                     k_taken = k.k_taken }
              else k) (combine (seq O (length s.e_conns)) s.e_conns));
            e_loop = EBatch }
     else None
   | EBatch -> None)
| LEvent (c, o) ->
  (match s.e_loop with
   | EWaiting0 -> None
   | EBatch ->
     with_conn s c (fun k ->
       if negb k.k_in_batch
       then None
       else let actual =
              if k.k_closed
              then OStale
              else if k.k_in_flight then OBusy else ODispatched
            in
            (match actual with
             | OStale ->
               (match o with
                | OStale ->
                  Some { k_rec = k.k_rec; k_stream = k.k_stream;
                    k_registered = k.k_registered; k_in_flight =
                    (match actual with
                     | ODispatched -> true
                     | _ -> k.k_in_flight); k_closed = k.k_closed;
                    k_pending = k.k_pending; k_peer_closed = k.k_peer_closed;
                    k_jobs =
                    (match actual with
                     | ODispatched -> app k.k_jobs (JQueued :: [])
                     | _ -> k.k_jobs); k_in_batch = false; k_grave =
                    k.k_grave; k_answered = k.k_answered; k_taken =
                    k.k_taken }
                | _ -> None)
             | ODispatched ->
               (match o with
                | ODispatched ->
                  Some { k_rec = k.k_rec; k_stream = k.k_stream;
                    k_registered = k.k_registered; k_in_flight =
                    (match actual with
                     | ODispatched -> true
                     | _ -> k.k_in_flight); k_closed = k.k_closed;
                    k_pending = k.k_pending; k_peer_closed = k.k_peer_closed;
                    k_jobs =
                    (match actual with
                     | ODispatched -> app k.k_jobs (JQueued :: [])
                     | _ -> k.k_jobs); k_in_batch = false; k_grave =
                    k.k_grave; k_answered = k.k_answered; k_taken =
                    k.k_taken }
                | _ -> None)
             | OBusy ->
               (match o with
                | OBusy ->
                  Some { k_rec = k.k_rec; k_stream = k.k_stream;
                    k_registered = k.k_registered; k_in_flight =
                    (match actual with
                     | ODispatched -> true
                     | _ -> k.k_in_flight); k_closed = k.k_closed;
                    k_pending = k.k_pending; k_peer_closed = k.k_peer_closed;
                    k_jobs =
                    (match actual with
                     | ODispatched -> app k.k_jobs (JQueued :: [])
                     | _ -> k.k_jobs); k_in_batch = false; k_grave =
                    k.k_grave; k_answered = k.k_answered; k_taken =
                    k.k_taken }
                | _ -> None))))
| LFree c ->
  (match s.e_loop with
   | EWaiting0 -> None
   | EBatch ->
     if negb (forallb (fun k -> negb k.k_in_batch) s.e_conns)
     then None
     else with_conn s c (fun k ->
            if k.k_grave
            then Some { k_rec = AFreed; k_stream = k.k_stream; k_registered =
                   k.k_registered; k_in_flight = k.k_in_flight; k_closed =
                   k.k_closed; k_pending = k.k_pending; k_peer_closed =
                   k.k_peer_closed; k_jobs = k.k_jobs; k_in_batch =
                   k.k_in_batch; k_grave = false; k_answered = k.k_answered;
                   k_taken = k.k_taken }
            else None))
| LBatchEnd ->
  (match s.e_loop with
   | EWaiting0 -> None
   | EBatch ->
     if forallb (fun k -> negb k.k_in_batch) s.e_conns
     then Some { e_conns = s.e_conns; e_loop = EWaiting0 }
     else None)
| LJobStart0 c ->
  with_conn s c (fun k ->
    match move_job k.k_jobs JQueued (Some JRunning) with
    | Some js ->
      Some
        (match k.k_pending with
         | O -> upd_jobs k js
         | S p ->
           { k_rec = k.k_rec; k_stream = k.k_stream; k_registered =
             k.k_registered; k_in_flight = k.k_in_flight; k_closed =
             k.k_closed; k_pending = p; k_peer_closed = k.k_peer_closed;
             k_jobs = js; k_in_batch = k.k_in_batch; k_grave = k.k_grave;
             k_answered = (S k.k_answered); k_taken =
             (app k.k_taken (k.k_answered :: [])) })
    | None -> None)
| LRearm c ->
  with_conn s c (fun k ->
    match move_job k.k_jobs JRunning None with
    | Some js ->
      Some { k_rec = k.k_rec; k_stream = k.k_stream; k_registered =
        k.k_registered; k_in_flight = false; k_closed = k.k_closed;
        k_pending = k.k_pending; k_peer_closed = k.k_peer_closed; k_jobs =
        js; k_in_batch = k.k_in_batch; k_grave = k.k_grave; k_answered =
        k.k_answered; k_taken = k.k_taken }
    | None -> None)
| LDel c ->
  with_conn s c (fun k ->
    match move_job k.k_jobs JRunning (Some JDeleted) with
    | Some js ->
      Some { k_rec = k.k_rec; k_stream = k.k_stream; k_registered = false;
        k_in_flight = k.k_in_flight; k_closed = k.k_closed; k_pending =
        k.k_pending; k_peer_closed = k.k_peer_closed; k_jobs = js;
        k_in_batch = k.k_in_batch; k_grave = k.k_grave; k_answered =
        k.k_answered; k_taken = k.k_taken }
    | None -> None)
| LStreamDrop c ->
  with_conn s c (fun k ->
    match move_job k.k_jobs JDeleted (Some JDropped) with
    | Some js ->
      Some { k_rec = k.k_rec; k_stream = false; k_registered =
        k.k_registered; k_in_flight = k.k_in_flight; k_closed = k.k_closed;
        k_pending = k.k_pending; k_peer_closed = k.k_peer_closed; k_jobs =
        js; k_in_batch = k.k_in_batch; k_grave = k.k_grave; k_answered =
        k.k_answered; k_taken = k.k_taken }
    | None -> None)
| LClosedStore c ->
  with_conn s c (fun k ->
    match move_job k.k_jobs JDropped (Some JStored) with
    | Some js ->
      Some { k_rec = k.k_rec; k_stream = k.k_stream; k_registered =
        k.k_registered; k_in_flight = k.k_in_flight; k_closed = true;
        k_pending = k.k_pending; k_peer_closed = k.k_peer_closed; k_jobs =
        js; k_in_batch = k.k_in_batch; k_grave = k.k_grave; k_answered =
        k.k_answered; k_taken = k.k_taken }
    | None -> None)
| LGrave c ->
  with_conn s c (fun k ->
    match move_job k.k_jobs JStored None with
    | Some js ->
      Some { k_rec = k.k_rec; k_stream = k.k_stream; k_registered =
        k.k_registered; k_in_flight = k.k_in_flight; k_closed = k.k_closed;
        k_pending = k.k_pending; k_peer_closed = k.k_peer_closed; k_jobs =
        js; k_in_batch = k.k_in_batch; k_grave = true; k_answered =
        k.k_answered; k_taken = k.k_taken }
    | None -> None)

(** val conn_of : estate -> nat -> conn option **)

let conn_of s c =
  nth_error s.e_conns c

(** val rec_live : estate -> nat -> bool **)

let rec_live s c =
  match conn_of s c with
  | Some k -> (match k.k_rec with
               | ALive -> true
               | AFreed -> false)
  | None -> false

(** val stream_open : estate -> nat -> bool **)

let stream_open s c =
  match conn_of s c with
  | Some k -> k.k_stream
  | None -> false

(** val safe : estate -> elabel -> bool **)

let safe s = function
| LEvent (c, _) -> rec_live s c
| LFree c -> rec_live s c
| LJobStart0 c -> (&&) (rec_live s c) (stream_open s c)
| LRearm c -> rec_live s c
| LDel c -> rec_live s c
| LStreamDrop c -> (&&) (rec_live s c) (stream_open s c)
| LClosedStore c -> rec_live s c
| LGrave c -> rec_live s c
| _ -> true

type verdict =
| VAccepted of estate
| VRejected of nat
| VUnsafe of nat

(** val replay : estate -> elabel list -> nat -> verdict **)

let rec replay s tr i =
  match tr with
  | [] -> VAccepted s
  | l :: r ->
    (match step0 s l with
     | Some s' -> if safe s l then replay s' r (S i) else VUnsafe i
     | None -> VRejected i)

(** val all_ended : estate -> bool **)

let all_ended s =
  match s.e_loop with
  | EWaiting0 ->
    forallb (fun k ->
      match k.k_jobs with
      | [] -> negb k.k_registered
      | _ :: _ -> false) s.e_conns
  | EBatch -> false

(** val live_records : estate -> nat **)

let live_records s =
  length
    (filter (fun k -> match k.k_rec with
                      | ALive -> true
                      | AFreed -> false) s.e_conns)

(** val open_streams : estate -> nat **)

let open_streams s =
  length (filter (fun c -> c.k_stream) s.e_conns)

(** val bUFWRITER : nat **)

let bUFWRITER =
  N.to_nat (Npos (XO (XO (XO (XO (XO (XO (XO (XO (XO (XO (XO (XO (XO
    XH))))))))))))))

(** val k_BODY : nat **)

let k_BODY =
  add (add pROBE_MAX bUFWRITER) cHUNK_BUF
