
type nat =
| O
| S of nat

(** val snd : ('a1 * 'a2) -> 'a2 **)

let snd = function
| (_, y) -> y

(** val app : 'a1 list -> 'a1 list -> 'a1 list **)

let rec app l m =
  match l with
  | [] -> m
  | a :: l1 -> a :: (app l1 m)

type comparison =
| Eq
| Lt
| Gt

(** val compOpp : comparison -> comparison **)

let compOpp = function
| Eq -> Eq
| Lt -> Gt
| Gt -> Lt

module Coq__1 = struct
 (** val add : nat -> nat -> nat **)
 let rec add n0 m =
   match n0 with
   | O -> m
   | S p -> S (add p m)
end
include Coq__1

type byte =
| X00
| X01
| X02
| X03
| X04
| X05
| X06
| X07
| X08
| X09
| X0a
| X0b
| X0c
| X0d
| X0e
| X0f
| X10
| X11
| X12
| X13
| X14
| X15
| X16
| X17
| X18
| X19
| X1a
| X1b
| X1c
| X1d
| X1e
| X1f
| X20
| X21
| X22
| X23
| X24
| X25
| X26
| X27
| X28
| X29
| X2a
| X2b
| X2c
| X2d
| X2e
| X2f
| X30
| X31
| X32
| X33
| X34
| X35
| X36
| X37
| X38
| X39
| X3a
| X3b
| X3c
| X3d
| X3e
| X3f
| X40
| X41
| X42
| X43
| X44
| X45
| X46
| X47
| X48
| X49
| X4a
| X4b
| X4c
| X4d
| X4e
| X4f
| X50
| X51
| X52
| X53
| X54
| X55
| X56
| X57
| X58
| X59
| X5a
| X5b
| X5c
| X5d
| X5e
| X5f
| X60
| X61
| X62
| X63
| X64
| X65
| X66
| X67
| X68
| X69
| X6a
| X6b
| X6c
| X6d
| X6e
| X6f
| X70
| X71
| X72
| X73
| X74
| X75
| X76
| X77
| X78
| X79
| X7a
| X7b
| X7c
| X7d
| X7e
| X7f
| X80
| X81
| X82
| X83
| X84
| X85
| X86
| X87
| X88
| X89
| X8a
| X8b
| X8c
| X8d
| X8e
| X8f
| X90
| X91
| X92
| X93
| X94
| X95
| X96
| X97
| X98
| X99
| X9a
| X9b
| X9c
| X9d
| X9e
| X9f
| Xa0
| Xa1
| Xa2
| Xa3
| Xa4
| Xa5
| Xa6
| Xa7
| Xa8
| Xa9
| Xaa
| Xab
| Xac
| Xad
| Xae
| Xaf
| Xb0
| Xb1
| Xb2
| Xb3
| Xb4
| Xb5
| Xb6
| Xb7
| Xb8
| Xb9
| Xba
| Xbb
| Xbc
| Xbd
| Xbe
| Xbf
| Xc0
| Xc1
| Xc2
| Xc3
| Xc4
| Xc5
| Xc6
| Xc7
| Xc8
| Xc9
| Xca
| Xcb
| Xcc
| Xcd
| Xce
| Xcf
| Xd0
| Xd1
| Xd2
| Xd3
| Xd4
| Xd5
| Xd6
| Xd7
| Xd8
| Xd9
| Xda
| Xdb
| Xdc
| Xdd
| Xde
| Xdf
| Xe0
| Xe1
| Xe2
| Xe3
| Xe4
| Xe5
| Xe6
| Xe7
| Xe8
| Xe9
| Xea
| Xeb
| Xec
| Xed
| Xee
| Xef
| Xf0
| Xf1
| Xf2
| Xf3
| Xf4
| Xf5
| Xf6
| Xf7
| Xf8
| Xf9
| Xfa
| Xfb
| Xfc
| Xfd
| Xfe
| Xff

(** val of_bits :
    (bool * (bool * (bool * (bool * (bool * (bool * (bool * bool))))))) ->
    byte **)

let of_bits = function
| (b0, p) ->
  if b0
  then let (b1, p0) = p in
       if b1
       then let (b2, p1) = p0 in
            if b2
            then let (b3, p2) = p1 in
                 if b3
                 then let (b4, p3) = p2 in
                      if b4
                      then let (b5, p4) = p3 in
                           if b5
                           then let (b6, b7) = p4 in
                                if b6
                                then if b7 then Xff else X7f
                                else if b7 then Xbf else X3f
                           else let (b6, b7) = p4 in
                                if b6
                                then if b7 then Xdf else X5f
                                else if b7 then X9f else X1f
                      else let (b5, p4) = p3 in
                           if b5
                           then let (b6, b7) = p4 in
                                if b6
                                then if b7 then Xef else X6f
                                else if b7 then Xaf else X2f
                           else let (b6, b7) = p4 in
                                if b6
                                then if b7 then Xcf else X4f
                                else if b7 then X8f else X0f
                 else let (b4, p3) = p2 in
                      if b4
                      then let (b5, p4) = p3 in
                           if b5
                           then let (b6, b7) = p4 in
                                if b6
                                then if b7 then Xf7 else X77
                                else if b7 then Xb7 else X37
                           else let (b6, b7) = p4 in
                                if b6
                                then if b7 then Xd7 else X57
                                else if b7 then X97 else X17
                      else let (b5, p4) = p3 in
                           if b5
                           then let (b6, b7) = p4 in
                                if b6
                                then if b7 then Xe7 else X67
                                else if b7 then Xa7 else X27
                           else let (b6, b7) = p4 in
                                if b6
                                then if b7 then Xc7 else X47
                                else if b7 then X87 else X07
            else let (b3, p2) = p1 in
                 if b3
                 then let (b4, p3) = p2 in
                      if b4
                      then let (b5, p4) = p3 in
                           if b5
                           then let (b6, b7) = p4 in
                                if b6
                                then if b7 then Xfb else X7b
                                else if b7 then Xbb else X3b
                           else let (b6, b7) = p4 in
                                if b6
                                then if b7 then Xdb else X5b
                                else if b7 then X9b else X1b
                      else let (b5, p4) = p3 in
                           if b5
                           then let (b6, b7) = p4 in
                                if b6
                                then if b7 then Xeb else X6b
                                else if b7 then Xab else X2b
                           else let (b6, b7) = p4 in
                                if b6
                                then if b7 then Xcb else X4b
                                else if b7 then X8b else X0b
                 else let (b4, p3) = p2 in
                      if b4
                      then let (b5, p4) = p3 in
                           if b5
                           then let (b6, b7) = p4 in
                                if b6
                                then if b7 then Xf3 else X73
                                else if b7 then Xb3 else X33
                           else let (b6, b7) = p4 in
                                if b6
                                then if b7 then Xd3 else X53
                                else if b7 then X93 else X13
                      else let (b5, p4) = p3 in
                           if b5
                           then let (b6, b7) = p4 in
                                if b6
                                then if b7 then Xe3 else X63
                                else if b7 then Xa3 else X23
                           else let (b6, b7) = p4 in
                                if b6
                                then if b7 then Xc3 else X43
                                else if b7 then X83 else X03
       else let (b2, p1) = p0 in
            if b2
            then let (b3, p2) = p1 in
                 if b3
                 then let (b4, p3) = p2 in
                      if b4
                      then let (b5, p4) = p3 in
                           if b5
                           then let (b6, b7) = p4 in
                                if b6
                                then if b7 then Xfd else X7d
                                else if b7 then Xbd else X3d
                           else let (b6, b7) = p4 in
                                if b6
                                then if b7 then Xdd else X5d
                                else if b7 then X9d else X1d
                      else let (b5, p4) = p3 in
                           if b5
                           then let (b6, b7) = p4 in
                                if b6
                                then if b7 then Xed else X6d
                                else if b7 then Xad else X2d
                           else let (b6, b7) = p4 in
                                if b6
                                then if b7 then Xcd else X4d
                                else if b7 then X8d else X0d
                 else let (b4, p3) = p2 in
                      if b4
                      then let (b5, p4) = p3 in
                           if b5
                           then let (b6, b7) = p4 in
                                if b6
                                then if b7 then Xf5 else X75
                                else if b7 then Xb5 else X35
                           else let (b6, b7) = p4 in
                                if b6
                                then if b7 then Xd5 else X55
                                else if b7 then X95 else X15
                      else let (b5, p4) = p3 in
                           if b5
                           then let (b6, b7) = p4 in
                                if b6
                                then if b7 then Xe5 else X65
                                else if b7 then Xa5 else X25
                           else let (b6, b7) = p4 in
                                if b6
                                then if b7 then Xc5 else X45
                                else if b7 then X85 else X05
            else let (b3, p2) = p1 in
                 if b3
                 then let (b4, p3) = p2 in
                      if b4
                      then let (b5, p4) = p3 in
                           if b5
                           then let (b6, b7) = p4 in
                                if b6
                                then if b7 then Xf9 else X79
                                else if b7 then Xb9 else X39
                           else let (b6, b7) = p4 in
                                if b6
                                then if b7 then Xd9 else X59
                                else if b7 then X99 else X19
                      else let (b5, p4) = p3 in
                           if b5
                           then let (b6, b7) = p4 in
                                if b6
                                then if b7 then Xe9 else X69
                                else if b7 then Xa9 else X29
                           else let (b6, b7) = p4 in
                                if b6
                                then if b7 then Xc9 else X49
                                else if b7 then X89 else X09
                 else let (b4, p3) = p2 in
                      if b4
                      then let (b5, p4) = p3 in
                           if b5
                           then let (b6, b7) = p4 in
                                if b6
                                then if b7 then Xf1 else X71
                                else if b7 then Xb1 else X31
                           else let (b6, b7) = p4 in
                                if b6
                                then if b7 then Xd1 else X51
                                else if b7 then X91 else X11
                      else let (b5, p4) = p3 in
                           if b5
                           then let (b6, b7) = p4 in
                                if b6
                                then if b7 then Xe1 else X61
                                else if b7 then Xa1 else X21
                           else let (b6, b7) = p4 in
                                if b6
                                then if b7 then Xc1 else X41
                                else if b7 then X81 else X01
  else let (b1, p0) = p in
       if b1
       then let (b2, p1) = p0 in
            if b2
            then let (b3, p2) = p1 in
                 if b3
                 then let (b4, p3) = p2 in
                      if b4
                      then let (b5, p4) = p3 in
                           if b5
                           then let (b6, b7) = p4 in
                                if b6
                                then if b7 then Xfe else X7e
                                else if b7 then Xbe else X3e
                           else let (b6, b7) = p4 in
                                if b6
                                then if b7 then Xde else X5e
                                else if b7 then X9e else X1e
                      else let (b5, p4) = p3 in
                           if b5
                           then let (b6, b7) = p4 in
                                if b6
                                then if b7 then Xee else X6e
                                else if b7 then Xae else X2e
                           else let (b6, b7) = p4 in
                                if b6
                                then if b7 then Xce else X4e
                                else if b7 then X8e else X0e
                 else let (b4, p3) = p2 in
                      if b4
                      then let (b5, p4) = p3 in
                           if b5
                           then let (b6, b7) = p4 in
                                if b6
                                then if b7 then Xf6 else X76
                                else if b7 then Xb6 else X36
                           else let (b6, b7) = p4 in
                                if b6
                                then if b7 then Xd6 else X56
                                else if b7 then X96 else X16
                      else let (b5, p4) = p3 in
                           if b5
                           then let (b6, b7) = p4 in
                                if b6
                                then if b7 then Xe6 else X66
                                else if b7 then Xa6 else X26
                           else let (b6, b7) = p4 in
                                if b6
                                then if b7 then Xc6 else X46
                                else if b7 then X86 else X06
            else let (b3, p2) = p1 in
                 if b3
                 then let (b4, p3) = p2 in
                      if b4
                      then let (b5, p4) = p3 in
                           if b5
                           then let (b6, b7) = p4 in
                                if b6
                                then if b7 then Xfa else X7a
                                else if b7 then Xba else X3a
                           else let (b6, b7) = p4 in
                                if b6
                                then if b7 then Xda else X5a
                                else if b7 then X9a else X1a
                      else let (b5, p4) = p3 in
                           if b5
                           then let (b6, b7) = p4 in
                                if b6
                                then if b7 then Xea else X6a
                                else if b7 then Xaa else X2a
                           else let (b6, b7) = p4 in
                                if b6
                                then if b7 then Xca else X4a
                                else if b7 then X8a else X0a
                 else let (b4, p3) = p2 in
                      if b4
                      then let (b5, p4) = p3 in
                           if b5
                           then let (b6, b7) = p4 in
                                if b6
                                then if b7 then Xf2 else X72
                                else if b7 then Xb2 else X32
                           else let (b6, b7) = p4 in
                                if b6
                                then if b7 then Xd2 else X52
                                else if b7 then X92 else X12
                      else let (b5, p4) = p3 in
                           if b5
                           then let (b6, b7) = p4 in
                                if b6
                                then if b7 then Xe2 else X62
                                else if b7 then Xa2 else X22
                           else let (b6, b7) = p4 in
                                if b6
                                then if b7 then Xc2 else X42
                                else if b7 then X82 else X02
       else let (b2, p1) = p0 in
            if b2
            then let (b3, p2) = p1 in
                 if b3
                 then let (b4, p3) = p2 in
                      if b4
                      then let (b5, p4) = p3 in
                           if b5
                           then let (b6, b7) = p4 in
                                if b6
                                then if b7 then Xfc else X7c
                                else if b7 then Xbc else X3c
                           else let (b6, b7) = p4 in
                                if b6
                                then if b7 then Xdc else X5c
                                else if b7 then X9c else X1c
                      else let (b5, p4) = p3 in
                           if b5
                           then let (b6, b7) = p4 in
                                if b6
                                then if b7 then Xec else X6c
                                else if b7 then Xac else X2c
                           else let (b6, b7) = p4 in
                                if b6
                                then if b7 then Xcc else X4c
                                else if b7 then X8c else X0c
                 else let (b4, p3) = p2 in
                      if b4
                      then let (b5, p4) = p3 in
                           if b5
                           then let (b6, b7) = p4 in
                                if b6
                                then if b7 then Xf4 else X74
                                else if b7 then Xb4 else X34
                           else let (b6, b7) = p4 in
                                if b6
                                then if b7 then Xd4 else X54
                                else if b7 then X94 else X14
                      else let (b5, p4) = p3 in
                           if b5
                           then let (b6, b7) = p4 in
                                if b6
                                then if b7 then Xe4 else X64
                                else if b7 then Xa4 else X24
                           else let (b6, b7) = p4 in
                                if b6
                                then if b7 then Xc4 else X44
                                else if b7 then X84 else X04
            else let (b3, p2) = p1 in
                 if b3
                 then let (b4, p3) = p2 in
                      if b4
                      then let (b5, p4) = p3 in
                           if b5
                           then let (b6, b7) = p4 in
                                if b6
                                then if b7 then Xf8 else X78
                                else if b7 then Xb8 else X38
                           else let (b6, b7) = p4 in
                                if b6
                                then if b7 then Xd8 else X58
                                else if b7 then X98 else X18
                      else let (b5, p4) = p3 in
                           if b5
                           then let (b6, b7) = p4 in
                                if b6
                                then if b7 then Xe8 else X68
                                else if b7 then Xa8 else X28
                           else let (b6, b7) = p4 in
                                if b6
                                then if b7 then Xc8 else X48
                                else if b7 then X88 else X08
                 else let (b4, p3) = p2 in
                      if b4
                      then let (b5, p4) = p3 in
                           if b5
                           then let (b6, b7) = p4 in
                                if b6
                                then if b7 then Xf0 else X70
                                else if b7 then Xb0 else X30
                           else let (b6, b7) = p4 in
                                if b6
                                then if b7 then Xd0 else X50
                                else if b7 then X90 else X10
                      else let (b5, p4) = p3 in
                           if b5
                           then let (b6, b7) = p4 in
                                if b6
                                then if b7 then Xe0 else X60
                                else if b7 then Xa0 else X20
                           else let (b6, b7) = p4 in
                                if b6
                                then if b7 then Xc0 else X40
                                else if b7 then X80 else X00

type positive =
| XI of positive
| XO of positive
| XH

type n =
| N0
| Npos of positive

type z =
| Z0
| Zpos of positive
| Zneg of positive

module Pos =
 struct
  type mask =
  | IsNul
  | IsPos of positive
  | IsNeg
 end

module Coq_Pos =
 struct
  (** val succ : positive -> positive **)

  let rec succ = function
  | XI p -> XO (succ p)
  | XO p -> XI p
  | XH -> XO XH

  (** val add : positive -> positive -> positive **)

  let rec add x y =
    match x with
    | XI p ->
      (match y with
       | XI q -> XO (add_carry p q)
       | XO q -> XI (add p q)
       | XH -> XO (succ p))
    | XO p ->
      (match y with
       | XI q -> XI (add p q)
       | XO q -> XO (add p q)
       | XH -> XI p)
    | XH -> (match y with
             | XI q -> XO (succ q)
             | XO q -> XI q
             | XH -> XO XH)

  (** val add_carry : positive -> positive -> positive **)

  and add_carry x y =
    match x with
    | XI p ->
      (match y with
       | XI q -> XI (add_carry p q)
       | XO q -> XO (add_carry p q)
       | XH -> XI (succ p))
    | XO p ->
      (match y with
       | XI q -> XO (add_carry p q)
       | XO q -> XI (add p q)
       | XH -> XO (succ p))
    | XH ->
      (match y with
       | XI q -> XI (succ q)
       | XO q -> XO (succ q)
       | XH -> XI XH)

  (** val pred_double : positive -> positive **)

  let rec pred_double = function
  | XI p -> XI (XO p)
  | XO p -> XI (pred_double p)
  | XH -> XH

  type mask = Pos.mask =
  | IsNul
  | IsPos of positive
  | IsNeg

  (** val succ_double_mask : mask -> mask **)

  let succ_double_mask = function
  | IsNul -> IsPos XH
  | IsPos p -> IsPos (XI p)
  | IsNeg -> IsNeg

  (** val double_mask : mask -> mask **)

  let double_mask = function
  | IsPos p -> IsPos (XO p)
  | x0 -> x0

  (** val double_pred_mask : positive -> mask **)

  let double_pred_mask = function
  | XI p -> IsPos (XO (XO p))
  | XO p -> IsPos (XO (pred_double p))
  | XH -> IsNul

  (** val sub_mask : positive -> positive -> mask **)

  let rec sub_mask x y =
    match x with
    | XI p ->
      (match y with
       | XI q -> double_mask (sub_mask p q)
       | XO q -> succ_double_mask (sub_mask p q)
       | XH -> IsPos (XO p))
    | XO p ->
      (match y with
       | XI q -> succ_double_mask (sub_mask_carry p q)
       | XO q -> double_mask (sub_mask p q)
       | XH -> IsPos (pred_double p))
    | XH -> (match y with
             | XH -> IsNul
             | _ -> IsNeg)

  (** val sub_mask_carry : positive -> positive -> mask **)

  and sub_mask_carry x y =
    match x with
    | XI p ->
      (match y with
       | XI q -> succ_double_mask (sub_mask_carry p q)
       | XO q -> double_mask (sub_mask p q)
       | XH -> IsPos (pred_double p))
    | XO p ->
      (match y with
       | XI q -> double_mask (sub_mask_carry p q)
       | XO q -> succ_double_mask (sub_mask_carry p q)
       | XH -> double_pred_mask p)
    | XH -> IsNeg

  (** val mul : positive -> positive -> positive **)

  let rec mul x y =
    match x with
    | XI p -> add y (XO (mul p y))
    | XO p -> XO (mul p y)
    | XH -> y

  (** val iter : ('a1 -> 'a1) -> 'a1 -> positive -> 'a1 **)

  let rec iter f x = function
  | XI n' -> f (iter f (iter f x n') n')
  | XO n' -> iter f (iter f x n') n'
  | XH -> f x

  (** val compare_cont : comparison -> positive -> positive -> comparison **)

  let rec compare_cont r x y =
    match x with
    | XI p ->
      (match y with
       | XI q -> compare_cont r p q
       | XO q -> compare_cont Gt p q
       | XH -> Gt)
    | XO p ->
      (match y with
       | XI q -> compare_cont Lt p q
       | XO q -> compare_cont r p q
       | XH -> Gt)
    | XH -> (match y with
             | XH -> r
             | _ -> Lt)

  (** val compare : positive -> positive -> comparison **)

  let compare =
    compare_cont Eq

  (** val eqb : positive -> positive -> bool **)

  let rec eqb p q =
    match p with
    | XI p0 -> (match q with
                | XI q0 -> eqb p0 q0
                | _ -> false)
    | XO p0 -> (match q with
                | XO q0 -> eqb p0 q0
                | _ -> false)
    | XH -> (match q with
             | XH -> true
             | _ -> false)

  (** val iter_op : ('a1 -> 'a1 -> 'a1) -> positive -> 'a1 -> 'a1 **)

  let rec iter_op op p a =
    match p with
    | XI p0 -> op a (iter_op op p0 (op a a))
    | XO p0 -> iter_op op p0 (op a a)
    | XH -> a

  (** val to_nat : positive -> nat **)

  let to_nat x =
    iter_op Coq__1.add x (S O)
 end

module N =
 struct
  (** val succ_double : n -> n **)

  let succ_double = function
  | N0 -> Npos XH
  | Npos p -> Npos (XI p)

  (** val double : n -> n **)

  let double = function
  | N0 -> N0
  | Npos p -> Npos (XO p)

  (** val add : n -> n -> n **)

  let add n0 m =
    match n0 with
    | N0 -> m
    | Npos p -> (match m with
                 | N0 -> n0
                 | Npos q -> Npos (Coq_Pos.add p q))

  (** val sub : n -> n -> n **)

  let sub n0 m =
    match n0 with
    | N0 -> N0
    | Npos n' ->
      (match m with
       | N0 -> n0
       | Npos m' ->
         (match Coq_Pos.sub_mask n' m' with
          | Coq_Pos.IsPos p -> Npos p
          | _ -> N0))

  (** val mul : n -> n -> n **)

  let mul n0 m =
    match n0 with
    | N0 -> N0
    | Npos p -> (match m with
                 | N0 -> N0
                 | Npos q -> Npos (Coq_Pos.mul p q))

  (** val compare : n -> n -> comparison **)

  let compare n0 m =
    match n0 with
    | N0 -> (match m with
             | N0 -> Eq
             | Npos _ -> Lt)
    | Npos n' -> (match m with
                  | N0 -> Gt
                  | Npos m' -> Coq_Pos.compare n' m')

  (** val eqb : n -> n -> bool **)

  let eqb n0 m =
    match n0 with
    | N0 -> (match m with
             | N0 -> true
             | Npos _ -> false)
    | Npos p -> (match m with
                 | N0 -> false
                 | Npos q -> Coq_Pos.eqb p q)

  (** val leb : n -> n -> bool **)

  let leb x y =
    match compare x y with
    | Gt -> false
    | _ -> true

  (** val pos_div_eucl : positive -> n -> n * n **)

  let rec pos_div_eucl a b =
    match a with
    | XI a' ->
      let (q, r) = pos_div_eucl a' b in
      let r' = succ_double r in
      if leb b r' then ((succ_double q), (sub r' b)) else ((double q), r')
    | XO a' ->
      let (q, r) = pos_div_eucl a' b in
      let r' = double r in
      if leb b r' then ((succ_double q), (sub r' b)) else ((double q), r')
    | XH ->
      (match b with
       | N0 -> (N0, (Npos XH))
       | Npos p -> (match p with
                    | XH -> ((Npos XH), N0)
                    | _ -> (N0, (Npos XH))))

  (** val div_eucl : n -> n -> n * n **)

  let div_eucl a b =
    match a with
    | N0 -> (N0, N0)
    | Npos na -> (match b with
                  | N0 -> (N0, a)
                  | Npos _ -> pos_div_eucl na b)

  (** val modulo : n -> n -> n **)

  let modulo a b =
    snd (div_eucl a b)
 end

module Z =
 struct
  (** val double : z -> z **)

  let double = function
  | Z0 -> Z0
  | Zpos p -> Zpos (XO p)
  | Zneg p -> Zneg (XO p)

  (** val succ_double : z -> z **)

  let succ_double = function
  | Z0 -> Zpos XH
  | Zpos p -> Zpos (XI p)
  | Zneg p -> Zneg (Coq_Pos.pred_double p)

  (** val pred_double : z -> z **)

  let pred_double = function
  | Z0 -> Zneg XH
  | Zpos p -> Zpos (Coq_Pos.pred_double p)
  | Zneg p -> Zneg (XI p)

  (** val pos_sub : positive -> positive -> z **)

  let rec pos_sub x y =
    match x with
    | XI p ->
      (match y with
       | XI q -> double (pos_sub p q)
       | XO q -> succ_double (pos_sub p q)
       | XH -> Zpos (XO p))
    | XO p ->
      (match y with
       | XI q -> pred_double (pos_sub p q)
       | XO q -> double (pos_sub p q)
       | XH -> Zpos (Coq_Pos.pred_double p))
    | XH ->
      (match y with
       | XI q -> Zneg (XO q)
       | XO q -> Zneg (Coq_Pos.pred_double q)
       | XH -> Z0)

  (** val add : z -> z -> z **)

  let add x y =
    match x with
    | Z0 -> y
    | Zpos x' ->
      (match y with
       | Z0 -> x
       | Zpos y' -> Zpos (Coq_Pos.add x' y')
       | Zneg y' -> pos_sub x' y')
    | Zneg x' ->
      (match y with
       | Z0 -> x
       | Zpos y' -> pos_sub y' x'
       | Zneg y' -> Zneg (Coq_Pos.add x' y'))

  (** val opp : z -> z **)

  let opp = function
  | Z0 -> Z0
  | Zpos x0 -> Zneg x0
  | Zneg x0 -> Zpos x0

  (** val sub : z -> z -> z **)

  let sub m n0 =
    add m (opp n0)

  (** val mul : z -> z -> z **)

  let mul x y =
    match x with
    | Z0 -> Z0
    | Zpos x' ->
      (match y with
       | Z0 -> Z0
       | Zpos y' -> Zpos (Coq_Pos.mul x' y')
       | Zneg y' -> Zneg (Coq_Pos.mul x' y'))
    | Zneg x' ->
      (match y with
       | Z0 -> Z0
       | Zpos y' -> Zneg (Coq_Pos.mul x' y')
       | Zneg y' -> Zpos (Coq_Pos.mul x' y'))

  (** val pow_pos : z -> positive -> z **)

  let pow_pos z0 =
    Coq_Pos.iter (mul z0) (Zpos XH)

  (** val pow : z -> z -> z **)

  let pow x = function
  | Z0 -> Zpos XH
  | Zpos p -> pow_pos x p
  | Zneg _ -> Z0

  (** val compare : z -> z -> comparison **)

  let compare x y =
    match x with
    | Z0 -> (match y with
             | Z0 -> Eq
             | Zpos _ -> Lt
             | Zneg _ -> Gt)
    | Zpos x' -> (match y with
                  | Zpos y' -> Coq_Pos.compare x' y'
                  | _ -> Gt)
    | Zneg x' ->
      (match y with
       | Zneg y' -> compOpp (Coq_Pos.compare x' y')
       | _ -> Lt)

  (** val leb : z -> z -> bool **)

  let leb x y =
    match compare x y with
    | Gt -> false
    | _ -> true

  (** val ltb : z -> z -> bool **)

  let ltb x y =
    match compare x y with
    | Lt -> true
    | _ -> false

  (** val gtb : z -> z -> bool **)

  let gtb x y =
    match compare x y with
    | Gt -> true
    | _ -> false

  (** val eqb : z -> z -> bool **)

  let eqb x y =
    match x with
    | Z0 -> (match y with
             | Z0 -> true
             | _ -> false)
    | Zpos p -> (match y with
                 | Zpos q -> Coq_Pos.eqb p q
                 | _ -> false)
    | Zneg p -> (match y with
                 | Zneg q -> Coq_Pos.eqb p q
                 | _ -> false)

  (** val to_nat : z -> nat **)

  let to_nat = function
  | Zpos p -> Coq_Pos.to_nat p
  | _ -> O

  (** val to_N : z -> n **)

  let to_N = function
  | Zpos p -> Npos p
  | _ -> N0

  (** val of_N : n -> z **)

  let of_N = function
  | N0 -> Z0
  | Npos p -> Zpos p

  (** val pos_div_eucl : positive -> z -> z * z **)

  let rec pos_div_eucl a b =
    match a with
    | XI a' ->
      let (q, r) = pos_div_eucl a' b in
      let r' = add (mul (Zpos (XO XH)) r) (Zpos XH) in
      if ltb r' b
      then ((mul (Zpos (XO XH)) q), r')
      else ((add (mul (Zpos (XO XH)) q) (Zpos XH)), (sub r' b))
    | XO a' ->
      let (q, r) = pos_div_eucl a' b in
      let r' = mul (Zpos (XO XH)) r in
      if ltb r' b
      then ((mul (Zpos (XO XH)) q), r')
      else ((add (mul (Zpos (XO XH)) q) (Zpos XH)), (sub r' b))
    | XH -> if leb (Zpos (XO XH)) b then (Z0, (Zpos XH)) else ((Zpos XH), Z0)

  (** val div_eucl : z -> z -> z * z **)

  let div_eucl a b =
    match a with
    | Z0 -> (Z0, Z0)
    | Zpos a' ->
      (match b with
       | Z0 -> (Z0, a)
       | Zpos _ -> pos_div_eucl a' b
       | Zneg b' ->
         let (q, r) = pos_div_eucl a' (Zpos b') in
         (match r with
          | Z0 -> ((opp q), Z0)
          | _ -> ((opp (add q (Zpos XH))), (add b r))))
    | Zneg a' ->
      (match b with
       | Z0 -> (Z0, a)
       | Zpos _ ->
         let (q, r) = pos_div_eucl a' b in
         (match r with
          | Z0 -> ((opp q), Z0)
          | _ -> ((opp (add q (Zpos XH))), (sub b r)))
       | Zneg b' -> let (q, r) = pos_div_eucl a' (Zpos b') in (q, (opp r)))

  (** val div : z -> z -> z **)

  let div a b =
    let (q, _) = div_eucl a b in q

  (** val modulo : z -> z -> z **)

  let modulo a b =
    let (_, r) = div_eucl a b in r
 end

(** val map : ('a1 -> 'a2) -> 'a1 list -> 'a2 list **)

let rec map f = function
| [] -> []
| a :: t -> (f a) :: (map f t)

(** val firstn : nat -> 'a1 list -> 'a1 list **)

let rec firstn n0 l =
  match n0 with
  | O -> []
  | S n1 -> (match l with
             | [] -> []
             | a :: l0 -> a :: (firstn n1 l0))

(** val skipn : nat -> 'a1 list -> 'a1 list **)

let rec skipn n0 l =
  match n0 with
  | O -> l
  | S n1 -> (match l with
             | [] -> []
             | _ :: l0 -> skipn n1 l0)

(** val to_N0 : byte -> n **)

let to_N0 = function
| X00 -> N0
| X01 -> Npos XH
| X02 -> Npos (XO XH)
| X03 -> Npos (XI XH)
| X04 -> Npos (XO (XO XH))
| X05 -> Npos (XI (XO XH))
| X06 -> Npos (XO (XI XH))
| X07 -> Npos (XI (XI XH))
| X08 -> Npos (XO (XO (XO XH)))
| X09 -> Npos (XI (XO (XO XH)))
| X0a -> Npos (XO (XI (XO XH)))
| X0b -> Npos (XI (XI (XO XH)))
| X0c -> Npos (XO (XO (XI XH)))
| X0d -> Npos (XI (XO (XI XH)))
| X0e -> Npos (XO (XI (XI XH)))
| X0f -> Npos (XI (XI (XI XH)))
| X10 -> Npos (XO (XO (XO (XO XH))))
| X11 -> Npos (XI (XO (XO (XO XH))))
| X12 -> Npos (XO (XI (XO (XO XH))))
| X13 -> Npos (XI (XI (XO (XO XH))))
| X14 -> Npos (XO (XO (XI (XO XH))))
| X15 -> Npos (XI (XO (XI (XO XH))))
| X16 -> Npos (XO (XI (XI (XO XH))))
| X17 -> Npos (XI (XI (XI (XO XH))))
| X18 -> Npos (XO (XO (XO (XI XH))))
| X19 -> Npos (XI (XO (XO (XI XH))))
| X1a -> Npos (XO (XI (XO (XI XH))))
| X1b -> Npos (XI (XI (XO (XI XH))))
| X1c -> Npos (XO (XO (XI (XI XH))))
| X1d -> Npos (XI (XO (XI (XI XH))))
| X1e -> Npos (XO (XI (XI (XI XH))))
| X1f -> Npos (XI (XI (XI (XI XH))))
| X20 -> Npos (XO (XO (XO (XO (XO XH)))))
| X21 -> Npos (XI (XO (XO (XO (XO XH)))))
| X22 -> Npos (XO (XI (XO (XO (XO XH)))))
| X23 -> Npos (XI (XI (XO (XO (XO XH)))))
| X24 -> Npos (XO (XO (XI (XO (XO XH)))))
| X25 -> Npos (XI (XO (XI (XO (XO XH)))))
| X26 -> Npos (XO (XI (XI (XO (XO XH)))))
| X27 -> Npos (XI (XI (XI (XO (XO XH)))))
| X28 -> Npos (XO (XO (XO (XI (XO XH)))))
| X29 -> Npos (XI (XO (XO (XI (XO XH)))))
| X2a -> Npos (XO (XI (XO (XI (XO XH)))))
| X2b -> Npos (XI (XI (XO (XI (XO XH)))))
| X2c -> Npos (XO (XO (XI (XI (XO XH)))))
| X2d -> Npos (XI (XO (XI (XI (XO XH)))))
| X2e -> Npos (XO (XI (XI (XI (XO XH)))))
| X2f -> Npos (XI (XI (XI (XI (XO XH)))))
| X30 -> Npos (XO (XO (XO (XO (XI XH)))))
| X31 -> Npos (XI (XO (XO (XO (XI XH)))))
| X32 -> Npos (XO (XI (XO (XO (XI XH)))))
| X33 -> Npos (XI (XI (XO (XO (XI XH)))))
| X34 -> Npos (XO (XO (XI (XO (XI XH)))))
| X35 -> Npos (XI (XO (XI (XO (XI XH)))))
| X36 -> Npos (XO (XI (XI (XO (XI XH)))))
| X37 -> Npos (XI (XI (XI (XO (XI XH)))))
| X38 -> Npos (XO (XO (XO (XI (XI XH)))))
| X39 -> Npos (XI (XO (XO (XI (XI XH)))))
| X3a -> Npos (XO (XI (XO (XI (XI XH)))))
| X3b -> Npos (XI (XI (XO (XI (XI XH)))))
| X3c -> Npos (XO (XO (XI (XI (XI XH)))))
| X3d -> Npos (XI (XO (XI (XI (XI XH)))))
| X3e -> Npos (XO (XI (XI (XI (XI XH)))))
| X3f -> Npos (XI (XI (XI (XI (XI XH)))))
| X40 -> Npos (XO (XO (XO (XO (XO (XO XH))))))
| X41 -> Npos (XI (XO (XO (XO (XO (XO XH))))))
| X42 -> Npos (XO (XI (XO (XO (XO (XO XH))))))
| X43 -> Npos (XI (XI (XO (XO (XO (XO XH))))))
| X44 -> Npos (XO (XO (XI (XO (XO (XO XH))))))
| X45 -> Npos (XI (XO (XI (XO (XO (XO XH))))))
| X46 -> Npos (XO (XI (XI (XO (XO (XO XH))))))
| X47 -> Npos (XI (XI (XI (XO (XO (XO XH))))))
| X48 -> Npos (XO (XO (XO (XI (XO (XO XH))))))
| X49 -> Npos (XI (XO (XO (XI (XO (XO XH))))))
| X4a -> Npos (XO (XI (XO (XI (XO (XO XH))))))
| X4b -> Npos (XI (XI (XO (XI (XO (XO XH))))))
| X4c -> Npos (XO (XO (XI (XI (XO (XO XH))))))
| X4d -> Npos (XI (XO (XI (XI (XO (XO XH))))))
| X4e -> Npos (XO (XI (XI (XI (XO (XO XH))))))
| X4f -> Npos (XI (XI (XI (XI (XO (XO XH))))))
| X50 -> Npos (XO (XO (XO (XO (XI (XO XH))))))
| X51 -> Npos (XI (XO (XO (XO (XI (XO XH))))))
| X52 -> Npos (XO (XI (XO (XO (XI (XO XH))))))
| X53 -> Npos (XI (XI (XO (XO (XI (XO XH))))))
| X54 -> Npos (XO (XO (XI (XO (XI (XO XH))))))
| X55 -> Npos (XI (XO (XI (XO (XI (XO XH))))))
| X56 -> Npos (XO (XI (XI (XO (XI (XO XH))))))
| X57 -> Npos (XI (XI (XI (XO (XI (XO XH))))))
| X58 -> Npos (XO (XO (XO (XI (XI (XO XH))))))
| X59 -> Npos (XI (XO (XO (XI (XI (XO XH))))))
| X5a -> Npos (XO (XI (XO (XI (XI (XO XH))))))
| X5b -> Npos (XI (XI (XO (XI (XI (XO XH))))))
| X5c -> Npos (XO (XO (XI (XI (XI (XO XH))))))
| X5d -> Npos (XI (XO (XI (XI (XI (XO XH))))))
| X5e -> Npos (XO (XI (XI (XI (XI (XO XH))))))
| X5f -> Npos (XI (XI (XI (XI (XI (XO XH))))))
| X60 -> Npos (XO (XO (XO (XO (XO (XI XH))))))
| X61 -> Npos (XI (XO (XO (XO (XO (XI XH))))))
| X62 -> Npos (XO (XI (XO (XO (XO (XI XH))))))
| X63 -> Npos (XI (XI (XO (XO (XO (XI XH))))))
| X64 -> Npos (XO (XO (XI (XO (XO (XI XH))))))
| X65 -> Npos (XI (XO (XI (XO (XO (XI XH))))))
| X66 -> Npos (XO (XI (XI (XO (XO (XI XH))))))
| X67 -> Npos (XI (XI (XI (XO (XO (XI XH))))))
| X68 -> Npos (XO (XO (XO (XI (XO (XI XH))))))
| X69 -> Npos (XI (XO (XO (XI (XO (XI XH))))))
| X6a -> Npos (XO (XI (XO (XI (XO (XI XH))))))
| X6b -> Npos (XI (XI (XO (XI (XO (XI XH))))))
| X6c -> Npos (XO (XO (XI (XI (XO (XI XH))))))
| X6d -> Npos (XI (XO (XI (XI (XO (XI XH))))))
| X6e -> Npos (XO (XI (XI (XI (XO (XI XH))))))
| X6f -> Npos (XI (XI (XI (XI (XO (XI XH))))))
| X70 -> Npos (XO (XO (XO (XO (XI (XI XH))))))
| X71 -> Npos (XI (XO (XO (XO (XI (XI XH))))))
| X72 -> Npos (XO (XI (XO (XO (XI (XI XH))))))
| X73 -> Npos (XI (XI (XO (XO (XI (XI XH))))))
| X74 -> Npos (XO (XO (XI (XO (XI (XI XH))))))
| X75 -> Npos (XI (XO (XI (XO (XI (XI XH))))))
| X76 -> Npos (XO (XI (XI (XO (XI (XI XH))))))
| X77 -> Npos (XI (XI (XI (XO (XI (XI XH))))))
| X78 -> Npos (XO (XO (XO (XI (XI (XI XH))))))
| X79 -> Npos (XI (XO (XO (XI (XI (XI XH))))))
| X7a -> Npos (XO (XI (XO (XI (XI (XI XH))))))
| X7b -> Npos (XI (XI (XO (XI (XI (XI XH))))))
| X7c -> Npos (XO (XO (XI (XI (XI (XI XH))))))
| X7d -> Npos (XI (XO (XI (XI (XI (XI XH))))))
| X7e -> Npos (XO (XI (XI (XI (XI (XI XH))))))
| X7f -> Npos (XI (XI (XI (XI (XI (XI XH))))))
| X80 -> Npos (XO (XO (XO (XO (XO (XO (XO XH)))))))
| X81 -> Npos (XI (XO (XO (XO (XO (XO (XO XH)))))))
| X82 -> Npos (XO (XI (XO (XO (XO (XO (XO XH)))))))
| X83 -> Npos (XI (XI (XO (XO (XO (XO (XO XH)))))))
| X84 -> Npos (XO (XO (XI (XO (XO (XO (XO XH)))))))
| X85 -> Npos (XI (XO (XI (XO (XO (XO (XO XH)))))))
| X86 -> Npos (XO (XI (XI (XO (XO (XO (XO XH)))))))
| X87 -> Npos (XI (XI (XI (XO (XO (XO (XO XH)))))))
| X88 -> Npos (XO (XO (XO (XI (XO (XO (XO XH)))))))
| X89 -> Npos (XI (XO (XO (XI (XO (XO (XO XH)))))))
| X8a -> Npos (XO (XI (XO (XI (XO (XO (XO XH)))))))
| X8b -> Npos (XI (XI (XO (XI (XO (XO (XO XH)))))))
| X8c -> Npos (XO (XO (XI (XI (XO (XO (XO XH)))))))
| X8d -> Npos (XI (XO (XI (XI (XO (XO (XO XH)))))))
| X8e -> Npos (XO (XI (XI (XI (XO (XO (XO XH)))))))
| X8f -> Npos (XI (XI (XI (XI (XO (XO (XO XH)))))))
| X90 -> Npos (XO (XO (XO (XO (XI (XO (XO XH)))))))
| X91 -> Npos (XI (XO (XO (XO (XI (XO (XO XH)))))))
| X92 -> Npos (XO (XI (XO (XO (XI (XO (XO XH)))))))
| X93 -> Npos (XI (XI (XO (XO (XI (XO (XO XH)))))))
| X94 -> Npos (XO (XO (XI (XO (XI (XO (XO XH)))))))
| X95 -> Npos (XI (XO (XI (XO (XI (XO (XO XH)))))))
| X96 -> Npos (XO (XI (XI (XO (XI (XO (XO XH)))))))
| X97 -> Npos (XI (XI (XI (XO (XI (XO (XO XH)))))))
| X98 -> Npos (XO (XO (XO (XI (XI (XO (XO XH)))))))
| X99 -> Npos (XI (XO (XO (XI (XI (XO (XO XH)))))))
| X9a -> Npos (XO (XI (XO (XI (XI (XO (XO XH)))))))
| X9b -> Npos (XI (XI (XO (XI (XI (XO (XO XH)))))))
| X9c -> Npos (XO (XO (XI (XI (XI (XO (XO XH)))))))
| X9d -> Npos (XI (XO (XI (XI (XI (XO (XO XH)))))))
| X9e -> Npos (XO (XI (XI (XI (XI (XO (XO XH)))))))
| X9f -> Npos (XI (XI (XI (XI (XI (XO (XO XH)))))))
| Xa0 -> Npos (XO (XO (XO (XO (XO (XI (XO XH)))))))
| Xa1 -> Npos (XI (XO (XO (XO (XO (XI (XO XH)))))))
| Xa2 -> Npos (XO (XI (XO (XO (XO (XI (XO XH)))))))
| Xa3 -> Npos (XI (XI (XO (XO (XO (XI (XO XH)))))))
| Xa4 -> Npos (XO (XO (XI (XO (XO (XI (XO XH)))))))
| Xa5 -> Npos (XI (XO (XI (XO (XO (XI (XO XH)))))))
| Xa6 -> Npos (XO (XI (XI (XO (XO (XI (XO XH)))))))
| Xa7 -> Npos (XI (XI (XI (XO (XO (XI (XO XH)))))))
| Xa8 -> Npos (XO (XO (XO (XI (XO (XI (XO XH)))))))
| Xa9 -> Npos (XI (XO (XO (XI (XO (XI (XO XH)))))))
| Xaa -> Npos (XO (XI (XO (XI (XO (XI (XO XH)))))))
| Xab -> Npos (XI (XI (XO (XI (XO (XI (XO XH)))))))
| Xac -> Npos (XO (XO (XI (XI (XO (XI (XO XH)))))))
| Xad -> Npos (XI (XO (XI (XI (XO (XI (XO XH)))))))
| Xae -> Npos (XO (XI (XI (XI (XO (XI (XO XH)))))))
| Xaf -> Npos (XI (XI (XI (XI (XO (XI (XO XH)))))))
| Xb0 -> Npos (XO (XO (XO (XO (XI (XI (XO XH)))))))
| Xb1 -> Npos (XI (XO (XO (XO (XI (XI (XO XH)))))))
| Xb2 -> Npos (XO (XI (XO (XO (XI (XI (XO XH)))))))
| Xb3 -> Npos (XI (XI (XO (XO (XI (XI (XO XH)))))))
| Xb4 -> Npos (XO (XO (XI (XO (XI (XI (XO XH)))))))
| Xb5 -> Npos (XI (XO (XI (XO (XI (XI (XO XH)))))))
| Xb6 -> Npos (XO (XI (XI (XO (XI (XI (XO XH)))))))
| Xb7 -> Npos (XI (XI (XI (XO (XI (XI (XO XH)))))))
| Xb8 -> Npos (XO (XO (XO (XI (XI (XI (XO XH)))))))
| Xb9 -> Npos (XI (XO (XO (XI (XI (XI (XO XH)))))))
| Xba -> Npos (XO (XI (XO (XI (XI (XI (XO XH)))))))
| Xbb -> Npos (XI (XI (XO (XI (XI (XI (XO XH)))))))
| Xbc -> Npos (XO (XO (XI (XI (XI (XI (XO XH)))))))
| Xbd -> Npos (XI (XO (XI (XI (XI (XI (XO XH)))))))
| Xbe -> Npos (XO (XI (XI (XI (XI (XI (XO XH)))))))
| Xbf -> Npos (XI (XI (XI (XI (XI (XI (XO XH)))))))
| Xc0 -> Npos (XO (XO (XO (XO (XO (XO (XI XH)))))))
| Xc1 -> Npos (XI (XO (XO (XO (XO (XO (XI XH)))))))
| Xc2 -> Npos (XO (XI (XO (XO (XO (XO (XI XH)))))))
| Xc3 -> Npos (XI (XI (XO (XO (XO (XO (XI XH)))))))
| Xc4 -> Npos (XO (XO (XI (XO (XO (XO (XI XH)))))))
| Xc5 -> Npos (XI (XO (XI (XO (XO (XO (XI XH)))))))
| Xc6 -> Npos (XO (XI (XI (XO (XO (XO (XI XH)))))))
| Xc7 -> Npos (XI (XI (XI (XO (XO (XO (XI XH)))))))
| Xc8 -> Npos (XO (XO (XO (XI (XO (XO (XI XH)))))))
| Xc9 -> Npos (XI (XO (XO (XI (XO (XO (XI XH)))))))
| Xca -> Npos (XO (XI (XO (XI (XO (XO (XI XH)))))))
| Xcb -> Npos (XI (XI (XO (XI (XO (XO (XI XH)))))))
| Xcc -> Npos (XO (XO (XI (XI (XO (XO (XI XH)))))))
| Xcd -> Npos (XI (XO (XI (XI (XO (XO (XI XH)))))))
| Xce -> Npos (XO (XI (XI (XI (XO (XO (XI XH)))))))
| Xcf -> Npos (XI (XI (XI (XI (XO (XO (XI XH)))))))
| Xd0 -> Npos (XO (XO (XO (XO (XI (XO (XI XH)))))))
| Xd1 -> Npos (XI (XO (XO (XO (XI (XO (XI XH)))))))
| Xd2 -> Npos (XO (XI (XO (XO (XI (XO (XI XH)))))))
| Xd3 -> Npos (XI (XI (XO (XO (XI (XO (XI XH)))))))
| Xd4 -> Npos (XO (XO (XI (XO (XI (XO (XI XH)))))))
| Xd5 -> Npos (XI (XO (XI (XO (XI (XO (XI XH)))))))
| Xd6 -> Npos (XO (XI (XI (XO (XI (XO (XI XH)))))))
| Xd7 -> Npos (XI (XI (XI (XO (XI (XO (XI XH)))))))
| Xd8 -> Npos (XO (XO (XO (XI (XI (XO (XI XH)))))))
| Xd9 -> Npos (XI (XO (XO (XI (XI (XO (XI XH)))))))
| Xda -> Npos (XO (XI (XO (XI (XI (XO (XI XH)))))))
| Xdb -> Npos (XI (XI (XO (XI (XI (XO (XI XH)))))))
| Xdc -> Npos (XO (XO (XI (XI (XI (XO (XI XH)))))))
| Xdd -> Npos (XI (XO (XI (XI (XI (XO (XI XH)))))))
| Xde -> Npos (XO (XI (XI (XI (XI (XO (XI XH)))))))
| Xdf -> Npos (XI (XI (XI (XI (XI (XO (XI XH)))))))
| Xe0 -> Npos (XO (XO (XO (XO (XO (XI (XI XH)))))))
| Xe1 -> Npos (XI (XO (XO (XO (XO (XI (XI XH)))))))
| Xe2 -> Npos (XO (XI (XO (XO (XO (XI (XI XH)))))))
| Xe3 -> Npos (XI (XI (XO (XO (XO (XI (XI XH)))))))
| Xe4 -> Npos (XO (XO (XI (XO (XO (XI (XI XH)))))))
| Xe5 -> Npos (XI (XO (XI (XO (XO (XI (XI XH)))))))
| Xe6 -> Npos (XO (XI (XI (XO (XO (XI (XI XH)))))))
| Xe7 -> Npos (XI (XI (XI (XO (XO (XI (XI XH)))))))
| Xe8 -> Npos (XO (XO (XO (XI (XO (XI (XI XH)))))))
| Xe9 -> Npos (XI (XO (XO (XI (XO (XI (XI XH)))))))
| Xea -> Npos (XO (XI (XO (XI (XO (XI (XI XH)))))))
| Xeb -> Npos (XI (XI (XO (XI (XO (XI (XI XH)))))))
| Xec -> Npos (XO (XO (XI (XI (XO (XI (XI XH)))))))
| Xed -> Npos (XI (XO (XI (XI (XO (XI (XI XH)))))))
| Xee -> Npos (XO (XI (XI (XI (XO (XI (XI XH)))))))
| Xef -> Npos (XI (XI (XI (XI (XO (XI (XI XH)))))))
| Xf0 -> Npos (XO (XO (XO (XO (XI (XI (XI XH)))))))
| Xf1 -> Npos (XI (XO (XO (XO (XI (XI (XI XH)))))))
| Xf2 -> Npos (XO (XI (XO (XO (XI (XI (XI XH)))))))
| Xf3 -> Npos (XI (XI (XO (XO (XI (XI (XI XH)))))))
| Xf4 -> Npos (XO (XO (XI (XO (XI (XI (XI XH)))))))
| Xf5 -> Npos (XI (XO (XI (XO (XI (XI (XI XH)))))))
| Xf6 -> Npos (XO (XI (XI (XO (XI (XI (XI XH)))))))
| Xf7 -> Npos (XI (XI (XI (XO (XI (XI (XI XH)))))))
| Xf8 -> Npos (XO (XO (XO (XI (XI (XI (XI XH)))))))
| Xf9 -> Npos (XI (XO (XO (XI (XI (XI (XI XH)))))))
| Xfa -> Npos (XO (XI (XO (XI (XI (XI (XI XH)))))))
| Xfb -> Npos (XI (XI (XO (XI (XI (XI (XI XH)))))))
| Xfc -> Npos (XO (XO (XI (XI (XI (XI (XI XH)))))))
| Xfd -> Npos (XI (XO (XI (XI (XI (XI (XI XH)))))))
| Xfe -> Npos (XO (XI (XI (XI (XI (XI (XI XH)))))))
| Xff -> Npos (XI (XI (XI (XI (XI (XI (XI XH)))))))

(** val of_N0 : n -> byte option **)

let of_N0 = function
| N0 -> Some X00
| Npos p ->
  (match p with
   | XI p0 ->
     (match p0 with
      | XI p1 ->
        (match p1 with
         | XI p2 ->
           (match p2 with
            | XI p3 ->
              (match p3 with
               | XI p4 ->
                 (match p4 with
                  | XI p5 ->
                    (match p5 with
                     | XI p6 -> (match p6 with
                                 | XH -> Some Xff
                                 | _ -> None)
                     | XO p6 -> (match p6 with
                                 | XH -> Some Xbf
                                 | _ -> None)
                     | XH -> Some X7f)
                  | XO p5 ->
                    (match p5 with
                     | XI p6 -> (match p6 with
                                 | XH -> Some Xdf
                                 | _ -> None)
                     | XO p6 -> (match p6 with
                                 | XH -> Some X9f
                                 | _ -> None)
                     | XH -> Some X5f)
                  | XH -> Some X3f)
               | XO p4 ->
                 (match p4 with
                  | XI p5 ->
                    (match p5 with
                     | XI p6 -> (match p6 with
                                 | XH -> Some Xef
                                 | _ -> None)
                     | XO p6 -> (match p6 with
                                 | XH -> Some Xaf
                                 | _ -> None)
                     | XH -> Some X6f)
                  | XO p5 ->
                    (match p5 with
                     | XI p6 -> (match p6 with
                                 | XH -> Some Xcf
                                 | _ -> None)
                     | XO p6 -> (match p6 with
                                 | XH -> Some X8f
                                 | _ -> None)
                     | XH -> Some X4f)
                  | XH -> Some X2f)
               | XH -> Some X1f)
            | XO p3 ->
              (match p3 with
               | XI p4 ->
                 (match p4 with
                  | XI p5 ->
                    (match p5 with
                     | XI p6 -> (match p6 with
                                 | XH -> Some Xf7
                                 | _ -> None)
                     | XO p6 -> (match p6 with
                                 | XH -> Some Xb7
                                 | _ -> None)
                     | XH -> Some X77)
                  | XO p5 ->
                    (match p5 with
                     | XI p6 -> (match p6 with
                                 | XH -> Some Xd7
                                 | _ -> None)
                     | XO p6 -> (match p6 with
                                 | XH -> Some X97
                                 | _ -> None)
                     | XH -> Some X57)
                  | XH -> Some X37)
               | XO p4 ->
                 (match p4 with
                  | XI p5 ->
                    (match p5 with
                     | XI p6 -> (match p6 with
                                 | XH -> Some Xe7
                                 | _ -> None)
                     | XO p6 -> (match p6 with
                                 | XH -> Some Xa7
                                 | _ -> None)
                     | XH -> Some X67)
                  | XO p5 ->
                    (match p5 with
                     | XI p6 -> (match p6 with
                                 | XH -> Some Xc7
                                 | _ -> None)
                     | XO p6 -> (match p6 with
                                 | XH -> Some X87
                                 | _ -> None)
                     | XH -> Some X47)
                  | XH -> Some X27)
               | XH -> Some X17)
            | XH -> Some X0f)
         | XO p2 ->
           (match p2 with
            | XI p3 ->
              (match p3 with
               | XI p4 ->
                 (match p4 with
                  | XI p5 ->
                    (match p5 with
                     | XI p6 -> (match p6 with
                                 | XH -> Some Xfb
                                 | _ -> None)
                     | XO p6 -> (match p6 with
                                 | XH -> Some Xbb
                                 | _ -> None)
                     | XH -> Some X7b)
                  | XO p5 ->
                    (match p5 with
                     | XI p6 -> (match p6 with
                                 | XH -> Some Xdb
                                 | _ -> None)
                     | XO p6 -> (match p6 with
                                 | XH -> Some X9b
                                 | _ -> None)
                     | XH -> Some X5b)
                  | XH -> Some X3b)
               | XO p4 ->
                 (match p4 with
                  | XI p5 ->
                    (match p5 with
                     | XI p6 -> (match p6 with
                                 | XH -> Some Xeb
                                 | _ -> None)
                     | XO p6 -> (match p6 with
                                 | XH -> Some Xab
                                 | _ -> None)
                     | XH -> Some X6b)
                  | XO p5 ->
                    (match p5 with
                     | XI p6 -> (match p6 with
                                 | XH -> Some Xcb
                                 | _ -> None)
                     | XO p6 -> (match p6 with
                                 | XH -> Some X8b
                                 | _ -> None)
                     | XH -> Some X4b)
                  | XH -> Some X2b)
               | XH -> Some X1b)
            | XO p3 ->
              (match p3 with
               | XI p4 ->
                 (match p4 with
                  | XI p5 ->
                    (match p5 with
                     | XI p6 -> (match p6 with
                                 | XH -> Some Xf3
                                 | _ -> None)
                     | XO p6 -> (match p6 with
                                 | XH -> Some Xb3
                                 | _ -> None)
                     | XH -> Some X73)
                  | XO p5 ->
                    (match p5 with
                     | XI p6 -> (match p6 with
                                 | XH -> Some Xd3
                                 | _ -> None)
                     | XO p6 -> (match p6 with
                                 | XH -> Some X93
                                 | _ -> None)
                     | XH -> Some X53)
                  | XH -> Some X33)
               | XO p4 ->
                 (match p4 with
                  | XI p5 ->
                    (match p5 with
                     | XI p6 -> (match p6 with
                                 | XH -> Some Xe3
                                 | _ -> None)
                     | XO p6 -> (match p6 with
                                 | XH -> Some Xa3
                                 | _ -> None)
                     | XH -> Some X63)
                  | XO p5 ->
                    (match p5 with
                     | XI p6 -> (match p6 with
                                 | XH -> Some Xc3
                                 | _ -> None)
                     | XO p6 -> (match p6 with
                                 | XH -> Some X83
                                 | _ -> None)
                     | XH -> Some X43)
                  | XH -> Some X23)
               | XH -> Some X13)
            | XH -> Some X0b)
         | XH -> Some X07)
      | XO p1 ->
        (match p1 with
         | XI p2 ->
           (match p2 with
            | XI p3 ->
              (match p3 with
               | XI p4 ->
                 (match p4 with
                  | XI p5 ->
                    (match p5 with
                     | XI p6 -> (match p6 with
                                 | XH -> Some Xfd
                                 | _ -> None)
                     | XO p6 -> (match p6 with
                                 | XH -> Some Xbd
                                 | _ -> None)
                     | XH -> Some X7d)
                  | XO p5 ->
                    (match p5 with
                     | XI p6 -> (match p6 with
                                 | XH -> Some Xdd
                                 | _ -> None)
                     | XO p6 -> (match p6 with
                                 | XH -> Some X9d
                                 | _ -> None)
                     | XH -> Some X5d)
                  | XH -> Some X3d)
               | XO p4 ->
                 (match p4 with
                  | XI p5 ->
                    (match p5 with
                     | XI p6 -> (match p6 with
                                 | XH -> Some Xed
                                 | _ -> None)
                     | XO p6 -> (match p6 with
                                 | XH -> Some Xad
                                 | _ -> None)
                     | XH -> Some X6d)
                  | XO p5 ->
                    (match p5 with
                     | XI p6 -> (match p6 with
                                 | XH -> Some Xcd
                                 | _ -> None)
                     | XO p6 -> (match p6 with
                                 | XH -> Some X8d
                                 | _ -> None)
                     | XH -> Some X4d)
                  | XH -> Some X2d)
               | XH -> Some X1d)
            | XO p3 ->
              (match p3 with
               | XI p4 ->
                 (match p4 with
                  | XI p5 ->
                    (match p5 with
                     | XI p6 -> (match p6 with
                                 | XH -> Some Xf5
                                 | _ -> None)
                     | XO p6 -> (match p6 with
                                 | XH -> Some Xb5
                                 | _ -> None)
                     | XH -> Some X75)
                  | XO p5 ->
                    (match p5 with
                     | XI p6 -> (match p6 with
                                 | XH -> Some Xd5
                                 | _ -> None)
                     | XO p6 -> (match p6 with
                                 | XH -> Some X95
                                 | _ -> None)
                     | XH -> Some X55)
                  | XH -> Some X35)
               | XO p4 ->
                 (match p4 with
                  | XI p5 ->
                    (match p5 with
                     | XI p6 -> (match p6 with
                                 | XH -> Some Xe5
                                 | _ -> None)
                     | XO p6 -> (match p6 with
                                 | XH -> Some Xa5
                                 | _ -> None)
                     | XH -> Some X65)
                  | XO p5 ->
                    (match p5 with
                     | XI p6 -> (match p6 with
                                 | XH -> Some Xc5
                                 | _ -> None)
                     | XO p6 -> (match p6 with
                                 | XH -> Some X85
                                 | _ -> None)
                     | XH -> Some X45)
                  | XH -> Some X25)
               | XH -> Some X15)
            | XH -> Some X0d)
         | XO p2 ->
           (match p2 with
            | XI p3 ->
              (match p3 with
               | XI p4 ->
                 (match p4 with
                  | XI p5 ->
                    (match p5 with
                     | XI p6 -> (match p6 with
                                 | XH -> Some Xf9
                                 | _ -> None)
                     | XO p6 -> (match p6 with
                                 | XH -> Some Xb9
                                 | _ -> None)
                     | XH -> Some X79)
                  | XO p5 ->
                    (match p5 with
                     | XI p6 -> (match p6 with
                                 | XH -> Some Xd9
                                 | _ -> None)
                     | XO p6 -> (match p6 with
                                 | XH -> Some X99
                                 | _ -> None)
                     | XH -> Some X59)
                  | XH -> Some X39)
               | XO p4 ->
                 (match p4 with
                  | XI p5 ->
                    (match p5 with
                     | XI p6 -> (match p6 with
                                 | XH -> Some Xe9
                                 | _ -> None)
                     | XO p6 -> (match p6 with
                                 | XH -> Some Xa9
                                 | _ -> None)
                     | XH -> Some X69)
                  | XO p5 ->
                    (match p5 with
                     | XI p6 -> (match p6 with
                                 | XH -> Some Xc9
                                 | _ -> None)
                     | XO p6 -> (match p6 with
                                 | XH -> Some X89
                                 | _ -> None)
                     | XH -> Some X49)
                  | XH -> Some X29)
               | XH -> Some X19)
            | XO p3 ->
              (match p3 with
               | XI p4 ->
                 (match p4 with
                  | XI p5 ->
                    (match p5 with
                     | XI p6 -> (match p6 with
                                 | XH -> Some Xf1
                                 | _ -> None)
                     | XO p6 -> (match p6 with
                                 | XH -> Some Xb1
                                 | _ -> None)
                     | XH -> Some X71)
                  | XO p5 ->
                    (match p5 with
                     | XI p6 -> (match p6 with
                                 | XH -> Some Xd1
                                 | _ -> None)
                     | XO p6 -> (match p6 with
                                 | XH -> Some X91
                                 | _ -> None)
                     | XH -> Some X51)
                  | XH -> Some X31)
               | XO p4 ->
                 (match p4 with
                  | XI p5 ->
                    (match p5 with
                     | XI p6 -> (match p6 with
                                 | XH -> Some Xe1
                                 | _ -> None)
                     | XO p6 -> (match p6 with
                                 | XH -> Some Xa1
                                 | _ -> None)
                     | XH -> Some X61)
                  | XO p5 ->
                    (match p5 with
                     | XI p6 -> (match p6 with
                                 | XH -> Some Xc1
                                 | _ -> None)
                     | XO p6 -> (match p6 with
                                 | XH -> Some X81
                                 | _ -> None)
                     | XH -> Some X41)
                  | XH -> Some X21)
               | XH -> Some X11)
            | XH -> Some X09)
         | XH -> Some X05)
      | XH -> Some X03)
   | XO p0 ->
     (match p0 with
      | XI p1 ->
        (match p1 with
         | XI p2 ->
           (match p2 with
            | XI p3 ->
              (match p3 with
               | XI p4 ->
                 (match p4 with
                  | XI p5 ->
                    (match p5 with
                     | XI p6 -> (match p6 with
                                 | XH -> Some Xfe
                                 | _ -> None)
                     | XO p6 -> (match p6 with
                                 | XH -> Some Xbe
                                 | _ -> None)
                     | XH -> Some X7e)
                  | XO p5 ->
                    (match p5 with
                     | XI p6 -> (match p6 with
                                 | XH -> Some Xde
                                 | _ -> None)
                     | XO p6 -> (match p6 with
                                 | XH -> Some X9e
                                 | _ -> None)
                     | XH -> Some X5e)
                  | XH -> Some X3e)
               | XO p4 ->
                 (match p4 with
                  | XI p5 ->
                    (match p5 with
                     | XI p6 -> (match p6 with
                                 | XH -> Some Xee
                                 | _ -> None)
                     | XO p6 -> (match p6 with
                                 | XH -> Some Xae
                                 | _ -> None)
                     | XH -> Some X6e)
                  | XO p5 ->
                    (match p5 with
                     | XI p6 -> (match p6 with
                                 | XH -> Some Xce
                                 | _ -> None)
                     | XO p6 -> (match p6 with
                                 | XH -> Some X8e
                                 | _ -> None)
                     | XH -> Some X4e)
                  | XH -> Some X2e)
               | XH -> Some X1e)
            | XO p3 ->
              (match p3 with
               | XI p4 ->
                 (match p4 with
                  | XI p5 ->
                    (match p5 with
                     | XI p6 -> (match p6 with
                                 | XH -> Some Xf6
                                 | _ -> None)
                     | XO p6 -> (match p6 with
                                 | XH -> Some Xb6
                                 | _ -> None)
                     | XH -> Some X76)
                  | XO p5 ->
                    (match p5 with
                     | XI p6 -> (match p6 with
                                 | XH -> Some Xd6
                                 | _ -> None)
                     | XO p6 -> (match p6 with
                                 | XH -> Some X96
                                 | _ -> None)
                     | XH -> Some X56)
                  | XH -> Some X36)
               | XO p4 ->
                 (match p4 with
                  | XI p5 ->
                    (match p5 with
                     | XI p6 -> (match p6 with
                                 | XH -> Some Xe6
                                 | _ -> None)
                     | XO p6 -> (match p6 with
                                 | XH -> Some Xa6
                                 | _ -> None)
                     | XH -> Some X66)
                  | XO p5 ->
                    (match p5 with
                     | XI p6 -> (match p6 with
                                 | XH -> Some Xc6
                                 | _ -> None)
                     | XO p6 -> (match p6 with
                                 | XH -> Some X86
                                 | _ -> None)
                     | XH -> Some X46)
                  | XH -> Some X26)
               | XH -> Some X16)
            | XH -> Some X0e)
         | XO p2 ->
           (match p2 with
            | XI p3 ->
              (match p3 with
               | XI p4 ->
                 (match p4 with
                  | XI p5 ->
                    (match p5 with
                     | XI p6 -> (match p6 with
                                 | XH -> Some Xfa
                                 | _ -> None)
                     | XO p6 -> (match p6 with
                                 | XH -> Some Xba
                                 | _ -> None)
                     | XH -> Some X7a)
                  | XO p5 ->
                    (match p5 with
                     | XI p6 -> (match p6 with
                                 | XH -> Some Xda
                                 | _ -> None)
                     | XO p6 -> (match p6 with
                                 | XH -> Some X9a
                                 | _ -> None)
                     | XH -> Some X5a)
                  | XH -> Some X3a)
               | XO p4 ->
                 (match p4 with
                  | XI p5 ->
                    (match p5 with
                     | XI p6 -> (match p6 with
                                 | XH -> Some Xea
                                 | _ -> None)
                     | XO p6 -> (match p6 with
                                 | XH -> Some Xaa
                                 | _ -> None)
                     | XH -> Some X6a)
                  | XO p5 ->
                    (match p5 with
                     | XI p6 -> (match p6 with
                                 | XH -> Some Xca
                                 | _ -> None)
                     | XO p6 -> (match p6 with
                                 | XH -> Some X8a
                                 | _ -> None)
                     | XH -> Some X4a)
                  | XH -> Some X2a)
               | XH -> Some X1a)
            | XO p3 ->
              (match p3 with
               | XI p4 ->
                 (match p4 with
                  | XI p5 ->
                    (match p5 with
                     | XI p6 -> (match p6 with
                                 | XH -> Some Xf2
                                 | _ -> None)
                     | XO p6 -> (match p6 with
                                 | XH -> Some Xb2
                                 | _ -> None)
                     | XH -> Some X72)
                  | XO p5 ->
                    (match p5 with
                     | XI p6 -> (match p6 with
                                 | XH -> Some Xd2
                                 | _ -> None)
                     | XO p6 -> (match p6 with
                                 | XH -> Some X92
                                 | _ -> None)
                     | XH -> Some X52)
                  | XH -> Some X32)
               | XO p4 ->
                 (match p4 with
                  | XI p5 ->
                    (match p5 with
                     | XI p6 -> (match p6 with
                                 | XH -> Some Xe2
                                 | _ -> None)
                     | XO p6 -> (match p6 with
                                 | XH -> Some Xa2
                                 | _ -> None)
                     | XH -> Some X62)
                  | XO p5 ->
                    (match p5 with
                     | XI p6 -> (match p6 with
                                 | XH -> Some Xc2
                                 | _ -> None)
                     | XO p6 -> (match p6 with
                                 | XH -> Some X82
                                 | _ -> None)
                     | XH -> Some X42)
                  | XH -> Some X22)
               | XH -> Some X12)
            | XH -> Some X0a)
         | XH -> Some X06)
      | XO p1 ->
        (match p1 with
         | XI p2 ->
           (match p2 with
            | XI p3 ->
              (match p3 with
               | XI p4 ->
                 (match p4 with
                  | XI p5 ->
                    (match p5 with
                     | XI p6 -> (match p6 with
                                 | XH -> Some Xfc
                                 | _ -> None)
                     | XO p6 -> (match p6 with
                                 | XH -> Some Xbc
                                 | _ -> None)
                     | XH -> Some X7c)
                  | XO p5 ->
                    (match p5 with
                     | XI p6 -> (match p6 with
                                 | XH -> Some Xdc
                                 | _ -> None)
                     | XO p6 -> (match p6 with
                                 | XH -> Some X9c
                                 | _ -> None)
                     | XH -> Some X5c)
                  | XH -> Some X3c)
               | XO p4 ->
                 (match p4 with
                  | XI p5 ->
                    (match p5 with
                     | XI p6 -> (match p6 with
                                 | XH -> Some Xec
                                 | _ -> None)
                     | XO p6 -> (match p6 with
                                 | XH -> Some Xac
                                 | _ -> None)
                     | XH -> Some X6c)
                  | XO p5 ->
                    (match p5 with
                     | XI p6 -> (match p6 with
                                 | XH -> Some Xcc
                                 | _ -> None)
                     | XO p6 -> (match p6 with
                                 | XH -> Some X8c
                                 | _ -> None)
                     | XH -> Some X4c)
                  | XH -> Some X2c)
               | XH -> Some X1c)
            | XO p3 ->
              (match p3 with
               | XI p4 ->
                 (match p4 with
                  | XI p5 ->
                    (match p5 with
                     | XI p6 -> (match p6 with
                                 | XH -> Some Xf4
                                 | _ -> None)
                     | XO p6 -> (match p6 with
                                 | XH -> Some Xb4
                                 | _ -> None)
                     | XH -> Some X74)
                  | XO p5 ->
                    (match p5 with
                     | XI p6 -> (match p6 with
                                 | XH -> Some Xd4
                                 | _ -> None)
                     | XO p6 -> (match p6 with
                                 | XH -> Some X94
                                 | _ -> None)
                     | XH -> Some X54)
                  | XH -> Some X34)
               | XO p4 ->
                 (match p4 with
                  | XI p5 ->
                    (match p5 with
                     | XI p6 -> (match p6 with
                                 | XH -> Some Xe4
                                 | _ -> None)
                     | XO p6 -> (match p6 with
                                 | XH -> Some Xa4
                                 | _ -> None)
                     | XH -> Some X64)
                  | XO p5 ->
                    (match p5 with
                     | XI p6 -> (match p6 with
                                 | XH -> Some Xc4
                                 | _ -> None)
                     | XO p6 -> (match p6 with
                                 | XH -> Some X84
                                 | _ -> None)
                     | XH -> Some X44)
                  | XH -> Some X24)
               | XH -> Some X14)
            | XH -> Some X0c)
         | XO p2 ->
           (match p2 with
            | XI p3 ->
              (match p3 with
               | XI p4 ->
                 (match p4 with
                  | XI p5 ->
                    (match p5 with
                     | XI p6 -> (match p6 with
                                 | XH -> Some Xf8
                                 | _ -> None)
                     | XO p6 -> (match p6 with
                                 | XH -> Some Xb8
                                 | _ -> None)
                     | XH -> Some X78)
                  | XO p5 ->
                    (match p5 with
                     | XI p6 -> (match p6 with
                                 | XH -> Some Xd8
                                 | _ -> None)
                     | XO p6 -> (match p6 with
                                 | XH -> Some X98
                                 | _ -> None)
                     | XH -> Some X58)
                  | XH -> Some X38)
               | XO p4 ->
                 (match p4 with
                  | XI p5 ->
                    (match p5 with
                     | XI p6 -> (match p6 with
                                 | XH -> Some Xe8
                                 | _ -> None)
                     | XO p6 -> (match p6 with
                                 | XH -> Some Xa8
                                 | _ -> None)
                     | XH -> Some X68)
                  | XO p5 ->
                    (match p5 with
                     | XI p6 -> (match p6 with
                                 | XH -> Some Xc8
                                 | _ -> None)
                     | XO p6 -> (match p6 with
                                 | XH -> Some X88
                                 | _ -> None)
                     | XH -> Some X48)
                  | XH -> Some X28)
               | XH -> Some X18)
            | XO p3 ->
              (match p3 with
               | XI p4 ->
                 (match p4 with
                  | XI p5 ->
                    (match p5 with
                     | XI p6 -> (match p6 with
                                 | XH -> Some Xf0
                                 | _ -> None)
                     | XO p6 -> (match p6 with
                                 | XH -> Some Xb0
                                 | _ -> None)
                     | XH -> Some X70)
                  | XO p5 ->
                    (match p5 with
                     | XI p6 -> (match p6 with
                                 | XH -> Some Xd0
                                 | _ -> None)
                     | XO p6 -> (match p6 with
                                 | XH -> Some X90
                                 | _ -> None)
                     | XH -> Some X50)
                  | XH -> Some X30)
               | XO p4 ->
                 (match p4 with
                  | XI p5 ->
                    (match p5 with
                     | XI p6 -> (match p6 with
                                 | XH -> Some Xe0
                                 | _ -> None)
                     | XO p6 -> (match p6 with
                                 | XH -> Some Xa0
                                 | _ -> None)
                     | XH -> Some X60)
                  | XO p5 ->
                    (match p5 with
                     | XI p6 -> (match p6 with
                                 | XH -> Some Xc0
                                 | _ -> None)
                     | XO p6 -> (match p6 with
                                 | XH -> Some X80
                                 | _ -> None)
                     | XH -> Some X40)
                  | XH -> Some X20)
               | XH -> Some X10)
            | XH -> Some X08)
         | XH -> Some X04)
      | XH -> Some X02)
   | XH -> Some X01)

type ascii =
| Ascii of bool * bool * bool * bool * bool * bool * bool * bool

(** val byte_of_ascii : ascii -> byte **)

let byte_of_ascii = function
| Ascii (b0, b1, b2, b3, b4, b5, b6, b7) ->
  of_bits (b0, (b1, (b2, (b3, (b4, (b5, (b6, b7)))))))

type string =
| EmptyString
| String of ascii * string

(** val list_ascii_of_string : string -> ascii list **)

let rec list_ascii_of_string = function
| EmptyString -> []
| String (ch, s0) -> ch :: (list_ascii_of_string s0)

(** val list_byte_of_string : string -> byte list **)

let list_byte_of_string s =
  map byte_of_ascii (list_ascii_of_string s)

type bytes = byte list

(** val b2n : byte -> n **)

let b2n =
  to_N0

(** val b2z : byte -> z **)

let b2z b =
  Z.of_N (to_N0 b)

(** val n2b : n -> byte **)

let n2b n0 =
  match of_N0 (N.modulo n0 (Npos (XO (XO (XO (XO (XO (XO (XO (XO XH)))))))))) with
  | Some b -> b
  | None -> X00

(** val z2b : z -> byte **)

let z2b z0 =
  n2b (Z.to_N (Z.modulo z0 (Zpos (XO (XO (XO (XO (XO (XO (XO (XO XH)))))))))))

(** val bs : string -> bytes **)

let bs =
  list_byte_of_string

(** val sECS_PER_DAY : z **)

let sECS_PER_DAY =
  Zpos (XO (XO (XO (XO (XO (XO (XO (XI (XI (XO (XO (XO (XI (XO (XI (XO
    XH))))))))))))))))

(** val lEAPOCH : z **)

let lEAPOCH =
  Zpos (XI (XO (XO (XI (XO (XO (XO (XO (XI (XI (XO (XI (XO XH)))))))))))))

(** val dAYS_PER_400Y : z **)

let dAYS_PER_400Y =
  Z.add
    (Z.mul (Zpos (XI (XO (XI (XI (XO (XI (XI (XO XH))))))))) (Zpos (XO (XO
      (XO (XO (XI (XO (XO (XI XH)))))))))) (Zpos (XI (XO (XO (XO (XO (XI
    XH)))))))

(** val dAYS_PER_100Y : z **)

let dAYS_PER_100Y =
  Z.add
    (Z.mul (Zpos (XI (XO (XI (XI (XO (XI (XI (XO XH))))))))) (Zpos (XO (XO
      (XI (XO (XO (XI XH)))))))) (Zpos (XO (XO (XO (XI XH)))))

(** val dAYS_PER_4Y : z **)

let dAYS_PER_4Y =
  Z.add
    (Z.mul (Zpos (XI (XO (XI (XI (XO (XI (XI (XO XH))))))))) (Zpos (XO (XO
      XH)))) (Zpos XH)

(** val mONTHS : z list **)

let mONTHS =
  (Zpos (XI (XI (XI (XI XH))))) :: ((Zpos (XO (XI (XI (XI XH))))) :: ((Zpos
    (XI (XI (XI (XI XH))))) :: ((Zpos (XO (XI (XI (XI XH))))) :: ((Zpos (XI
    (XI (XI (XI XH))))) :: ((Zpos (XI (XI (XI (XI XH))))) :: ((Zpos (XO (XI
    (XI (XI XH))))) :: ((Zpos (XI (XI (XI (XI XH))))) :: ((Zpos (XO (XI (XI
    (XI XH))))) :: ((Zpos (XI (XI (XI (XI XH))))) :: ((Zpos (XI (XI (XI (XI
    XH))))) :: ((Zpos (XI (XO (XI (XI XH))))) :: [])))))))))))

(** val walk : z list -> z -> z -> z * z **)

let rec walk ms rd idx =
  match ms with
  | [] -> (idx, rd)
  | ml :: r ->
    if Z.ltb rd ml
    then (idx, rd)
    else walk r (Z.sub rd ml) (Z.add idx (Zpos XH))

(** val civil : z -> ((z * z) * z) * z **)

let civil days =
  let days_total = Z.sub days lEAPOCH in
  let wday0 = Z.modulo (Z.add (Zpos (XI XH)) days_total) (Zpos (XI (XI XH)))
  in
  let wday = if Z.leb wday0 Z0 then Z.add wday0 (Zpos (XI (XI XH))) else wday0
  in
  let qc_cycles = Z.div days_total dAYS_PER_400Y in
  let remdays = Z.modulo days_total dAYS_PER_400Y in
  let c0 = Z.div remdays dAYS_PER_100Y in
  let c_cycles =
    if Z.eqb c0 (Zpos (XO (XO XH))) then Z.sub c0 (Zpos XH) else c0
  in
  let remdays0 = Z.sub remdays (Z.mul c_cycles dAYS_PER_100Y) in
  let q0 = Z.div remdays0 dAYS_PER_4Y in
  let q_cycles =
    if Z.eqb q0 (Zpos (XI (XO (XO (XI XH))))) then Z.sub q0 (Zpos XH) else q0
  in
  let remdays1 = Z.sub remdays0 (Z.mul q_cycles dAYS_PER_4Y) in
  let y0 = Z.div remdays1 (Zpos (XI (XO (XI (XI (XO (XI (XI (XO XH))))))))) in
  let remyears =
    if Z.eqb y0 (Zpos (XO (XO XH))) then Z.sub y0 (Zpos XH) else y0
  in
  let remdays2 =
    Z.sub remdays1
      (Z.mul remyears (Zpos (XI (XO (XI (XI (XO (XI (XI (XO XH))))))))))
  in
  let year =
    Z.add
      (Z.add
        (Z.add
          (Z.add (Zpos (XO (XO (XO (XO (XI (XO (XI (XI (XI (XI XH)))))))))))
            remyears) (Z.mul (Zpos (XO (XO XH))) q_cycles))
        (Z.mul (Zpos (XO (XO (XI (XO (XO (XI XH))))))) c_cycles))
      (Z.mul (Zpos (XO (XO (XO (XO (XI (XO (XO (XI XH))))))))) qc_cycles)
  in
  let (mon_idx, rd) = walk mONTHS remdays2 Z0 in
  let mday = Z.add rd (Zpos XH) in
  let mon = Z.add mon_idx (Zpos (XI XH)) in
  if Z.gtb mon (Zpos (XO (XO (XI XH))))
  then ((((Z.add year (Zpos XH)), (Z.sub mon (Zpos (XO (XO (XI XH)))))),
         mday), wday)
  else (((year, mon), mday), wday)

(** val wDAY_STRS : bytes **)

let wDAY_STRS =
  bs (String ((Ascii (true, false, true, true, false, false, true, false)),
    (String ((Ascii (true, true, true, true, false, true, true, false)),
    (String ((Ascii (false, true, true, true, false, true, true, false)),
    (String ((Ascii (false, false, true, false, true, false, true, false)),
    (String ((Ascii (true, false, true, false, true, true, true, false)),
    (String ((Ascii (true, false, true, false, false, true, true, false)),
    (String ((Ascii (true, true, true, false, true, false, true, false)),
    (String ((Ascii (true, false, true, false, false, true, true, false)),
    (String ((Ascii (false, false, true, false, false, true, true, false)),
    (String ((Ascii (false, false, true, false, true, false, true, false)),
    (String ((Ascii (false, false, false, true, false, true, true, false)),
    (String ((Ascii (true, false, true, false, true, true, true, false)),
    (String ((Ascii (false, true, true, false, false, false, true, false)),
    (String ((Ascii (false, true, false, false, true, true, true, false)),
    (String ((Ascii (true, false, false, true, false, true, true, false)),
    (String ((Ascii (true, true, false, false, true, false, true, false)),
    (String ((Ascii (true, false, false, false, false, true, true, false)),
    (String ((Ascii (false, false, true, false, true, true, true, false)),
    (String ((Ascii (true, true, false, false, true, false, true, false)),
    (String ((Ascii (true, false, true, false, true, true, true, false)),
    (String ((Ascii (false, true, true, true, false, true, true, false)),
    EmptyString))))))))))))))))))))))))))))))))))))))))))

(** val mON_STRS : bytes **)

let mON_STRS =
  bs (String ((Ascii (false, true, false, true, false, false, true, false)),
    (String ((Ascii (true, false, false, false, false, true, true, false)),
    (String ((Ascii (false, true, true, true, false, true, true, false)),
    (String ((Ascii (false, true, true, false, false, false, true, false)),
    (String ((Ascii (true, false, true, false, false, true, true, false)),
    (String ((Ascii (false, true, false, false, false, true, true, false)),
    (String ((Ascii (true, false, true, true, false, false, true, false)),
    (String ((Ascii (true, false, false, false, false, true, true, false)),
    (String ((Ascii (false, true, false, false, true, true, true, false)),
    (String ((Ascii (true, false, false, false, false, false, true, false)),
    (String ((Ascii (false, false, false, false, true, true, true, false)),
    (String ((Ascii (false, true, false, false, true, true, true, false)),
    (String ((Ascii (true, false, true, true, false, false, true, false)),
    (String ((Ascii (true, false, false, false, false, true, true, false)),
    (String ((Ascii (true, false, false, true, true, true, true, false)),
    (String ((Ascii (false, true, false, true, false, false, true, false)),
    (String ((Ascii (true, false, true, false, true, true, true, false)),
    (String ((Ascii (false, true, true, true, false, true, true, false)),
    (String ((Ascii (false, true, false, true, false, false, true, false)),
    (String ((Ascii (true, false, true, false, true, true, true, false)),
    (String ((Ascii (false, false, true, true, false, true, true, false)),
    (String ((Ascii (true, false, false, false, false, false, true, false)),
    (String ((Ascii (true, false, true, false, true, true, true, false)),
    (String ((Ascii (true, true, true, false, false, true, true, false)),
    (String ((Ascii (true, true, false, false, true, false, true, false)),
    (String ((Ascii (true, false, true, false, false, true, true, false)),
    (String ((Ascii (false, false, false, false, true, true, true, false)),
    (String ((Ascii (true, true, true, true, false, false, true, false)),
    (String ((Ascii (true, true, false, false, false, true, true, false)),
    (String ((Ascii (false, false, true, false, true, true, true, false)),
    (String ((Ascii (false, true, true, true, false, false, true, false)),
    (String ((Ascii (true, true, true, true, false, true, true, false)),
    (String ((Ascii (false, true, true, false, true, true, true, false)),
    (String ((Ascii (false, false, true, false, false, false, true, false)),
    (String ((Ascii (true, false, true, false, false, true, true, false)),
    (String ((Ascii (true, true, false, false, false, true, true, false)),
    EmptyString))))))))))))))))))))))))))))))))))))))))))))))))))))))))))))))))))))))))

(** val slice3 : bytes -> z -> bytes **)

let slice3 l off =
  firstn (S (S (S O))) (skipn (Z.to_nat off) l)

(** val write_2d : z -> bytes **)

let write_2d v =
  let v0 = Z.modulo v (Zpos (XO (XO (XO (XO (XO (XO (XO (XO XH))))))))) in
  (z2b
    (Z.add (Zpos (XO (XO (XO (XO (XI XH))))))
      (Z.div v0 (Zpos (XO (XI (XO XH))))))) :: ((z2b
                                                  (Z.add (Zpos (XO (XO (XO
                                                    (XO (XI XH))))))
                                                    (Z.modulo v0 (Zpos (XO
                                                      (XI (XO XH))))))) :: [])

(** val write_4d : z -> bytes **)

let write_4d v =
  let v0 =
    Z.modulo v (Zpos (XO (XO (XO (XO (XO (XO (XO (XO (XO (XO (XO (XO (XO (XO
      (XO (XO XH)))))))))))))))))
  in
  (z2b
    (Z.add (Zpos (XO (XO (XO (XO (XI XH))))))
      (Z.modulo
        (Z.div v0 (Zpos (XO (XO (XO (XI (XO (XI (XI (XI (XI XH)))))))))))
        (Zpos (XO (XO (XO (XO (XO (XO (XO (XO XH)))))))))))) :: ((z2b
                                                                   (Z.add
                                                                    (Zpos (XO
                                                                    (XO (XO
                                                                    (XO (XI
                                                                    XH))))))
                                                                    (Z.modulo
                                                                    (Z.div v0
                                                                    (Zpos (XO
                                                                    (XO (XI
                                                                    (XO (XO
                                                                    (XI
                                                                    XH))))))))
                                                                    (Zpos (XO
                                                                    (XI (XO
                                                                    XH))))))) :: (
  (z2b
    (Z.add (Zpos (XO (XO (XO (XO (XI XH))))))
      (Z.modulo (Z.div v0 (Zpos (XO (XI (XO XH))))) (Zpos (XO (XI (XO XH))))))) :: (
  (z2b
    (Z.add (Zpos (XO (XO (XO (XO (XI XH))))))
      (Z.modulo v0 (Zpos (XO (XI (XO XH))))))) :: [])))

(** val format_http_date : z -> bytes **)

let format_http_date secs =
  let days = Z.div secs sECS_PER_DAY in
  let secs_of_day = Z.modulo secs sECS_PER_DAY in
  let (p, wday) = civil days in
  let (p0, mday) = p in
  let (year, mon) = p0 in
  let woff = Z.mul (Z.sub wday (Zpos XH)) (Zpos (XI XH)) in
  let moff = Z.mul (Z.sub mon (Zpos XH)) (Zpos (XI XH)) in
  let hour =
    Z.div secs_of_day (Zpos (XO (XO (XO (XO (XI (XO (XO (XO (XO (XI (XI
      XH))))))))))))
  in
  let rem =
    Z.modulo secs_of_day (Zpos (XO (XO (XO (XO (XI (XO (XO (XO (XO (XI (XI
      XH))))))))))))
  in
  let min = Z.div rem (Zpos (XO (XO (XI (XI (XI XH)))))) in
  let sec = Z.modulo rem (Zpos (XO (XO (XI (XI (XI XH)))))) in
  app
    (bs (String ((Ascii (false, false, true, false, false, true, true,
      false)), (String ((Ascii (true, false, false, false, false, true, true,
      false)), (String ((Ascii (false, false, true, false, true, true, true,
      false)), (String ((Ascii (true, false, true, false, false, true, true,
      false)), (String ((Ascii (false, true, false, true, true, true, false,
      false)), (String ((Ascii (false, false, false, false, false, true,
      false, false)), EmptyString)))))))))))))
    (app (slice3 wDAY_STRS woff)
      (app
        (bs (String ((Ascii (false, false, true, true, false, true, false,
          false)), (String ((Ascii (false, false, false, false, false, true,
          false, false)), EmptyString)))))
        (app (write_2d mday)
          (app
            (bs (String ((Ascii (false, false, false, false, false, true,
              false, false)), EmptyString)))
            (app (slice3 mON_STRS moff)
              (app
                (bs (String ((Ascii (false, false, false, false, false, true,
                  false, false)), EmptyString)))
                (app (write_4d year)
                  (app
                    (bs (String ((Ascii (false, false, false, false, false,
                      true, false, false)), EmptyString)))
                    (app (write_2d hour)
                      (app
                        (bs (String ((Ascii (false, true, false, true, true,
                          true, false, false)), EmptyString)))
                        (app (write_2d min)
                          (app
                            (bs (String ((Ascii (false, true, false, true,
                              true, true, false, false)), EmptyString)))
                            (app (write_2d sec)
                              (app
                                (bs (String ((Ascii (false, false, false,
                                  false, false, true, false, false)), (String
                                  ((Ascii (true, true, true, false, false,
                                  false, true, false)), (String ((Ascii
                                  (true, false, true, true, false, false,
                                  true, false)), (String ((Ascii (false,
                                  false, true, false, true, false, true,
                                  false)), EmptyString)))))))))
                                (X0d :: (X0a :: []))))))))))))))))

(** val i64_MIN : z **)

let i64_MIN =
  Z.opp (Z.pow (Zpos (XO XH)) (Zpos (XI (XI (XI (XI (XI XH)))))))

(** val hEADER_TEMPLATE : bytes **)

let hEADER_TEMPLATE =
  app
    (bs (String ((Ascii (false, false, true, false, false, true, true,
      false)), (String ((Ascii (true, false, false, false, false, true, true,
      false)), (String ((Ascii (false, false, true, false, true, true, true,
      false)), (String ((Ascii (true, false, true, false, false, true, true,
      false)), (String ((Ascii (false, true, false, true, true, true, false,
      false)), (String ((Ascii (false, false, false, false, false, true,
      false, false)), (String ((Ascii (true, false, true, true, false, false,
      true, false)), (String ((Ascii (true, true, true, true, false, true,
      true, false)), (String ((Ascii (false, true, true, true, false, true,
      true, false)), (String ((Ascii (false, false, true, true, false, true,
      false, false)), (String ((Ascii (false, false, false, false, false,
      true, false, false)), (String ((Ascii (false, false, false, false,
      true, true, false, false)), (String ((Ascii (false, false, false,
      false, true, true, false, false)), (String ((Ascii (false, false,
      false, false, false, true, false, false)), (String ((Ascii (false,
      true, false, true, false, false, true, false)), (String ((Ascii (true,
      false, false, false, false, true, true, false)), (String ((Ascii
      (false, true, true, true, false, true, true, false)), (String ((Ascii
      (false, false, false, false, false, true, false, false)), (String
      ((Ascii (false, false, false, false, true, true, false, false)),
      (String ((Ascii (false, false, false, false, true, true, false,
      false)), (String ((Ascii (false, false, false, false, true, true,
      false, false)), (String ((Ascii (false, false, false, false, true,
      true, false, false)), (String ((Ascii (false, false, false, false,
      false, true, false, false)), (String ((Ascii (false, false, false,
      false, true, true, false, false)), (String ((Ascii (false, false,
      false, false, true, true, false, false)), (String ((Ascii (false, true,
      false, true, true, true, false, false)), (String ((Ascii (false, false,
      false, false, true, true, false, false)), (String ((Ascii (false,
      false, false, false, true, true, false, false)), (String ((Ascii
      (false, true, false, true, true, true, false, false)), (String ((Ascii
      (false, false, false, false, true, true, false, false)), (String
      ((Ascii (false, false, false, false, true, true, false, false)),
      (String ((Ascii (false, false, false, false, false, true, false,
      false)), (String ((Ascii (true, true, true, false, false, false, true,
      false)), (String ((Ascii (true, false, true, true, false, false, true,
      false)), (String ((Ascii (false, false, true, false, true, false, true,
      false)),
      EmptyString)))))))))))))))))))))))))))))))))))))))))))))))))))))))))))))))))))))))
    (X0d :: (X0a :: []))

type cache = bytes * z

(** val cache_init : cache **)

let cache_init =
  (hEADER_TEMPLATE, i64_MIN)

(** val get_date_now : cache -> z -> cache * bytes **)

let get_date_now c now =
  let (buf, last) = c in
  if Z.eqb last now
  then (c, buf)
  else let b = format_http_date now in ((b, now), b)

(** val cache_run : cache -> z list -> bytes list **)

let rec cache_run c = function
| [] -> []
| t :: r -> let (c', out) = get_date_now c t in out :: (cache_run c' r)
