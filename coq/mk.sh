#!/bin/sh
# regenerate _CoqProject / Makefile.coq from the .v files present, then build the given targets
cd "$(dirname "$0")"
{ echo "-Q . KV"; echo "-arg -w -arg -notation-overridden,-deprecated-syntactic-definition,-deprecated-hint-without-locality"; find Lib Model Spec Proofs Properties Extract -name '*.v' | sort; } > _CoqProject.new
if ! cmp -s _CoqProject.new _CoqProject || [ ! -f Makefile.coq ]; then mv _CoqProject.new _CoqProject; coq_makefile -f _CoqProject -o Makefile.coq >/dev/null; else rm _CoqProject.new; fi
exec make -f Makefile.coq -j16 "$@"
