(* Model of /repo/src/http/headers.rs: the Headers collection with its cached facts
   (content_length, chunked, connection_close).  Names are &str in Rust; here byte lists.
   No proofs in this file. *)
From KV Require Import Lib.Bytes.

Record headers := {
  stored : list (bytes * bytes);        (* the Vec<(name, value)> *)
  content_length : option N;
  chunked : bool;
  connection_close : bool;
  print_date : bool;
}.

Definition new_headers : headers :=
  {| stored := []; content_length := None; chunked := false; connection_close := false; print_date := true |}.
Definition new_nodate : headers :=
  {| stored := []; content_length := None; chunked := false; connection_close := false; print_date := false |}.

Definition CONTENT_LENGTH := bs "content-length".
Definition TRANSFER_ENCODING := bs "transfer-encoding".
Definition CONNECTION := bs "connection".

(* trim_ows: strip SP / HTAB at both ends *)
Definition trim_ows (v : bytes) : bytes := trim_both is_ows v.

(* parse_content_length: OWS-trimmed 1*DIGIT that fits u64 *)
Definition U64_MAX : N := 18446744073709551615.
Fixpoint parse_digits (acc : N) (l : bytes) : option N :=
  match l with
  | [] => Some acc
  | b :: r => if is_digit b
              then let acc' := (acc * 10 + (b2n b - 48))%N in
                   if (acc' <=? U64_MAX)%N then parse_digits acc' r else None   (* checked_mul / checked_add *)
              else None
  end.
Definition parse_content_length (v : bytes) : option N :=
  match trim_ows v with
  | [] => None
  | d => parse_digits 0 d
  end.

(* `for v in value.split(',').map(trim_ows) { if v.eq_ignore_ascii_case(tok) { flag = true; break } }` *)
Definition has_token_loop (tok value : bytes) : bool :=
  existsb (fun v => eq_ic (trim_ows v) tok) (split_on x2c value).

Definition add (h : headers) (name value : bytes) : headers :=
  if eq_ic name CONTENT_LENGTH then
    {| stored := stored h; content_length := parse_content_length value; chunked := chunked h;
       connection_close := connection_close h; print_date := print_date h |}
  else if eq_ic name TRANSFER_ENCODING then
    {| stored := stored h ++ [(name, value)]; content_length := content_length h;
       chunked := chunked h || has_token_loop (bs "chunked") value;
       connection_close := connection_close h; print_date := print_date h |}
  else if eq_ic name CONNECTION then
    {| stored := stored h ++ [(name, value)]; content_length := content_length h; chunked := chunked h;
       connection_close := connection_close h || has_token_loop (bs "close") value; print_date := print_date h |}
  else
    {| stored := stored h ++ [(name, value)]; content_length := content_length h; chunked := chunked h;
       connection_close := connection_close h; print_date := print_date h |}.

Definition remove (h : headers) (name : bytes) : headers :=
  let st := filter (fun kv => negb (eq_ic (fst kv) name)) (stored h) in
  if eq_ic name CONTENT_LENGTH then
    {| stored := st; content_length := None; chunked := chunked h; connection_close := connection_close h; print_date := print_date h |}
  else if eq_ic name TRANSFER_ENCODING then
    {| stored := st; content_length := content_length h; chunked := false; connection_close := connection_close h; print_date := print_date h |}
  else if eq_ic name CONNECTION then
    {| stored := st; content_length := content_length h; chunked := chunked h; connection_close := false; print_date := print_date h |}
  else
    {| stored := st; content_length := content_length h; chunked := chunked h; connection_close := connection_close h; print_date := print_date h |}.

Definition replace (h : headers) (name value : bytes) : headers := add (remove h name) name value.

Definition set_content_length (h : headers) (len : option N) : headers :=
  {| stored := stored h; content_length := len; chunked := chunked h; connection_close := connection_close h; print_date := print_date h |}.

(* idempotent (fix F36): already declared, by an earlier call or by an added field *)
Definition set_transfer_encoding_chunked (h : headers) : headers :=
  if chunked h then h else
  {| stored := stored h ++ [(TRANSFER_ENCODING, bs "chunked")]; content_length := content_length h; chunked := true;
     connection_close := connection_close h; print_date := print_date h |}.

Definition set_connection_close (h : headers) : headers :=
  {| stored := stored h ++ [(CONNECTION, bs "close")]; content_length := content_length h; chunked := chunked h;
     connection_close := true; print_date := print_date h |}.

(* getters *)
Definition get (h : headers) (name : bytes) : option bytes :=
  match find (fun kv => eq_ic (fst kv) name) (rev (stored h)) with
  | Some kv => Some (snd kv)
  | None => None
  end.
Definition get_all (h : headers) (name : bytes) : list (bytes * bytes) :=
  filter (fun kv => eq_ic (fst kv) name) (stored h).
Definition get_count (h : headers) : nat := length (stored h).
(* get_transfer_encoding / get_connection_values: all tokens, comma-split, trimmed *)
Definition token_values (h : headers) (name : bytes) : list bytes :=
  flat_map (fun kv => map trim_ows (split_on x2c (snd kv))) (get_all h name).

Inductive hop :=
| OAdd (n v : bytes) | OReplace (n v : bytes) | ORemove (n : bytes)
| OSetCL (len : option N) | OSetChunked | OSetClose.

Definition hstep (h : headers) (o : hop) : headers :=
  match o with
  | OAdd n v => add h n v
  | OReplace n v => replace h n v
  | ORemove n => remove h n
  | OSetCL l => set_content_length h l
  | OSetChunked => set_transfer_encoding_chunked h
  | OSetClose => set_connection_close h
  end.

Definition hrun (ops : list hop) : headers := fold_left hstep ops new_headers.
