(* Model of /repo/src/date.rs: format_http_date, get_date_from_secs, and the per-thread cache of
   get_date_now.  Written line by line after the Rust code; i64 arithmetic is unbounded Z (the theorem
   states the range), `as u8`/`as u16` casts are explicit mod. No proofs in this file. *)
From KV Require Import Lib.Bytes.
Local Open Scope Z_scope.

Definition SECS_PER_DAY := 86400.
Definition LEAPOCH := 11017.
Definition DAYS_PER_400Y := 365 * 400 + 97.
Definition DAYS_PER_100Y := 365 * 100 + 24.
Definition DAYS_PER_4Y := 365 * 4 + 1.

Definition MONTHS : list Z := [31; 30; 31; 30; 31; 31; 30; 31; 30; 31; 31; 29].

(* the `while mon_idx < 12` loop *)
Fixpoint walk (ms : list Z) (rd : Z) (idx : Z) : Z * Z :=
  match ms with
  | [] => (idx, rd)
  | ml :: r => if rd <? ml then (idx, rd) else walk r (rd - ml) (idx + 1)
  end.

(* calendar part: days since 1970-01-01 -> (year, mon 1..12, mday, wday 1..7 (Mon=1)) *)
Definition civil (days : Z) : Z * Z * Z * Z :=
  let days_total := days - LEAPOCH in
  let wday0 := (3 + days_total) mod 7 in
  let wday := if wday0 <=? 0 then wday0 + 7 else wday0 in
  let qc_cycles := days_total / DAYS_PER_400Y in
  let remdays := days_total mod DAYS_PER_400Y in
  let c0 := remdays / DAYS_PER_100Y in
  let c_cycles := if c0 =? 4 then c0 - 1 else c0 in
  let remdays := remdays - c_cycles * DAYS_PER_100Y in
  let q0 := remdays / DAYS_PER_4Y in
  let q_cycles := if q0 =? 25 then q0 - 1 else q0 in
  let remdays := remdays - q_cycles * DAYS_PER_4Y in
  let y0 := remdays / 365 in
  let remyears := if y0 =? 4 then y0 - 1 else y0 in
  let remdays := remdays - remyears * 365 in
  let year := 2000 + remyears + 4 * q_cycles + 100 * c_cycles + 400 * qc_cycles in
  let '(mon_idx, rd) := walk MONTHS remdays 0 in
  let mday := rd + 1 in
  let mon := mon_idx + 3 in
  if mon >? 12 then (year + 1, mon - 12, mday, wday) else (year, mon, mday, wday).

Definition WDAY_STRS : bytes := bs "MonTueWedThuFriSatSun".
Definition MON_STRS : bytes := bs "JanFebMarAprMayJunJulAugSepOctNovDec".

Definition slice3 (l : bytes) (off : Z) : bytes := firstn 3 (skipn (Z.to_nat off) l).

(* write_2d on a u8 *)
Definition write_2d (v : Z) : bytes :=
  let v := v mod 256 in [z2b (48 + v / 10); z2b (48 + v mod 10)].
(* write_4d on a u16 *)
Definition write_4d (v : Z) : bytes :=
  let v := v mod 65536 in
  [z2b (48 + (v / 1000) mod 256); z2b (48 + (v / 100 mod 10)); z2b (48 + (v / 10 mod 10)); z2b (48 + v mod 10)].

(* the 37 bytes of the buffer after format_http_date(buf = HEADER_TEMPLATE, secs) *)
Definition format_http_date (secs : Z) : bytes :=
  let days := secs / SECS_PER_DAY in
  let secs_of_day := secs mod SECS_PER_DAY in
  let '(year, mon, mday, wday) := civil days in
  let woff := (wday - 1) * 3 in
  let moff := (mon - 1) * 3 in
  let hour := secs_of_day / 3600 in
  let rem := secs_of_day mod 3600 in
  let min := rem / 60 in
  let sec := rem mod 60 in
  bs "date: " ++ slice3 WDAY_STRS woff ++ bs ", " ++ write_2d mday ++ bs " " ++
  slice3 MON_STRS moff ++ bs " " ++ write_4d year ++ bs " " ++
  write_2d hour ++ bs ":" ++ write_2d min ++ bs ":" ++ write_2d sec ++ bs " GMT" ++ [x0d; x0a].

(* DATE_CACHE: (buf, last_sec); i64::MIN forces the first update *)
Definition I64_MIN := - 2 ^ 63.
Definition HEADER_TEMPLATE : bytes := bs "date: Mon, 00 Jan 0000 00:00:00 GMT" ++ [x0d; x0a].
Definition cache := (bytes * Z)%type.
Definition cache_init : cache := (HEADER_TEMPLATE, I64_MIN).

(* one call of get_date_now with clock reading [now]: new cache and the returned buffer *)
Definition get_date_now (c : cache) (now : Z) : cache * bytes :=
  let '(buf, last) := c in
  if last =? now then (c, buf)
  else let b := format_http_date now in ((b, now), b).

(* all outputs for a sequence of clock readings on one thread *)
Fixpoint cache_run (c : cache) (readings : list Z) : list bytes :=
  match readings with
  | [] => []
  | t :: r => let '(c', out) := get_date_now c t in out :: cache_run c' r
  end.
