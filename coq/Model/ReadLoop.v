(* The receiver's read loop: bytes arrive in segments, and after every segment the whole prefix
   received so far is parsed again (read_request in src/server/mod.rs, read_response in
   src/client.rs).  This file has the unbounded loop used by C03; the buffer limit is added in
   Model/Server.v. *)
From KV Require Import Lib.Bytes Model.Headers Model.Parser.

Inductive verdict (A : Type) := VAccept (a : A) | VReject | VIncomplete.
Arguments VAccept {A} a.
Arguments VReject {A}.
Arguments VIncomplete {A}.

Definition verdict_of {A} (r : res A) : verdict A :=
  match r with
  | Ok a => VAccept a
  | Err EEof => VIncomplete
  | Err _ => VReject
  | Fault _ => VReject
  end.

(* parse after every segment; stop at the first verdict other than "incomplete" *)
Fixpoint reparse {A} (parse : bytes -> res A) (acc : bytes) (segs : list bytes) : verdict A :=
  match segs with
  | [] => VIncomplete
  | g :: rest =>
      match verdict_of (parse (acc ++ g)) with
      | VIncomplete => reparse parse (acc ++ g) rest
      | v => v
      end
  end.

Definition final_request_verdict (segs : list bytes) : verdict request := reparse parse_request [] segs.
Definition final_response_verdict (segs : list bytes) : verdict response := reparse parse_response [] segs.
