(* Model of /repo/src/printer.rs: the four response entry points (write_response_empty,
   write_response_bytes, write_response with a reader) and write_request, with
   decide_body_strategy / probe_body / write_vectored_bytes / write_chunk / write_chunked.
   Environment, explicit: the Date line is a parameter; a body reader is the list of pieces its
   successive read() calls can deliver (a read returns at most one piece); a writer accepts a
   prefix of what a vectored write offers.  BufWriter and write_all deliver bytes in order.
   No proofs in this file. *)
From KV Require Import Lib.Bytes Model.Headers.

Definition CRLF : bytes := [x0d; x0a].

(* ---------------------------------------------------------------- numbers *)
Definition digit (n : N) : byte := n2b (48 + n mod 10).
(* u16_to_ascii: three digits and a space (meaningful for 100..999) *)
Definition u16_to_ascii (n : N) : bytes :=
  [n2b (48 + (n / 100) mod 256); n2b (48 + (n / 10) mod 10); n2b (48 + n mod 10); x20].
(* u64_to_ascii_buf: decimal, no padding *)
Fixpoint dec_digits (fuel : nat) (n : N) (acc : bytes) : bytes :=
  match fuel with
  | O => acc
  | S f => if N.eqb n 0 then acc else dec_digits f (n / 10) (digit n :: acc)
  end.
Definition u64_to_ascii (n : N) : bytes := if N.eqb n 0 then [x30] else dec_digits 20 n [].
(* format!("{:X}") *)
Definition hexdigit_upper (d : N) : byte := if (d <? 10)%N then n2b (48 + d) else n2b (55 + d).
Fixpoint hex_digits (fuel : nat) (n : N) (acc : bytes) : bytes :=
  match fuel with
  | O => acc
  | S f => if N.eqb n 0 then acc else hex_digits f (n / 16) (hexdigit_upper (n mod 16) :: acc)
  end.
Definition hex_upper (n : N) : bytes := if N.eqb n 0 then [x30] else hex_digits 16 n [].

(* ---------------------------------------------------------------- head *)
Definition status_line (code : N) (reason : bytes) : bytes :=
  bs "HTTP/1.1 " ++ u16_to_ascii code ++ reason ++ CRLF.

Definition header_lines (h : headers) : bytes :=
  flat_map (fun nv => fst nv ++ bs ": " ++ snd nv ++ CRLF) (stored h).

(* the user's fields, then the Date line when the collection asks for one *)
Definition head_fields (h : headers) (date : bytes) : bytes :=
  header_lines h ++ (if print_date h then date else []).

Definition content_length_header (n : N) : bytes := bs "content-length: " ++ u64_to_ascii n.

(* write_chunk *)
Definition chunk (data : bytes) : bytes :=
  hex_upper (N.of_nat (length data)) ++ CRLF ++ data ++ CRLF.
Definition LAST_CHUNK : bytes := bs "0" ++ CRLF ++ CRLF.

(* ---------------------------------------------------------------- writers *)
(* write_vectored_bytes: body < 2048 is copied behind the head and written at once; otherwise one
   vectored write that accepts n bytes, then the remainder with write_all *)
Definition INLINE_COPY_MAX : nat := 2048.
Definition write_vectored_bytes (head body : bytes) (accepted : nat) : bytes :=
  if Nat.ltb (length body) INLINE_COPY_MAX then head ++ body
  else
    let n := Nat.min accepted (length head + length body) in
    firstn n (head ++ body) ++
    (if Nat.ltb n (length head) then skipn n head ++ body else skipn (n - length head) body).

(* ---------------------------------------------------------------- readers *)
Definition reader := list bytes.         (* pieces still to come; [] = EOF *)
(* read(buf of length k) *)
Fixpoint rd (k : nat) (r : reader) : bytes * reader :=
  match r with
  | [] => ([], [])
  | [] :: rest => rd k rest
  | p :: rest => match skipn k p with
                 | [] => (firstn k p, rest)
                 | p' => (firstn k p, p' :: rest)
                 end
  end.

(* Read::take(cl).read_to_end: everything up to cl bytes *)
Fixpoint take_all (fuel : nat) (limit : nat) (r : reader) (acc : bytes) : bytes * reader :=
  match fuel with
  | O => (acc, r)
  | S f =>
      if Nat.eqb limit 0 then (acc, r)
      else let '(out, r') := rd limit r in
           match out with
           | [] => (acc, r')
           | _ => take_all f (limit - length out) r' (acc ++ out)
           end
  end.

Definition PROBE_MAX : nat := N.to_nat 8192.
(* probe_body: collect up to PROBE_MAX bytes; true = the reader ended (complete) *)
Fixpoint probe_body (fuel : nat) (r : reader) (acc : bytes) : bytes * bool * reader :=
  match fuel with
  | O => (acc, false, r)
  | S f =>
      if Nat.leb PROBE_MAX (length acc) then (acc, false, r)
      else let '(out, r') := rd (PROBE_MAX - length acc) r in
           match out with
           | [] => (acc, true, r')
           | _ => probe_body f r' (acc ++ out)
           end
  end.

Definition CHUNK_BUF : nat := N.to_nat 131072.
(* write_chunked: one chunk per read of up to 128 KiB, then the terminating chunk *)
Fixpoint write_chunked (fuel : nat) (r : reader) : bytes :=
  match fuel with
  | O => LAST_CHUNK
  | S f => let '(out, r') := rd CHUNK_BUF r in
           match out with
           | [] => LAST_CHUNK
           | _ => chunk out ++ write_chunked f r'
           end
  end.

Definition reader_fuel (r : reader) : nat := S (length r + length (concat r)).

(* ---------------------------------------------------------------- entry points *)
Inductive wres := WOk (out : bytes) | WErr (out : bytes).   (* bytes written; Err = io::Error returned *)

Definition write_response_empty (code : N) (reason : bytes) (h : headers) (date : bytes) : wres :=
  WOk (status_line code reason ++ head_fields h date ++
       (if chunked h then CRLF ++ LAST_CHUNK else bs "content-length: 0" ++ CRLF ++ CRLF)).

Definition write_response_bytes (code : N) (reason : bytes) (h : headers) (date : bytes)
           (body : bytes) (accepted : nat) : wres :=
  let head := status_line code reason ++ head_fields h date in
  if chunked h then
    WOk (head ++ CRLF ++ (match body with [] => [] | _ => chunk body end) ++ LAST_CHUNK)
  else
    WOk (write_vectored_bytes (head ++ content_length_header (N.of_nat (length body)) ++ CRLF ++ CRLF) body accepted).

(* the body part shared by write_response and write_request *)
Definition with_body (start : bytes) (h : headers) (date : bytes) (r : reader) (accepted : nat) : wres :=
  let fields := head_fields h date in
  if chunked h then
    WOk (start ++ fields ++ CRLF ++ write_chunked (reader_fuel r) r)
  else
    match content_length h with
    | Some cl =>
        if (cl <=? N.of_nat PROBE_MAX)%N then
          let '(buf, _) := take_all (reader_fuel r) (N.to_nat cl) r [] in
          (* fix F35: a reader that ends before the declared length is an error; nothing has been written yet *)
          if N.eqb (N.of_nat (length buf)) cl
          then WOk (write_vectored_bytes (start ++ fields ++ content_length_header cl ++ CRLF ++ CRLF) buf accepted)
          else WErr []
        else
          (* Streaming: exactly cl bytes are copied; a shorter reader is an error *)
          let head := start ++ fields ++ content_length_header cl ++ CRLF ++ CRLF in
          let '(data, _) := take_all (reader_fuel r) (N.to_nat cl) r [] in
          if N.eqb (N.of_nat (length data)) cl then WOk (head ++ data) else WErr (head ++ data)
    | None =>
        let '(prefix, complete, r') := probe_body (reader_fuel r) r [] in
        if complete then
          WOk (write_vectored_bytes (start ++ fields ++ content_length_header (N.of_nat (length prefix)) ++ CRLF ++ CRLF) prefix accepted)
        else
          WOk (start ++ fields ++ bs "transfer-encoding: chunked" ++ CRLF ++ CRLF ++ chunk prefix ++ write_chunked (reader_fuel r') r')
    end.

Definition write_response (code : N) (reason : bytes) (h : headers) (date : bytes) (r : reader) (accepted : nat) : wres :=
  with_body (status_line code reason) h date r accepted.

Definition write_request (method uri : bytes) (h : headers) (date : bytes) (r : reader) (accepted : nat) : wres :=
  with_body (method ++ [x20] ++ uri ++ [x20] ++ bs "HTTP/1.1" ++ CRLF) h date r accepted.
