(* Model of /repo/src/router.rs (RouterBuilder::add_route/build, Router::match_route) and of
   Method::index bucketing.  Handlers are numbers.  Strings are byte lists (the code splits on the
   ASCII byte '/', which is the same on UTF-8 text).  No proofs in this file. *)
From KV Require Import Lib.Bytes.

Inductive seg := Lit (s : bytes) | Param (name : bytes) | Wild | DWild.

(* enum Precedence { DoubleWildcard = 0, Wildcard = 1, Param = 2, Literal = 3 } *)
Inductive prec := PDW | PW | PP | PL.
Definition prec_rank (p : prec) : nat := match p with PDW => 0 | PW => 1 | PP => 2 | PL => 3 end.
Definition prec_eqb (a b : prec) : bool := Nat.eqb (prec_rank a) (prec_rank b).
Definition prec_gtb (a b : prec) : bool := Nat.ltb (prec_rank b) (prec_rank a).

Record pattern := { segs : list seg; last_prec : prec }.

Definition precedence_of (last : option seg) : prec :=
  match last with
  | Some (Lit _) => PL | Some (Param _) => PP | Some Wild => PW | Some DWild => PDW | None => PDW
  end.

Definition parse_route_segment (s : bytes) : seg :=
  if bytes_eqb s [x2a] then Wild
  else if bytes_eqb s [x2a; x2a] then DWild
  else match s with
       | x3a :: r => Param r
       | _ => Lit s
       end.

Definition strip_slash (s : bytes) : bytes :=
  match s with x2f :: r => r | _ => s end.

Definition last_opt {A} (l : list A) : option A :=
  match rev l with [] => None | x :: _ => Some x end.

(* parse_route: (normalized path, pattern) *)
Definition parse_route (route_str : bytes) : bytes * pattern :=
  let norm := strip_slash route_str in
  let pat := map parse_route_segment (split_on x2f norm) in
  (norm, {| segs := pat; last_prec := precedence_of (last_opt pat) |}).

(* impl PartialEq for RouteSegment: parameter names are ignored *)
Definition seg_eqb (a b : seg) : bool :=
  match a, b with
  | Lit x, Lit y => bytes_eqb x y
  | Param _, Param _ => true
  | Wild, Wild => true
  | DWild, DWild => true
  | _, _ => false
  end.
Fixpoint segs_eqb (a b : list seg) : bool :=
  match a, b with
  | [], [] => true
  | x :: a', y :: b' => seg_eqb x y && segs_eqb a' b'
  | _, _ => false
  end.
(* #[derive(PartialEq)] on RoutePattern *)
Definition pattern_eqb (a b : pattern) : bool :=
  segs_eqb (segs a) (segs b) && prec_eqb (last_prec a) (last_prec b).

Definition is_lit (s : seg) : bool := match s with Lit _ => true | _ => false end.

Record bucket := { literals : list (bytes * N); patterns : list (pattern * N) }.
Definition empty_bucket : bucket := {| literals := []; patterns := [] |}.

(* MethodBucket::add_route *)
Definition add_route (b : bucket) (path : bytes) (h : N) : bucket :=
  let '(norm, entry) := parse_route path in
  if forallb is_lit (segs entry) then
    {| literals := filter (fun kv => negb (bytes_eqb (fst kv) norm)) (literals b) ++ [(norm, h)];
       patterns := patterns b |}
  else
    {| literals := literals b;
       patterns := filter (fun kv => negb (pattern_eqb (fst kv) entry)) (patterns b) ++ [(entry, h)] |}.

(* Method: the eight standard methods by Method::index, or an extension method by name *)
Inductive meth := Std (i : N) | Custom (name : bytes).
Definition meth_eqb (a b : meth) : bool :=
  match a, b with
  | Std i, Std j => N.eqb i j
  | Custom x, Custom y => bytes_eqb x y
  | _, _ => false
  end.

(* a router = the sequence of RouterBuilder::add_route calls *)
Definition table := list (meth * bytes * N).

Definition bucket_of (t : table) (m : meth) : bucket :=
  fold_left (fun b r => let '(m', path, h) := r in if meth_eqb m' m then add_route b path h else b)
            t empty_bucket.

(* find_literal after finalize: sort_unstable_by + binary_search_by_key over unique keys finds the
   key iff it is present (std contract, exercised by the correspondence stream). *)
Definition find_literal (b : bucket) (norm_path : bytes) : option N :=
  match find (fun kv => bytes_eqb (fst kv) norm_path) (literals b) with
  | Some kv => Some (snd kv)
  | None => None
  end.

Definition params := list (bytes * bytes).

(* the inner `for seg_part in pattern.iter()` loop: Some (lml, params, unconsumed uri parts) when
   ok stays true, None when ok becomes false *)
Fixpoint scan (pat : list seg) (us : list bytes) (lml : nat) (counting : bool) (ps : params)
  : option (nat * params * list bytes) :=
  match pat with
  | [] => Some (lml, ps, us)
  | sg :: pat' =>
      let uri_part := match us with [] => None | u :: _ => Some u end in
      let us' := match us with [] => [] | _ :: r => r end in
      match sg with
      | DWild => Some (lml, ps, us')
      | Wild => match uri_part with
                | None => None
                | Some _ => scan pat' us' lml false ps
                end
      | Param n => match uri_part with
                   | None => None
                   | Some v => scan pat' us' lml false (ps ++ [(n, v)])
                   end
      | Lit l => match uri_part with
                 | None => None
                 | Some v => if bytes_eqb l v
                             then scan pat' us' (if counting then S lml else lml) counting ps
                             else None
                 end
      end
  end.

(* one candidate: Some (lml, params) if it matches *)
Definition try_pattern (p : pattern) (us : list bytes) : option (nat * params) :=
  match scan (segs p) us 0 true [] with
  | None => None
  | Some (lml, ps, rest) =>
      match rest with
      | [] => Some (lml, ps)
      | _ :: _ => if prec_eqb (last_prec p) PDW then Some (lml, ps) else None
      end
  end.

Inductive rres := Found (h : N) (ps : params) | Fallback.

(* best so far: None, or (lml, prec, handler, params); best_lml starts at -1 so the first match wins *)
Definition best := option (nat * prec * N * params).

Definition better (lml : nat) (pr : prec) (b : best) : bool :=
  match b with
  | None => true
  | Some (blml, bprec, _, _) => Nat.ltb blml lml || (Nat.eqb lml blml && prec_gtb pr bprec)
  end.

Definition step_pattern (us : list bytes) (b : best) (cand : pattern * N) : best :=
  let '(p, h) := cand in
  match try_pattern p us with
  | None => b
  | Some (lml, ps) => if better lml (last_prec p) b then Some (lml, last_prec p, h, ps) else b
  end.

(* Router::match_route *)
Definition match_route (t : table) (m : meth) (uri : bytes) : rres :=
  let uri := strip_slash uri in
  let b := bucket_of t m in
  match find_literal b uri with
  | Some h => Found h []
  | None =>
      match fold_left (step_pattern (split_on x2f uri)) (patterns b) None with
      | Some (_, _, h, ps) => Found h ps
      | None => Fallback
      end
  end.
