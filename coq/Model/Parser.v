(* Model of /repo/src/parser/{mod,request,response,simd}.rs and /repo/src/http/request_uri.rs in
   *checked semantics*: slices of the input buffer are list suffixes; every place where the Rust code
   indexes, slices, subtracts usizes, calls from_utf8_unchecked or reads 8 bytes unaligned yields a
   distinguished [Fault] where Rust would panic, read outside the slice or build a non-ASCII &str.
   "The parser is total and memory safe" is then the theorem "the result is never a Fault".
   The SWAR scanners are modelled at word level (Lib/Swar.v).  No proofs in this file. *)
From KV Require Import Lib.Bytes Lib.Swar Model.Headers.

Inductive perr := EVersion | EStatus | EHeader | EEof.   (* HttpParsingError, IOError never arises here *)
Inductive fault := FOob | FStr | FFuel.
Inductive res (A : Type) := Ok (a : A) | Err (e : perr) | Fault (f : fault).
Arguments Ok {A} a.
Arguments Err {A} e.
Arguments Fault {A} f.

Definition bind {A B} (r : res A) (k : A -> res B) : res B :=
  match r with Ok a => k a | Err e => Err e | Fault f => Fault f end.
Notation "x <- e ;; k" := (bind e (fun x => k)) (at level 61, e at next level, right associativity).
Notation "' p <- e ;; k" := (bind e (fun x => let p := x in k))
  (at level 61, p pattern, e at next level, right associativity).

(* core::str::from_utf8_unchecked: sound only on validated bytes; the property demands ASCII *)
Definition str_unchecked (l : bytes) : res bytes := if forallb is_ascii l then Ok l else Fault FStr.

(* ---------------------------------------------------------------- simd.rs *)
Definition zs (l : bytes) : list Z := map b2z l.

(* scalar tail of swar_match_uri_vectored *)
Fixpoint uri_tail (l : bytes) : nat :=
  match l with [] => 0 | b :: r => if is_vchar b then S (uri_tail r) else 0 end.

Fixpoint match_uri_vectored (l : bytes) : nat :=
  match l with
  | a :: b :: c :: d :: e :: f :: g :: h :: rest =>          (* i + BLOCK_SIZE <= len: read_unaligned *)
      let hit := uri_hit 8 (word_of (zs [a; b; c; d; e; f; g; h])) in
      if Z.eqb hit 0 then 8 + match_uri_vectored rest else offsetnz 8 hit
  | _ => uri_tail l
  end.

Definition is_q_or_sp (b : byte) : bool := match b with x3f | x20 => true | _ => false end.
Fixpoint path_tail (l : bytes) : nat :=
  match l with [] => 0 | b :: r => if is_q_or_sp b then 0 else S (path_tail r) end.

Fixpoint match_path_vectored (l : bytes) : nat :=
  match l with
  | a :: b :: c :: d :: e :: f :: g :: h :: rest =>
      let hit := path_hit 8 (word_of (zs [a; b; c; d; e; f; g; h])) in
      if Z.eqb hit 0 then 8 + match_path_vectored rest else offsetnz 8 hit
  | _ => path_tail l
  end.

(* ---------------------------------------------------------------- request.rs *)
Inductive method :=
| MGet | MPost | MHead | MPut | MPatch | MDelete | MOptions | MTrace | MCustom (s : bytes).

Definition method_str (m : method) : bytes :=
  match m with
  | MGet => bs "GET" | MPost => bs "POST" | MHead => bs "HEAD" | MPut => bs "PUT" | MPatch => bs "PATCH"
  | MDelete => bs "DELETE" | MOptions => bs "OPTIONS" | MTrace => bs "TRACE" | MCustom s => s
  end.

Record uri := { full : bytes; p_start : nat; p_end : nat }.

Record request := {
  q_meth : method; q_target : uri; q_version : N; q_hdrs : headers; q_offset : nat
}.

Definition parse_method (buf : bytes) : res (method * bytes) :=
  match strip_prefix (bs "GET ") buf with
  | Some rest => Ok (MGet, rest)
  | None =>
  match strip_prefix (bs "POST ") buf with
  | Some rest => Ok (MPost, rest)
  | None =>
  match find_index (Byte.eqb x20) buf with
  | None => Err EEof
  | Some i =>
      let mb := firstn i buf in
      let rest := skipn (S i) buf in
      if bytes_eqb mb (bs "HEAD") then Ok (MHead, rest)
      else if bytes_eqb mb (bs "PUT") then Ok (MPut, rest)
      else if bytes_eqb mb (bs "PATCH") then Ok (MPatch, rest)
      else if bytes_eqb mb (bs "DELETE") then Ok (MDelete, rest)
      else if bytes_eqb mb (bs "OPTIONS") then Ok (MOptions, rest)
      else if bytes_eqb mb (bs "TRACE") then Ok (MTrace, rest)
      else if (Nat.eqb (length mb) 0) || negb (forallb is_alpha mb) then Err EStatus
      else s <- str_unchecked mb ;; Ok (MCustom s, rest)
  end end end.

(* URI_BYTE_MASK *)
Definition URI_VALID : bytes :=
  bs "ABCDEFGHIJKLMNOPQRSTUVWXYZabcdefghijklmnopqrstuvwxyz0123456789-._~:/?#[]@!$&'()*+,;=%".
Definition is_valid_uri_byte (b : byte) : bool := existsb (Byte.eqb b) URI_VALID.

(* step 2 of parse_uri: the scan for the first '/' that is not part of "://" *)
Inductive scan2 := S2Err | S2Path (i : nat) | S2End (i : nat).
Fixpoint step2 (seen : bool) (l : bytes) (i : nat) {struct l} : scan2 :=
  match l with
  | [] => S2End i
  | b :: r =>
      match b with
      | x3a =>                                   (* ':' *)
          match r with
          | x2f :: x2f :: r' => if seen then step2 seen r (i + 1) else step2 true r' (i + 3)
          | _ => step2 seen r (i + 1)            (* ':' is a valid uri byte *)
          end
      | x2f => S2Path i
      | x20 => S2End i
      | x3f => S2End i
      | _ => if is_valid_uri_byte b then step2 seen r (i + 1) else S2Err
      end
  end.

Definition finish_uri (buf : bytes) (k ps pe : nat) : res (uri * bytes) :=
  u <- str_unchecked (firstn k buf) ;;
  Ok ({| full := u; p_start := ps; p_end := pe |}, skipn (S k) buf).

Definition is_crlf_byte (b : byte) : bool := match b with x0d | x0a => true | _ => false end.

Definition parse_uri (buf : bytes) : res (uri * bytes) :=
  match buf with
  | [] => Err EEof
  | first :: _ =>
    if Byte.eqb first x2a then                   (* '*' asterisk-form *)
      match nth_error buf 1 with
      | Some x20 => Ok ({| full := [x2a]; p_start := 0; p_end := 1 |}, skipn 2 buf)
      | Some _ => Err EStatus
      | None => Err EEof
      end
    else
    match (if Byte.eqb first x2f then S2Path 0 else step2 false buf 0) with
    | S2Err => Err EStatus
    | S2End i =>                                  (* no slash: authority-form, or absolute-form without path *)
        let j := i + match_uri_vectored (skipn i buf) in
        match nth_error buf j with
        | Some x20 => if Nat.eqb j 0 then Err EStatus else finish_uri buf j 0 0     (* empty target *)
        | Some _ => Err EStatus
        | None => Err EEof
        end
    | S2Path ps =>
        let i := ps + match_path_vectored (skipn ps buf) in
        let bad := ps + match_uri_vectored (firstn (i - ps) (skipn ps buf)) in
        if Nat.ltb bad i then
          match nth_error buf bad with
          | Some b => if is_crlf_byte b then Err EVersion else Err EStatus
          | None => Fault FOob
          end
        else
        match nth_error buf i with
        | Some x3f =>
            let i2 := S i + match_uri_vectored (skipn (S i) buf) in
            match nth_error buf i2 with
            | Some x20 => finish_uri buf i2 ps i
            | Some _ => Err EStatus
            | None => Err EEof
            end
        | Some x20 => finish_uri buf i ps i
        | Some _ => Err EStatus
        | None => Err EEof
        end
    end
  end.

(* ---------------------------------------------------------------- mod.rs *)
Definition parse_version (buf : bytes) : res (N * bytes) :=
  match strip_prefix (bs "HTTP/1.") buf with
  | Some rest =>
      match rest with
      | [] => Err EEof
      | x31 :: r => Ok (1%N, r)
      | x30 :: r => Ok (0%N, r)
      | _ :: _ => Err EVersion
      end
  | None => if is_prefix (firstn 7 buf) (bs "HTTP/1.") then Err EEof else Err EVersion
  end.

Definition FIELD_VALID : bytes :=
  bs "!#$%&'*+-.^_`|~ABCDEFGHIJKLMNOPQRSTUVWXYZabcdefghijklmnopqrstuvwxyz0123456789".
Definition is_valid_header_field_byte (b : byte) : bool := existsb (Byte.eqb b) FIELD_VALID.

Definition parse_header_line (line : bytes) : res (bytes * bytes) :=
  match find_index (Byte.eqb x3a) line with
  | None => Err EHeader
  | Some colon =>
      let nm := firstn colon line in
      if (Nat.eqb colon 0) || negb (forallb is_valid_header_field_byte nm) then Err EHeader
      else name <- str_unchecked nm ;;
           Ok (name, trim_start is_ows (skipn (S colon) line))
  end.

(* the `loop` of parse_headers; fuel bounds the number of iterations (each consumes >= 1 byte) *)
Fixpoint parse_headers_f (fuel : nat) (h : headers) (buf : bytes) : res (headers * bytes) :=
  match fuel with
  | O => Fault FFuel
  | S fuel' =>
      match strip_prefix [x0d; x0a] buf with
      | Some rest => Ok (h, rest)
      | None =>
          match find_index (Byte.eqb x0a) buf with
          | None => Err EEof
          | Some nl =>
              (* require CRLF: buf[nl - 1] == '\r' *)
              if Nat.eqb nl 0 then Err EHeader
              else match nth_error buf (nl - 1) with
                   | None => Fault FOob
                   | Some c =>
                     if negb (Byte.eqb c x0d) then Err EHeader
                     else
                       '(name, value) <- parse_header_line (firstn (nl - 1) buf) ;;
                       (* a content-length that is not a number, or contradicts an earlier one *)
                       if eq_ic name CONTENT_LENGTH &&
                          match parse_content_length value, content_length h with
                          | None, _ => true
                          | Some n, Some m => negb (N.eqb n m)
                          | Some _, None => false
                          end
                       then Err EHeader
                       else parse_headers_f fuel' (add h name value) (skipn (S nl) buf)
                   end
          end
      end
  end.
Definition parse_headers (buf : bytes) : res (headers * bytes) :=
  parse_headers_f (S (length buf)) new_headers buf.

(* start - rest.len() *)
Definition offset_of (buf rest : bytes) : res nat :=
  if Nat.leb (length rest) (length buf) then Ok (length buf - length rest) else Fault FOob.

Definition parse_request (buf : bytes) : res request :=
  '(m, r1) <- parse_method buf ;;
  '(u, r2) <- parse_uri r1 ;;
  '(v, r3) <- parse_version r2 ;;
  match r3 with
  | x0d :: x0a :: r4 =>
      '(hs, r5) <- parse_headers r4 ;;
      off <- offset_of buf r5 ;;
      Ok {| q_meth := m; q_target := u; q_version := v; q_hdrs := hs; q_offset := off |}
  | [] => Err EEof
  | [x0d] => Err EEof
  | _ => Err EStatus
  end.

(* ---------------------------------------------------------------- response.rs *)
Record response := {
  r_version : N; r_code : N; r_reason : bytes; r_hdrs : headers; r_offset : nat
}.

Definition digit_at (buf : bytes) (i : nat) : res N :=
  match nth_error buf i with
  | None => Err EEof
  | Some b => if is_digit b then Ok (b2n b - 48)%N else Err EStatus
  end.

Definition is_reason_byte (c : byte) : bool :=
  match c with x09 | x20 => true | _ => is_vchar c end.

(* the `while i + 1 < buf.len()` loop over the reason phrase *)
Fixpoint reason_scan (l : bytes) (i : nat) : res nat :=
  match l with
  | c :: ((d :: _) as r) =>
      if Byte.eqb c x0d && Byte.eqb d x0a then Ok i
      else if is_reason_byte c then reason_scan r (S i) else Err EStatus
  | _ => Err EEof
  end.

Definition parse_response_status (buf : bytes) : res (N * bytes * bytes) :=
  h <- digit_at buf 0 ;; t <- digit_at buf 1 ;; o <- digit_at buf 2 ;;
  match nth_error buf 3 with
  | None => Err EEof
  | Some sp =>
      if negb (Byte.eqb sp x20) then Err EStatus
      else
        let b := skipn 4 buf in
        i <- reason_scan b 0 ;;
        reason <- str_unchecked (firstn i b) ;;
        Ok ((h * 100 + t * 10 + o)%N, reason, skipn (i + 2) b)
  end.

Definition parse_response (buf : bytes) : res response :=
  '(v, r1) <- parse_version buf ;;
  match r1 with
  | [] => Err EEof
  | sp :: r2 =>
      if negb (Byte.eqb sp x20) then Err EStatus
      else
        '(code, reason, r3) <- parse_response_status r2 ;;
        '(hs, r4) <- parse_headers r3 ;;
        off <- offset_of buf r4 ;;
        Ok {| r_version := v; r_code := code; r_reason := reason; r_hdrs := hs; r_offset := off |}
  end.

(* ---------------------------------------------------------------- request_uri.rs *)
(* checked &s[a..b] *)
Definition slice (l : bytes) (a b : nat) : res bytes :=
  if Nat.leb a b && Nat.leb b (length l) then Ok (firstn (b - a) (skipn a l)) else Fault FOob.

(* str::find for a byte pattern *)
Fixpoint find_sub (pat l : bytes) : option nat :=
  if is_prefix pat l then Some 0
  else match l with
       | [] => None
       | _ :: r => option_map S (find_sub pat r)
       end.

Definition SCHEME_SEP : bytes := bs "://".

Definition uri_scheme (u : uri) : res (option bytes) :=
  match find_sub SCHEME_SEP (full u) with
  | Some idx => s <- slice (full u) 0 idx ;; Ok (Some s)
  | None => Ok None
  end.

Definition uri_path (u : uri) : res bytes := slice (full u) (p_start u) (p_end u).

Definition uri_query (u : uri) : res (option bytes) :=
  ps <- slice (full u) (p_end u) (length (full u)) ;;
  match find_index (Byte.eqb x3f) ps with
  | None => Ok None
  | Some q => s <- slice ps (S q) (length ps) ;; Ok (Some s)
  end.

Definition uri_authority (u : uri) : res (option bytes) :=
  match (match find_sub SCHEME_SEP (full u) with
         | Some i => if Nat.eqb (p_start u) 0 || Nat.leb (i + 3) (p_start u) then Some i else None
         | None => None
         end) with
  | Some scheme_i =>
      let start := scheme_i + 3 in
      if Nat.eqb (p_start u) 0 then
        rest <- slice (full u) start (length (full u)) ;;
        match find_index (Byte.eqb x3f) rest with
        | Some i => s <- slice rest 0 i ;; Ok (Some s)
        | None => Ok (Some rest)
        end
      else s <- slice (full u) start (p_start u) ;; Ok (Some s)
  | None =>
      match full u with
      | x2f :: _ => Ok None
      | _ =>
          match find_index (fun b => Byte.eqb b x2f || Byte.eqb b x3f) (full u) with
          | Some i => s <- slice (full u) 0 i ;; Ok (Some s)
          | None => Ok (Some (full u))
          end
      end
  end.

Definition uri_path_and_query (u : uri) : res bytes :=
  if negb (Nat.eqb (p_end u) 0) then slice (full u) (p_start u) (length (full u))
  else
    match find_sub SCHEME_SEP (full u) with
    | Some scheme_i =>
        rest <- slice (full u) (scheme_i + 3) (length (full u)) ;;
        match find_index (Byte.eqb x3f) rest with
        | Some rel_q => slice (full u) (scheme_i + 3 + rel_q) (length (full u))
        | None => Ok []
        end
    | None => Ok []
    end.
