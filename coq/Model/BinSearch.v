(* Model of the literal table of /repo/src/router.rs as the Rust code really runs it:
     MethodBucket::finalize      self.literals.sort_unstable_by(|a, b| a.0.cmp(&b.0))
     MethodBucket::find_literal  self.literals.binary_search_by_key(&norm_path, |(k, _)| k)
   Keys are `String`s; `String::cmp` is `<[u8]>::cmp` on the UTF-8 bytes: bytewise, unsigned,
   lexicographic, a proper prefix is smaller.
   Model/Router.v abstracts both steps into a linear `find`; Proofs/BinSearch.v shows that the
   abstraction is exact.  No proofs in this file. *)
From KV Require Import Lib.Bytes Model.Router.
From Coq Require Import Sorting.Permutation Sorting.Sorted.

(* ------------------------------------------------------------------ *)
(* (a) the order: <u8 as Ord>::cmp and <[u8] as Ord>::cmp               *)
(* ------------------------------------------------------------------ *)

(* u8::cmp: by numeric value 0..255 (unsigned: 0x80.. are larger than all ASCII bytes) *)
Definition byte_cmp (x y : byte) : comparison := N.compare (b2n x) (b2n y).

(* <[u8]>::cmp: compare byte values left to right; when one side runs out, the shorter is smaller *)
Fixpoint bytes_cmp (a b : bytes) : comparison :=
  match a, b with
  | [], [] => Eq
  | [], _ :: _ => Lt
  | _ :: _, [] => Gt
  | x :: a', y :: b' =>
      match byte_cmp x y with
      | Eq => bytes_cmp a' b'
      | c => c
      end
  end.

Definition bytes_lt (a b : bytes) : Prop := bytes_cmp a b = Lt.
Definition bytes_ltb (a b : bytes) : bool := match bytes_cmp a b with Lt => true | _ => false end.

(* ------------------------------------------------------------------ *)
(* (b) binary search                                                   *)
(* ------------------------------------------------------------------ *)

Notation entry := (bytes * N)%type (only parsing).

(* Result<usize, usize>, plus the two ways the model (not the Rust code) could get stuck:
   running out of fuel, and an index outside the array (`get_unchecked` would be UB).
   Proofs/BinSearch.v shows that neither can occur, for any array, sorted or not. *)
Inductive bs_result := BsOk (i : nat) | BsErr (i : nat) | BsOutOfFuel | BsOutOfBounds.

(* core::slice::binary_search_by as of Rust 1.82+ (the toolchain here is 1.95), with
   f = |(k', _)| k'.cmp(k):

     let mut size = self.len();
     if size == 0 { return Err(0); }
     let mut base = 0usize;
     while size > 1 {
         let half = size / 2;
         let mid = base + half;
         let cmp = f(self.get_unchecked(mid));
         base = if cmp == Greater { base } else { mid };
         size -= half;
     }
     let cmp = f(self.get_unchecked(base));
     if cmp == Equal { Ok(base) } else { Err(base + (cmp == Less) as usize) }

   [bs_loop] is the `while` loop followed by the final comparison; one unit of fuel per iteration. *)
Fixpoint bs_loop (fuel : nat) (a : list entry) (k : bytes) (base size : nat) : bs_result :=
  if size <=? 1 then
    match nth_error a base with
    | None => BsOutOfBounds
    | Some kv =>
        match bytes_cmp (fst kv) k with
        | Eq => BsOk base
        | Lt => BsErr (base + 1)
        | Gt => BsErr base
        end
    end
  else
    match fuel with
    | O => BsOutOfFuel
    | S fuel' =>
        let half := size / 2 in
        let mid := base + half in
        match nth_error a mid with
        | None => BsOutOfBounds
        | Some kv =>
            let base' := match bytes_cmp (fst kv) k with Gt => base | _ => mid end in
            bs_loop fuel' a k base' (size - half)
        end
    end.

(* the loop runs exactly ceil(log2 len) times; that is the fuel given *)
Definition bs_fuel (len : nat) : nat := Nat.log2_up len.

Definition binary_search_by_key (a : list entry) (k : bytes) : bs_result :=
  match length a with
  | O => BsErr 0
  | _ => bs_loop (bs_fuel (length a)) a k 0 (length a)
  end.

(* find_literal: Ok(i) => Some(&self.literals[i].1), Err(_) => None.
   (A stuck search is mapped to None here; it does not happen: binary_search_by_key_total.) *)
Definition binary_search (a : list entry) (k : bytes) : option N :=
  match binary_search_by_key a k with
  | BsOk i => option_map snd (nth_error a i)
  | _ => None
  end.

(* core::slice::binary_search_by as of Rust 1.52 .. 1.81 (for older toolchains):

     let mut size = self.len(); let mut left = 0; let mut right = size;
     while left < right {
         let mid = left + size / 2;
         let cmp = f(self.get_unchecked(mid));
         if cmp == Less { left = mid + 1; } else if cmp == Greater { right = mid; }
         else { return Ok(mid); }
         size = right - left;
     }
     Err(left)                                                                              *)
Fixpoint bs_loop_lr (fuel : nat) (a : list entry) (k : bytes) (left right : nat) : bs_result :=
  if right <=? left then BsErr left
  else
    match fuel with
    | O => BsOutOfFuel
    | S fuel' =>
        let mid := left + (right - left) / 2 in
        match nth_error a mid with
        | None => BsOutOfBounds
        | Some kv =>
            match bytes_cmp (fst kv) k with
            | Lt => bs_loop_lr fuel' a k (mid + 1) right
            | Gt => bs_loop_lr fuel' a k left mid
            | Eq => BsOk mid
            end
        end
    end.

(* at most floor(log2 len) + 1 iterations *)
Definition bs_fuel_lr (len : nat) : nat := S (Nat.log2 len).

Definition binary_search_by_key_lr (a : list entry) (k : bytes) : bs_result :=
  bs_loop_lr (bs_fuel_lr (length a)) a k 0 (length a).

Definition binary_search_lr (a : list entry) (k : bytes) : option N :=
  match binary_search_by_key_lr a k with
  | BsOk i => option_map snd (nth_error a i)
  | _ => None
  end.

(* ------------------------------------------------------------------ *)
(* (c) sortedness, sorting as a relation, an executable sort           *)
(* ------------------------------------------------------------------ *)

Definition key_lt (x y : entry) : Prop := bytes_lt (fst x) (fst y).

(* strictly increasing keys (adjacent entries; Proofs/BinSearch.v derives the all-pairs form) *)
Definition sorted_by_key (l : list entry) : Prop := Sorted key_lt l.

(* what sort_unstable_by(|a, b| a.0.cmp(&b.0)) promises: the same entries, in key order.  With
   strict order (no two equal keys) the result is unique: is_sort_of_functional. *)
Definition is_sort_of (l l' : list entry) : Prop := Permutation l l' /\ sorted_by_key l'.

(* insertion sort, to evaluate examples *)
Fixpoint insert_by_key (x : entry) (l : list entry) : list entry :=
  match l with
  | [] => [x]
  | y :: r =>
      match bytes_cmp (fst x) (fst y) with
      | Gt => y :: insert_by_key x r
      | _ => x :: l
      end
  end.

Definition sort_by_key (l : list entry) : list entry := fold_right insert_by_key [] l.

(* the linear lookup that Model/Router.v uses *)
Definition find_assoc (l : list entry) (k : bytes) : option N :=
  option_map snd (find (fun kv => bytes_eqb (fst kv) k) l).

(* ------------------------------------------------------------------ *)
(* the router's literal table as the code runs it                      *)
(* ------------------------------------------------------------------ *)

(* MethodBucket::finalize *)
Definition finalize (b : bucket) : bucket :=
  {| literals := sort_by_key (literals b); patterns := patterns b |}.

(* MethodBucket::find_literal, on a finalized bucket *)
Definition find_literal_bs (b : bucket) (norm_path : bytes) : option N :=
  binary_search (literals b) norm_path.

(* Router::match_route with the literal fast path done by finalize + binary search *)
Definition match_route_bs (t : table) (m : meth) (uri : bytes) : rres :=
  let uri := strip_slash uri in
  let b := finalize (bucket_of t m) in
  match find_literal_bs b uri with
  | Some h => Found h []
  | None =>
      match fold_left (step_pattern (split_on x2f uri)) (patterns b) None with
      | Some (_, _, h, ps) => Found h ps
      | None => Fallback
      end
  end.

(* buckets that registration can produce *)
Inductive reachable_bucket : bucket -> Prop :=
| reach_empty : reachable_bucket empty_bucket
| reach_add b path h : reachable_bucket b -> reachable_bucket (add_route b path h).

(* the invariant registration maintains: literal keys are pairwise distinct *)
Definition literals_unique (b : bucket) : Prop := NoDup (map fst (literals b)).
