(* C20: a ledger of the bytes khttp keeps in buffers while a body streams through it, defined on top
   of the executable models (Model/Printer.v, Model/Body.v), i.e. from the very intermediate values
   those models compute.  No proofs in this file.
   Response side (HttpPrinter::write_response / write_request): the head Vec, the Fast-path / probe
   Vec, the BufWriter (8 KiB), the copy buffer of io::copy (8 KiB) and write_chunked's 128 KiB buffer.
   Request side (BodyReader): the BufReader's buffer (4 KiB) and the String of read_line. *)
From KV Require Import Lib.Bytes Model.Headers Model.Printer Model.Body.

Definition BUFWRITER : nat := N.to_nat 8192.
Definition COPY_BUF : nat := N.to_nat 8192.

(* io::copy(&mut body.take(cl), writer): pieces of at most COPY_BUF bytes; only one piece is held at a time *)
Fixpoint stream_copy (fuel : nat) (limit : nat) (r : reader) : list bytes :=
  match fuel with
  | O => []
  | S f =>
      if Nat.eqb limit 0 then []
      else let '(out, r') := rd (Nat.min limit COPY_BUF) r in
           match out with
           | [] => []
           | _ => out :: stream_copy f (limit - length out) r'
           end
  end.

(* the chunks write_chunked emits: what its 128 KiB buffer holds, one at a time *)
Fixpoint chunk_pieces (fuel : nat) (r : reader) : list bytes :=
  match fuel with
  | O => []
  | S f => let '(out, r') := rd CHUNK_BUF r in
           match out with [] => [] | _ => out :: chunk_pieces f r' end
  end.

Definition max_len (l : list bytes) : nat := fold_right (fun p m => Nat.max (length p) m) 0 l.

(* peak bytes retained by with_body besides the head: Vec buffers + transient copy buffers *)
Definition body_ledger (h : headers) (r : reader) : nat :=
  if Headers.chunked h then BUFWRITER + max_len (chunk_pieces (reader_fuel r) r)
  else
    match content_length h with
    | Some cl =>
        if (cl <=? N.of_nat PROBE_MAX)%N then
          length (fst (take_all (reader_fuel r) (N.to_nat cl) r []))                 (* Fast: the collected Vec *)
        else BUFWRITER + max_len (stream_copy (reader_fuel r) (N.to_nat cl) r)        (* Streaming *)
    | None =>
        let '(prefix, complete, r') := probe_body (reader_fuel r) r [] in
        if complete then length prefix
        else length prefix + BUFWRITER + max_len (chunk_pieces (reader_fuel r') r')   (* AutoChunked *)
    end.

Definition K_BODY : nat := PROBE_MAX + BUFWRITER + CHUNK_BUF.     (* 8192 + 8192 + 131072 *)

(* request side: what a body reader retains between and during calls *)
Definition reader_retained (b : body) : nat := length (bbuf (body_src b)).

(* operations a handler can perform on a body reader *)
Inductive bop := BRead (k : N) | BFill | BConsume (n : N).
Definition bstep (b : body) (o : bop) : body :=
  match o with
  | BRead k => match body_read k b with ROk _ b' => b' | RErr _ b' => b' end
  | BFill => match body_fill_buf b with ROk _ b' => b' | RErr _ b' => b' end
  | BConsume n => body_consume n b
  end.
