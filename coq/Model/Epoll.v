(* Model of /repo/src/server/epoll.rs (serve_epoll's event loop and EpollJob::run) as a labelled
   transition system over: the kernel's epoll interest set with level-triggered readiness, the
   event loop thread, the worker jobs, and the clients.  Labels are the events of hook H3 plus the
   client actions.  Per connection there is one heap record (Handle) and one boxed stream.
   [step] is enabled by control flow and by the environment's semantics only; the SAFETY
   obligations (the record is allocated when it is dereferenced, freed at most once, the stream is
   dropped exactly once, ...) are the separate predicate [safe], so that the theorems
   "every enabled step of every reachable state is safe" are not vacuous.  No proofs in this file. *)
From KV Require Import Lib.Bytes.

Inductive alloc := ALive | AFreed.
Inductive jphase :=
| JQueued            (* pushed to the worker pool, not started *)
| JRunning           (* EpollJob::run: handle_one_request in progress *)
| JDeleted           (* close path: EPOLL_CTL_DEL done *)
| JDropped           (* close path: stream dropped, `closed` not yet stored *)
| JStored.           (* close path: `closed` stored, the record not yet handed back to the loop *)

Record conn := {
  k_rec : alloc;             (* the Handle record *)
  k_stream : bool;           (* the boxed TcpStream is still open *)
  k_registered : bool;       (* fd is in the epoll interest set *)
  k_in_flight : bool;        (* Handle.in_flight *)
  k_closed : bool;           (* Handle.closed *)
  k_pending : nat;           (* complete requests received and not yet taken by a job *)
  k_peer_closed : bool;      (* the client has closed its side *)
  k_jobs : list jphase;      (* jobs for this connection in the pool (queued or executing) *)
  k_in_batch : bool;         (* an event for it is in the batch epoll_wait last returned, not yet looked at *)
  k_grave : bool;            (* in the graveyard: handed back by its worker, not yet freed by the loop (fix F25) *)
  k_answered : nat;          (* requests answered so far *)
  k_taken : list nat;        (* history: for every job that processed a request, the request number it took *)
}.

Inductive elstate := EWaiting | EBatch.
Record estate := { e_conns : list conn; e_loop : elstate }.
Definition ep_init : estate := {| e_conns := []; e_loop := EWaiting |}.

Inductive outcome := OStale | ODispatched | OBusy.

Inductive elabel :=
| LAccept (add_ok : bool)          (* accept + Box Handle + EPOLL_CTL_ADD (false: the ADD failed) *)
| LClientSend (c : nat)            (* the client sends one complete request *)
| LClientClose (c : nat)
| LWait (batch : list nat)         (* epoll_wait returns these connections (besides, possibly, the listener) *)
| LEvent (c : nat) (o : outcome)   (* the loop looks at c's event: closed? / CAS on in_flight *)
| LFree (c : nat)                  (* after the events of a batch: drop(Box::from_raw) of a record found in the graveyard *)
| LBatchEnd
| LJobStart (c : nat)
| LRearm (c : nat)                 (* keep-alive: in_flight.store(false) *)
| LDel (c : nat)                   (* close path: EPOLL_CTL_DEL *)
| LStreamDrop (c : nat)            (* close path: the stream is dropped (teardown hook / close) *)
| LClosedStore (c : nat)           (* close path: closed.store(true) *)
| LGrave (c : nat).                (* close path: the record is pushed to the graveyard (the job's last step) *)

Definition ready (k : conn) : bool := k_registered k && (Nat.ltb 0 (k_pending k) || k_peer_closed k).

Fixpoint set_nth {A} (l : list A) (i : nat) (x : A) : list A :=
  match l, i with
  | [], _ => []
  | _ :: r, O => x :: r
  | y :: r, S n => y :: set_nth r n x
  end.

Definition with_conn (s : estate) (c : nat) (f : conn -> option conn) : option estate :=
  match nth_error (e_conns s) c with
  | Some k => match f k with
              | Some k' => Some {| e_conns := set_nth (e_conns s) c k'; e_loop := e_loop s |}
              | None => None
              end
  | None => None
  end.

Definition upd_jobs (k : conn) (js : list jphase) : conn :=
  {| k_rec := k_rec k; k_stream := k_stream k; k_registered := k_registered k; k_in_flight := k_in_flight k;
     k_closed := k_closed k; k_pending := k_pending k; k_peer_closed := k_peer_closed k; k_jobs := js;
     k_in_batch := k_in_batch k; k_grave := k_grave k; k_answered := k_answered k; k_taken := k_taken k |}.

(* replace the first job in phase [p] by [q] (or remove it when q = None) *)
Fixpoint move_job (js : list jphase) (p : jphase) (q : option jphase) : option (list jphase) :=
  match js with
  | [] => None
  | j :: r =>
      if match j, p with JQueued, JQueued | JRunning, JRunning | JDeleted, JDeleted | JDropped, JDropped | JStored, JStored => true | _, _ => false end
      then Some (match q with Some q' => q' :: r | None => r end)
      else match move_job r p q with Some r' => Some (j :: r') | None => None end
  end.

Definition new_conn (add_ok : bool) : conn :=
  {| k_rec := if add_ok then ALive else AFreed; k_stream := add_ok; k_registered := add_ok; k_in_flight := false;
     k_closed := false; k_pending := 0; k_peer_closed := false; k_jobs := []; k_in_batch := false; k_grave := false;
     k_answered := 0; k_taken := [] |}.

Definition all_distinct (l : list nat) : bool :=
  (fix go (l : list nat) := match l with [] => true | x :: r => negb (existsb (Nat.eqb x) r) && go r end) l.

Definition step (s : estate) (l : elabel) : option estate :=
  match l with
  | LAccept ok => Some {| e_conns := e_conns s ++ [new_conn ok]; e_loop := e_loop s |}
  | LClientSend c =>
      with_conn s c (fun k => if k_peer_closed k then None else
        Some {| k_rec := k_rec k; k_stream := k_stream k; k_registered := k_registered k; k_in_flight := k_in_flight k;
                k_closed := k_closed k; k_pending := S (k_pending k); k_peer_closed := false; k_jobs := k_jobs k;
                k_in_batch := k_in_batch k; k_grave := k_grave k; k_answered := k_answered k; k_taken := k_taken k |})
  | LClientClose c =>
      with_conn s c (fun k =>
        Some {| k_rec := k_rec k; k_stream := k_stream k; k_registered := k_registered k; k_in_flight := k_in_flight k;
                k_closed := k_closed k; k_pending := k_pending k; k_peer_closed := true; k_jobs := k_jobs k;
                k_in_batch := k_in_batch k; k_grave := k_grave k; k_answered := k_answered k; k_taken := k_taken k |})
  | LWait batch =>
      match e_loop s with
      | EBatch => None
      | EWaiting =>
          if all_distinct batch &&
             forallb (fun c => match nth_error (e_conns s) c with Some k => ready k | None => false end) batch
          then Some {| e_conns :=
                         map (fun ck => let '(i, k) := ck in
                                if existsb (Nat.eqb i) batch then
                                  {| k_rec := k_rec k; k_stream := k_stream k; k_registered := k_registered k; k_in_flight := k_in_flight k;
                                     k_closed := k_closed k; k_pending := k_pending k; k_peer_closed := k_peer_closed k; k_jobs := k_jobs k;
                                     k_in_batch := true; k_grave := k_grave k; k_answered := k_answered k; k_taken := k_taken k |}
                                else k)
                             (combine (seq 0 (length (e_conns s))) (e_conns s));
                       e_loop := EBatch |}
          else None
      end
  | LEvent c o =>
      match e_loop s with
      | EWaiting => None
      | EBatch =>
          with_conn s c (fun k =>
            if negb (k_in_batch k) then None else
            (* what the code does is determined by the record's flags *)
            let actual := if k_closed k then OStale else if k_in_flight k then OBusy else ODispatched in
            if match actual, o with OStale, OStale | ODispatched, ODispatched | OBusy, OBusy => true | _, _ => false end then
              Some {| k_rec := k_rec k; k_stream := k_stream k; k_registered := k_registered k;
                      k_in_flight := match actual with ODispatched => true | _ => k_in_flight k end;
                      k_closed := k_closed k; k_pending := k_pending k; k_peer_closed := k_peer_closed k;
                      k_jobs := match actual with ODispatched => k_jobs k ++ [JQueued] | _ => k_jobs k end;
                      k_in_batch := false;
                      k_grave := k_grave k;
                      k_answered := k_answered k; k_taken := k_taken k |}
            else None)
      end
  | LFree c =>
      match e_loop s with
      | EWaiting => None
      | EBatch =>
          (* the graveyard is emptied after the loop over the events of the batch *)
          if negb (forallb (fun k => negb (k_in_batch k)) (e_conns s)) then None else
          with_conn s c (fun k =>
            if k_grave k then
              Some {| k_rec := AFreed; k_stream := k_stream k; k_registered := k_registered k; k_in_flight := k_in_flight k;
                      k_closed := k_closed k; k_pending := k_pending k; k_peer_closed := k_peer_closed k; k_jobs := k_jobs k;
                      k_in_batch := k_in_batch k; k_grave := false; k_answered := k_answered k; k_taken := k_taken k |}
            else None)
      end
  | LBatchEnd =>
      match e_loop s with
      | EWaiting => None
      | EBatch =>
          (* (records handed back after the graveyard was emptied wait for the next batch) *)
          if forallb (fun k => negb (k_in_batch k)) (e_conns s)
          then Some {| e_conns := e_conns s; e_loop := EWaiting |} else None
      end
  | LJobStart c =>
      with_conn s c (fun k =>
        match move_job (k_jobs k) JQueued (Some JRunning) with
        | Some js =>
            (* the job reads the next request if there is one *)
            Some (match k_pending k with
                  | S p => {| k_rec := k_rec k; k_stream := k_stream k; k_registered := k_registered k; k_in_flight := k_in_flight k;
                              k_closed := k_closed k; k_pending := p; k_peer_closed := k_peer_closed k; k_jobs := js;
                              k_in_batch := k_in_batch k; k_grave := k_grave k; k_answered := S (k_answered k);
                              k_taken := k_taken k ++ [k_answered k] |}
                  | O => upd_jobs k js
                  end)
        | None => None
        end)
  | LRearm c =>
      with_conn s c (fun k =>
        match move_job (k_jobs k) JRunning None with
        | Some js =>
            Some {| k_rec := k_rec k; k_stream := k_stream k; k_registered := k_registered k; k_in_flight := false;
                    k_closed := k_closed k; k_pending := k_pending k; k_peer_closed := k_peer_closed k; k_jobs := js;
                    k_in_batch := k_in_batch k; k_grave := k_grave k; k_answered := k_answered k; k_taken := k_taken k |}
        | None => None
        end)
  | LDel c =>
      with_conn s c (fun k =>
        match move_job (k_jobs k) JRunning (Some JDeleted) with
        | Some js =>
            Some {| k_rec := k_rec k; k_stream := k_stream k; k_registered := false; k_in_flight := k_in_flight k;
                    k_closed := k_closed k; k_pending := k_pending k; k_peer_closed := k_peer_closed k; k_jobs := js;
                    k_in_batch := k_in_batch k; k_grave := k_grave k; k_answered := k_answered k; k_taken := k_taken k |}
        | None => None
        end)
  | LStreamDrop c =>
      with_conn s c (fun k =>
        match move_job (k_jobs k) JDeleted (Some JDropped) with
        | Some js =>
            Some {| k_rec := k_rec k; k_stream := false; k_registered := k_registered k; k_in_flight := k_in_flight k;
                    k_closed := k_closed k; k_pending := k_pending k; k_peer_closed := k_peer_closed k; k_jobs := js;
                    k_in_batch := k_in_batch k; k_grave := k_grave k; k_answered := k_answered k; k_taken := k_taken k |}
        | None => None
        end)
  | LClosedStore c =>
      with_conn s c (fun k =>
        match move_job (k_jobs k) JDropped (Some JStored) with
        | Some js =>
            Some {| k_rec := k_rec k; k_stream := k_stream k; k_registered := k_registered k; k_in_flight := k_in_flight k;
                    k_closed := true; k_pending := k_pending k; k_peer_closed := k_peer_closed k; k_jobs := js;
                    k_in_batch := k_in_batch k; k_grave := k_grave k; k_answered := k_answered k; k_taken := k_taken k |}
        | None => None
        end)
  | LGrave c =>
      with_conn s c (fun k =>
        match move_job (k_jobs k) JStored None with
        | Some js =>
            Some {| k_rec := k_rec k; k_stream := k_stream k; k_registered := k_registered k; k_in_flight := k_in_flight k;
                    k_closed := k_closed k; k_pending := k_pending k; k_peer_closed := k_peer_closed k; k_jobs := js;
                    k_in_batch := k_in_batch k; k_grave := true; k_answered := k_answered k; k_taken := k_taken k |}
        | None => None
        end)
  end.

(* ---- safety obligations of a step (NOT part of its enabledness) ---- *)
Definition conn_of (s : estate) (c : nat) : option conn := nth_error (e_conns s) c.
Definition rec_live (s : estate) (c : nat) : bool :=
  match conn_of s c with Some k => match k_rec k with ALive => true | AFreed => false end | None => false end.
Definition stream_open (s : estate) (c : nat) : bool :=
  match conn_of s c with Some k => k_stream k | None => false end.

Definition safe (s : estate) (l : elabel) : bool :=
  match l with
  | LEvent c _ => rec_live s c                       (* &*handle_ptr: the record must still be allocated *)
  | LFree c => rec_live s c                          (* no double free *)
  | LJobStart c => rec_live s c && stream_open s c   (* &*handle_ptr and &*stream_ptr *)
  | LRearm c => rec_live s c
  | LDel c => rec_live s c
  | LStreamDrop c => rec_live s c && stream_open s c (* Box::from_raw(stream_ptr): exactly once *)
  | LClosedStore c => rec_live s c
  | LGrave c => rec_live s c                         (* handle.graveyard is read from the record *)
  | _ => true
  end.

Fixpoint run (s : estate) (tr : list elabel) : option estate :=
  match tr with
  | [] => Some s
  | l :: r => match step s l with Some s' => run s' r | None => None end
  end.

(* replay a trace: index of the first label that is not enabled, or that is enabled but unsafe *)
Inductive verdict := VAccepted (s : estate) | VRejected (i : nat) | VUnsafe (i : nat).
Fixpoint replay (s : estate) (tr : list elabel) (i : nat) : verdict :=
  match tr with
  | [] => VAccepted s
  | l :: r =>
      match step s l with
      | None => VRejected i
      | Some s' => if safe s l then replay s' r (S i) else VUnsafe i
      end
  end.

(* quiescent and finished: the loop waits, no job anywhere, every connection closed *)
Definition all_ended (s : estate) : bool :=
  match e_loop s with
  | EWaiting => forallb (fun k => match k_jobs k with [] => negb (k_registered k) | _ => false end) (e_conns s)
  | EBatch => false
  end.
(* nothing waits in the graveyard *)
Definition graveyard_empty (s : estate) : bool := forallb (fun k => negb (k_grave k)) (e_conns s).
Definition live_records (s : estate) : nat :=
  length (filter (fun k => match k_rec k with ALive => true | AFreed => false end) (e_conns s)).
Definition open_streams (s : estate) : nat := length (filter k_stream (e_conns s)).
