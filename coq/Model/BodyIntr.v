(* The body reader of Model/Body.v over a stream that can fail transiently: one read() of the socket may return
   Err(ErrorKind::Interrupted) without consuming anything.  The stream is a list of EVENTS (a data segment, or one
   interrupted read); everything else mirrors Model/Body.v function by function (suffix _e), with a three-way result
   [EOk out st | EErr e st | EIntr st].
   std semantics followed: BufReader::{read, fill_buf} and Take::read pass the error of the inner read on and leave their
   state unchanged; read_exact (default loop), read_until and read_line RETRY on Interrupted and therefore never report
   it; ChunkedReader::read reports the bytes it has already copied when a later read of the same call is interrupted
   (the F40 repair).  The stream of this model has no other error, so [EErr] at the source level never arises; it is
   passed on wherever it is matched.  No proofs in this file. *)
From KV Require Import Lib.Bytes Lib.Utf8 Model.Body.

Inductive sev := SData (g : bytes) | SIntr.      (* SIntr: one read of the stream fails with Interrupted, nothing consumed *)

(* the data of the stream, the interruptions dropped *)
Fixpoint strip (evs : list sev) : list bytes :=
  match evs with
  | [] => []
  | SData g :: r => g :: strip r
  | SIntr :: r => strip r
  end.
Fixpoint count_intr (evs : list sev) : nat :=
  match evs with
  | [] => O
  | SData _ :: r => count_intr r
  | SIntr :: r => S (count_intr r)
  end.

Inductive eres (S : Type) := EOk (out : bytes) (st : S) | EErr (e : ioerr) (st : S) | EIntr (st : S).
Arguments EOk {S} out st.
Arguments EErr {S} e st.
Arguments EIntr {S} st.

Definition emap {S T} (f : S -> T) (r : eres S) : eres T :=
  match r with EOk o s => EOk o (f s) | EErr e s => EErr e (f s) | EIntr s => EIntr (f s) end.

(* ------------------------------------------------------------------ the byte source *)
Record src_e := {
  bbuf_e : bytes;           (* BufReader: buffered, not yet consumed *)
  lo_e : bytes;             (* StreamWithLeftover: leftover not yet replayed (never fails) *)
  evs_e : list sev;         (* the stream: future events, [] = EOF *)
  sfuel_e : nat;            (* a constant of the model only: loop fuel, fixed at creation; it counts the interruptions too *)
  stake_e : option N;       (* Read::take(limit) *)
}.

Definition mk_src_e (leftover : bytes) (evs : list sev) : src_e :=
  {| bbuf_e := []; lo_e := leftover; evs_e := evs;
     sfuel_e := 4 * S (length leftover + length (concat (strip evs))) + 8 + count_intr evs; stake_e := None |}.
Definition mk_src_take_e (leftover : bytes) (evs : list sev) (limit : N) : src_e :=
  {| bbuf_e := []; lo_e := leftover; evs_e := evs;
     sfuel_e := 4 * S (length leftover + length (concat (strip evs))) + 8 + count_intr evs; stake_e := Some limit |}.

(* the same source with the interruptions removed (a source of Model/Body.v) *)
Definition plain_src (s : src_e) : src :=
  {| bbuf := bbuf_e s; lo := lo_e s; segs := strip (evs_e s); sfuel := sfuel_e s; stake := stake_e s |}.

(* R::read on the stream: an interruption is consumed and reported; otherwise at most k bytes of the first non-empty segment *)
Fixpoint stream_read_e (k : N) (ev : list sev) : eres (list sev) :=
  match ev with
  | [] => EOk [] []
  | SIntr :: rest => EIntr rest
  | SData [] :: rest => stream_read_e k rest
  | SData g :: rest =>
      let out := firstnN k g in
      match skipnN k g with
      | [] => EOk out rest
      | g' => EOk out (SData g' :: rest)
      end
  end.

(* StreamWithLeftover::read(k): the new (lo, events) *)
Definition inner_read_e (k : N) (l : bytes) (ev : list sev) : eres (bytes * list sev) :=
  match l with
  | _ :: _ => EOk (firstnN k l) (skipnN k l, ev)
  | [] => emap (fun ev' => ([], ev')) (stream_read_e k ev)
  end.

(* Take<StreamWithLeftover>::read(k): the limit is only reduced by a successful read *)
Definition take_read_e (k : N) (s : src_e) : eres (bytes * list sev * option N) :=
  match stake_e s with
  | None => emap (fun t => (t, None)) (inner_read_e k (lo_e s) (evs_e s))
  | Some lim =>
      if N.eqb lim 0 then EOk [] (lo_e s, evs_e s, Some 0%N)
      else match inner_read_e (N.min k lim) (lo_e s) (evs_e s) with
           | EOk out t => EOk out (t, Some (lim - lenN out)%N)
           | EErr e t => EErr e (t, Some lim)
           | EIntr t => EIntr (t, Some lim)
           end
  end.

Definition with_tail (s : src_e) (b : bytes) (t : bytes * list sev * option N) : src_e :=
  let '(l', ev', tk) := t in {| bbuf_e := b; lo_e := l'; evs_e := ev'; sfuel_e := sfuel_e s; stake_e := tk |}.

(* BufReader::fill_buf: refill only when empty; the error of the inner read is passed on, the buffer stays empty.
   EOk carries the visible buffer *)
Definition fill_buf_e (s : src_e) : eres src_e :=
  match bbuf_e s with
  | _ :: _ => EOk (bbuf_e s) s
  | [] =>
      match take_read_e BUF_SIZE s with
      | EOk out t => EOk out (with_tail s out t)
      | EErr e t => EErr e (with_tail s [] t)
      | EIntr t => EIntr (with_tail s [] t)
      end
  end.

Definition consume_e (n : N) (s : src_e) : src_e :=
  {| bbuf_e := skipnN n (bbuf_e s); lo_e := lo_e s; evs_e := evs_e s; sfuel_e := sfuel_e s; stake_e := stake_e s |}.

(* BufReader::read(k) *)
Definition buf_read_e (k : N) (s : src_e) : eres src_e :=
  match bbuf_e s with
  | [] =>
      if N.leb BUF_SIZE k then
        match take_read_e k s with
        | EOk out t => EOk out (with_tail s [] t)
        | EErr e t => EErr e (with_tail s [] t)
        | EIntr t => EIntr (with_tail s [] t)
        end
      else
        match fill_buf_e s with
        | EOk _ s' => EOk (firstnN k (bbuf_e s')) (consume_e k s')
        | EErr e s' => EErr e s'
        | EIntr s' => EIntr s'
        end
  | _ :: _ => EOk (firstnN k (bbuf_e s)) (consume_e k s)
  end.

(* BufReader::read_exact(n): the default loop retries an interrupted read.  None = UnexpectedEof (or, never here, another
   error).  Every iteration delivers a byte or uses up an interruption *)
Fixpoint read_exact_loop_e (fuel : nat) (n : N) (s : src_e) (acc : bytes) : option (bytes * src_e) :=
  if N.eqb n 0 then Some (acc, s)
  else
    match fuel with
    | O => None
    | S fuel' =>
        match buf_read_e n s with
        | EIntr s' => read_exact_loop_e fuel' n s' acc
        | EErr _ _ => None
        | EOk [] _ => None
        | EOk out s' => read_exact_loop_e fuel' (n - lenN out) s' (acc ++ out)
        end
    end.
Definition read_exact_e (n : N) (s : src_e) : option (bytes * src_e) :=
  if N.leb n (lenN (firstnN n (bbuf_e s))) then Some (firstnN n (bbuf_e s), consume_e n s)
  else read_exact_loop_e (N.to_nat n + count_intr (evs_e s)) n s [].

(* BufRead::read_until(b'\n'): an interrupted fill_buf is retried *)
Fixpoint read_until_lf_e (fuel : nat) (s : src_e) (acc : bytes) : bytes * src_e :=
  match fuel with
  | O => (acc, s)
  | S fuel' =>
      match fill_buf_e s with
      | EIntr s1 => read_until_lf_e fuel' s1 acc
      | EErr _ s1 => (acc, s1)
      | EOk avail s1 =>
          match find_index (Byte.eqb x0a) avail with
          | Some i => (acc ++ firstn (S i) avail, consume_e (N.of_nat (S i)) s1)
          | None =>
              match avail with
              | [] => (acc, s1)
              | _ => read_until_lf_e fuel' (consume_e (lenN avail) s1) (acc ++ avail)
              end
          end
      end
  end.

Definition read_line_e (s : src_e) : (bytes + ioerr) * src_e :=
  let '(line, s') := read_until_lf_e (sfuel_e s) s [] in
  if utf8_valid line then (inl line, s') else (inr EInvalidData, s').

(* ------------------------------------------------------------------ FixedReader *)
Record fixed_e := { f_src_e : src_e; f_remaining_e : N }.

(* one inner read; an interruption leaves `remaining` as it is *)
Definition fixed_read_e (k : N) (r : fixed_e) : eres fixed_e :=
  if N.eqb (f_remaining_e r) 0 || N.eqb k 0 then EOk [] r
  else
    let to_read := N.min (f_remaining_e r) k in
    match buf_read_e to_read (f_src_e r) with
    | EIntr s' => EIntr {| f_src_e := s'; f_remaining_e := f_remaining_e r |}
    | EErr e s' => EErr e {| f_src_e := s'; f_remaining_e := f_remaining_e r |}
    | EOk [] s' => EErr EUnexpectedEof {| f_src_e := s'; f_remaining_e := f_remaining_e r |}
    | EOk out s' => EOk out {| f_src_e := s'; f_remaining_e := (f_remaining_e r - lenN out)%N |}
    end.

Definition fixed_fill_buf_e (r : fixed_e) : eres fixed_e :=
  if N.eqb (f_remaining_e r) 0 then EOk [] r
  else
    match fill_buf_e (f_src_e r) with
    | EIntr s' => EIntr {| f_src_e := s'; f_remaining_e := f_remaining_e r |}
    | EErr e s' => EErr e {| f_src_e := s'; f_remaining_e := f_remaining_e r |}
    | EOk [] s' => EErr EUnexpectedEof {| f_src_e := s'; f_remaining_e := f_remaining_e r |}
    | EOk b s' => EOk (firstnN (f_remaining_e r) b) {| f_src_e := s'; f_remaining_e := f_remaining_e r |}
    end.
Definition fixed_consume_e (amt : N) (r : fixed_e) : fixed_e :=
  {| f_src_e := consume_e amt (f_src_e r); f_remaining_e := (f_remaining_e r - amt)%N |}.

(* ------------------------------------------------------------------ ChunkedReader *)
Record chunked_e := { c_src_e : src_e; c_state_e : cstate; c_remaining_e : N }.

(* read_chunk_size: read_line never reports an interruption *)
Definition read_chunk_size_e (c : chunked_e) : rres chunked_e :=
  let '(r, s') := read_line_e (c_src_e c) in
  let st e := RErr e {| c_src_e := s'; c_state_e := c_state_e c; c_remaining_e := c_remaining_e c |} in
  match r with
  | inr e => st e
  | inl line =>
      match line with
      | [] => st EUnexpectedEof
      | _ =>
          match strip_suffix_byte x0a line with
          | None => st EUnexpectedEof
          | Some l1 =>
              let l2 := match strip_suffix_byte x0d l1 with Some x => x | None => l1 end in
              let hex := match split_on x3b l2 with h :: _ => h | [] => [] end in
              match hex with
              | [] => st EInvalidData
              | _ =>
                  if forallb is_hexdigit hex then
                    match parse_hex 0 hex with
                    | None => st EInvalidData
                    | Some n =>
                        ROk [] {| c_src_e := s'; c_state_e := if N.eqb n 0 then CTrailer else CData; c_remaining_e := n |}
                    end
                  else st EInvalidData
              end
          end
      end
  end.

Fixpoint trailer_loop_e (fuel : nat) (s : src_e) : option ioerr * src_e :=
  match fuel with
  | O => (Some EUnexpectedEof, s)
  | S fuel' =>
      let '(r, s') := read_line_e s in
      match r with
      | inr e => (Some e, s')
      | inl [] => (Some EUnexpectedEof, s')
      | inl line =>
          if bytes_eqb line [x0d; x0a] || bytes_eqb line [x0a] then (None, s')
          else trailer_loop_e fuel' s'
      end
  end.

(* advance: size lines (read_line), chunk terminators (read_exact) and trailers (read_line): never interrupted *)
Fixpoint advance_e (fuel : nat) (c : chunked_e) : rres chunked_e :=
  match fuel with
  | O => RErr EInvalidData c
  | S fuel' =>
      match c_state_e c with
      | CSize =>
          match read_chunk_size_e c with
          | ROk _ c' => advance_e fuel' c'
          | e => e
          end
      | CData =>
          if N.eqb (c_remaining_e c) 0
          then advance_e fuel' {| c_src_e := c_src_e c; c_state_e := CCrlf; c_remaining_e := 0 |}
          else ROk [] c
      | CDone => ROk [] c
      | CCrlf =>
          match read_exact_e 2%N (c_src_e c) with
          | None => RErr EUnexpectedEof c
          | Some (crlf, s') =>
              if bytes_eqb crlf [x0d; x0a]
              then advance_e fuel' {| c_src_e := s'; c_state_e := CSize; c_remaining_e := c_remaining_e c |}
              else RErr EInvalidData {| c_src_e := s'; c_state_e := CCrlf; c_remaining_e := c_remaining_e c |}
          end
      | CTrailer =>
          match trailer_loop_e (sfuel_e (c_src_e c)) (c_src_e c) with
          | (None, s') => advance_e fuel' {| c_src_e := s'; c_state_e := CDone; c_remaining_e := c_remaining_e c |}
          | (Some e, s') => RErr e {| c_src_e := s'; c_state_e := CTrailer; c_remaining_e := c_remaining_e c |}
          end
      end
  end.
Definition adv_fuel_e (c : chunked_e) : nat := sfuel_e (c_src_e c).

(* Read::read(out of length k).  The inner read interrupted: nothing written yet -> the error; otherwise the bytes already
   written are reported (the F40 repair) *)
Fixpoint chunked_read_loop_e (fuel : nat) (k : N) (c : chunked_e) (written : bytes) : eres chunked_e :=
  match fuel with
  | O => EOk written c
  | S fuel' =>
      match advance_e (adv_fuel_e c) c with
      | RErr e c' => EErr e c'
      | ROk _ c1 =>
          match c_state_e c1 with
          | CDone => EOk written c1
          | _ =>
              if N.eqb k 0 then EOk written c1
              else
                let to_read := N.min (c_remaining_e c1) k in
                let back s' := {| c_src_e := s'; c_state_e := c_state_e c1; c_remaining_e := c_remaining_e c1 |} in
                match buf_read_e to_read (c_src_e c1) with
                | EIntr s' => match written with [] => EIntr (back s') | _ => EOk written (back s') end
                | EErr e s' => match written with [] => EErr e (back s') | _ => EOk written (back s') end
                | EOk [] s' => EErr EUnexpectedEof (back s')
                | EOk out s' =>
                    let n := lenN out in
                    let c2 := {| c_src_e := s'; c_state_e := c_state_e c1; c_remaining_e := (c_remaining_e c1 - n)%N |} in
                    if N.eqb (c_remaining_e c2) 0 || N.eqb (k - n) 0 then EOk (written ++ out) c2
                    else chunked_read_loop_e fuel' (k - n)%N c2 (written ++ out)
                end
          end
      end
  end.
Definition chunked_read_e (k : N) (c : chunked_e) : eres chunked_e :=
  chunked_read_loop_e (sfuel_e (c_src_e c)) k c [].

Definition chunked_fill_buf_e (c : chunked_e) : eres chunked_e :=
  match advance_e (adv_fuel_e c) c with
  | RErr e c' => EErr e c'
  | ROk _ c1 =>
      match c_state_e c1 with
      | CDone => EOk [] c1
      | _ =>
          let back s' := {| c_src_e := s'; c_state_e := c_state_e c1; c_remaining_e := c_remaining_e c1 |} in
          match fill_buf_e (c_src_e c1) with
          | EIntr s' => EIntr (back s')
          | EErr e s' => EErr e (back s')
          | EOk [] s' => EErr EUnexpectedEof (back s')
          | EOk b s' => EOk (firstnN (c_remaining_e c1) b) (back s')
          end
      end
  end.
Definition chunked_consume_e (amt : N) (c : chunked_e) : chunked_e :=
  {| c_src_e := consume_e amt (c_src_e c); c_state_e := c_state_e c; c_remaining_e := (c_remaining_e c - amt)%N |}.

(* ------------------------------------------------------------------ BodyReader *)
Inductive body_e :=
| BFixed_e (r : fixed_e) | BChunked_e (c : chunked_e) | BEof_e (s : src_e) | BEmpty_e (s : src_e).

Definition new_fixed_e (leftover : bytes) (evs : list sev) (len : N) : body_e :=
  BFixed_e {| f_src_e := mk_src_take_e leftover evs len; f_remaining_e := len |}.
Definition new_chunked_e (leftover : bytes) (evs : list sev) : body_e :=
  BChunked_e {| c_src_e := mk_src_e leftover evs; c_state_e := CSize; c_remaining_e := 0 |}.
Definition new_eof_e (leftover : bytes) (evs : list sev) : body_e := BEof_e (mk_src_e leftover evs).
Definition new_empty_e (leftover : bytes) (evs : list sev) : body_e := BEmpty_e (mk_src_e leftover evs).

Definition body_read_e (k : N) (b : body_e) : eres body_e :=
  match b with
  | BFixed_e r => emap BFixed_e (fixed_read_e k r)
  | BChunked_e c => emap BChunked_e (chunked_read_e k c)
  | BEof_e s => emap BEof_e (buf_read_e k s)
  | BEmpty_e s => EOk [] b
  end.
Definition body_fill_buf_e (b : body_e) : eres body_e :=
  match b with
  | BFixed_e r => emap BFixed_e (fixed_fill_buf_e r)
  | BChunked_e c => emap BChunked_e (chunked_fill_buf_e c)
  | BEof_e s => emap BEof_e (fill_buf_e s)
  | BEmpty_e s => EOk [] b
  end.
Definition body_consume_e (amt : N) (b : body_e) : body_e :=
  match b with
  | BFixed_e r => BFixed_e (fixed_consume_e amt r)
  | BChunked_e c => BChunked_e (chunked_consume_e amt c)
  | BEof_e s => BEof_e (consume_e amt s)
  | BEmpty_e s => b
  end.

(* ------------------------------------------------------------------ drivers: one list entry per CALL *)
(* a call that is interrupted delivers nothing; the caller goes on with its next call (it retries) *)
Fixpoint read_all_e (b : body_e) (sizes : list N) (acc : bytes) : bytes * outcome * body_e :=
  match sizes with
  | [] => (acc, More, b)
  | k :: rest =>
      match body_read_e k b with
      | EErr e b' => (acc, Failed e, b')
      | EIntr b' => read_all_e b' rest acc
      | EOk [] b' => (acc, AtEof, b')
      | EOk out b' => read_all_e b' rest (acc ++ out)
      end
  end.

Fixpoint bufread_all_e (b : body_e) (amts : list N) (acc : bytes) : bytes * outcome * body_e :=
  match amts with
  | [] => (acc, More, b)
  | a :: rest =>
      match body_fill_buf_e b with
      | EErr e b' => (acc, Failed e, b')
      | EIntr b' => bufread_all_e b' rest acc
      | EOk [] b' => (acc, AtEof, b')
      | EOk avail b' =>
          let got := firstnN a avail in
          bufread_all_e (body_consume_e (lenN got) b') rest (acc ++ got)
      end
  end.
