(* The body reader of Model/Body.v / Model/BodyIntr.v over a stream that can also fail for good: besides a data segment
   and an interrupted read (ErrorKind::Interrupted, retried by std) one read() of the socket may return an error that
   nobody retries (S2Fail: ErrorKind::TimedOut / WouldBlock of a read timeout, ...).  Nothing is consumed from the
   socket by a failing read.  Functions mirror Model/BodyIntr.v one by one (suffix _f), with a four-way result
   [FOk out st | FErr e st | FIntr st | FFail st]: FErr = an error the reader itself raises (UnexpectedEof, InvalidData),
   FIntr / FFail = the error of the stream passed on.
   std semantics followed:
     BufReader::{read, fill_buf}, Take::read   pass either error of the inner read on, state unchanged;
     read_exact (default loop), read_until, read_line   retry Interrupted and RETURN any other error; the bytes they
       have consumed so far sit in a local of the caller (crlf / line in ChunkedReader::advance) which is dropped:
       they are LOST - the reader's position in the encoding no longer matches the stream;
     ChunkedReader::read   the F40 rule for both errors (written <> [] -> Ok written, else the error);
     FixedReader::read / fill_buf   one inner read, error passed on, `remaining` unchanged.
   Then the public BodyReader { encoding, failed } with note(), drain() and beyond_body(), and a driver for a handler
   that issues any sequence of read / fill_buf / consume and ignores every result.  No proofs in this file. *)
From KV Require Import Lib.Bytes Lib.Utf8 Model.Body.

Inductive sev2 := S2Data (g : bytes) | S2Intr | S2Fail.

(* the data of the stream, interruptions and failures dropped *)
Fixpoint strip2 (evs : list sev2) : list bytes :=
  match evs with
  | [] => []
  | S2Data g :: r => g :: strip2 r
  | _ :: r => strip2 r
  end.
(* events that are not data: each costs a retry loop one round of its fuel *)
Fixpoint count_nd (evs : list sev2) : nat :=
  match evs with
  | [] => O
  | S2Data _ :: r => count_nd r
  | _ :: r => S (count_nd r)
  end.

Inductive fres (S : Type) :=
| FOk (out : bytes) (st : S) | FErr (e : ioerr) (st : S) | FIntr (st : S) | FFail (st : S).
Arguments FOk {S} out st.
Arguments FErr {S} e st.
Arguments FIntr {S} st.
Arguments FFail {S} st.

Definition fmap {S T} (f : S -> T) (r : fres S) : fres T :=
  match r with FOk o s => FOk o (f s) | FErr e s => FErr e (f s) | FIntr s => FIntr (f s) | FFail s => FFail (f s) end.
Definition res_st {S} (r : fres S) : S :=
  match r with FOk _ s => s | FErr _ s => s | FIntr s => s | FFail s => s end.

(* ------------------------------------------------------------------ the byte source *)
Record src_f := {
  bbuf_f : bytes;           (* BufReader: buffered, not yet consumed *)
  lo_f : bytes;             (* StreamWithLeftover: leftover not yet replayed (never fails) *)
  evs_f : list sev2;        (* the stream: future events, [] = EOF *)
  sfuel_f : nat;            (* a constant of the model only: loop fuel, fixed at creation *)
  stake_f : option N;       (* Read::take(limit) *)
}.

Definition mk_src_f (leftover : bytes) (evs : list sev2) : src_f :=
  {| bbuf_f := []; lo_f := leftover; evs_f := evs;
     sfuel_f := 4 * S (length leftover + length (concat (strip2 evs))) + 8 + count_nd evs; stake_f := None |}.
Definition mk_src_take_f (leftover : bytes) (evs : list sev2) (limit : N) : src_f :=
  {| bbuf_f := []; lo_f := leftover; evs_f := evs;
     sfuel_f := 4 * S (length leftover + length (concat (strip2 evs))) + 8 + count_nd evs; stake_f := Some limit |}.

(* R::read on the stream: an interruption / a failure is consumed and reported *)
Fixpoint stream_read_f (k : N) (ev : list sev2) : fres (list sev2) :=
  match ev with
  | [] => FOk [] []
  | S2Intr :: rest => FIntr rest
  | S2Fail :: rest => FFail rest
  | S2Data [] :: rest => stream_read_f k rest
  | S2Data g :: rest =>
      let out := firstnN k g in
      match skipnN k g with
      | [] => FOk out rest
      | g' => FOk out (S2Data g' :: rest)
      end
  end.

(* StreamWithLeftover::read(k) *)
Definition inner_read_f (k : N) (l : bytes) (ev : list sev2) : fres (bytes * list sev2) :=
  match l with
  | _ :: _ => FOk (firstnN k l) (skipnN k l, ev)
  | [] => fmap (fun ev' => ([], ev')) (stream_read_f k ev)
  end.

(* Take<StreamWithLeftover>::read(k): the limit is only reduced by a successful read *)
Definition take_read_f (k : N) (s : src_f) : fres (bytes * list sev2 * option N) :=
  match stake_f s with
  | None => fmap (fun t => (t, None)) (inner_read_f k (lo_f s) (evs_f s))
  | Some lim =>
      if N.eqb lim 0 then FOk [] (lo_f s, evs_f s, Some 0%N)
      else match inner_read_f (N.min k lim) (lo_f s) (evs_f s) with
           | FOk out t => FOk out (t, Some (lim - lenN out)%N)
           | FErr e t => FErr e (t, Some lim)
           | FIntr t => FIntr (t, Some lim)
           | FFail t => FFail (t, Some lim)
           end
  end.

Definition with_tail_f (s : src_f) (b : bytes) (t : bytes * list sev2 * option N) : src_f :=
  let '(l', ev', tk) := t in {| bbuf_f := b; lo_f := l'; evs_f := ev'; sfuel_f := sfuel_f s; stake_f := tk |}.

(* BufReader::fill_buf: refill only when empty; an error of the inner read is passed on, the buffer stays empty *)
Definition fill_buf_f (s : src_f) : fres src_f :=
  match bbuf_f s with
  | _ :: _ => FOk (bbuf_f s) s
  | [] =>
      match take_read_f BUF_SIZE s with
      | FOk out t => FOk out (with_tail_f s out t)
      | FErr e t => FErr e (with_tail_f s [] t)
      | FIntr t => FIntr (with_tail_f s [] t)
      | FFail t => FFail (with_tail_f s [] t)
      end
  end.

Definition consume_f (n : N) (s : src_f) : src_f :=
  {| bbuf_f := skipnN n (bbuf_f s); lo_f := lo_f s; evs_f := evs_f s; sfuel_f := sfuel_f s; stake_f := stake_f s |}.

(* BufReader::read(k) *)
Definition buf_read_f (k : N) (s : src_f) : fres src_f :=
  match bbuf_f s with
  | [] =>
      if N.leb BUF_SIZE k then
        match take_read_f k s with
        | FOk out t => FOk out (with_tail_f s [] t)
        | FErr e t => FErr e (with_tail_f s [] t)
        | FIntr t => FIntr (with_tail_f s [] t)
        | FFail t => FFail (with_tail_f s [] t)
        end
      else
        match fill_buf_f s with
        | FOk _ s' => FOk (firstnN k (bbuf_f s')) (consume_f k s')
        | FErr e s' => FErr e s'
        | FIntr s' => FIntr s'
        | FFail s' => FFail s'
        end
  | _ :: _ => FOk (firstnN k (bbuf_f s)) (consume_f k s)
  end.

(* BufReader::read_exact(n), default loop: Interrupted is retried; any other error is returned and the bytes already
   copied into the caller's array ([acc]) are gone with it.  FOk x s' = the n bytes; FErr EUnexpectedEof = end of stream *)
Fixpoint read_exact_loop_f (fuel : nat) (n : N) (s : src_f) (acc : bytes) : fres src_f :=
  if N.eqb n 0 then FOk acc s
  else
    match fuel with
    | O => FErr EUnexpectedEof s
    | S fuel' =>
        match buf_read_f n s with
        | FIntr s' => read_exact_loop_f fuel' n s' acc
        | FFail s' => FFail s'
        | FErr e s' => FErr e s'
        | FOk [] s' => FErr EUnexpectedEof s'
        | FOk out s' => read_exact_loop_f fuel' (n - lenN out) s' (acc ++ out)
        end
    end.
Definition read_exact_f (n : N) (s : src_f) : fres src_f :=
  if N.leb n (lenN (firstnN n (bbuf_f s))) then FOk (firstnN n (bbuf_f s)) (consume_f n s)
  else read_exact_loop_f (N.to_nat n + count_nd (evs_f s)) n s [].

(* BufRead::read_until(b'\n'): an interrupted fill_buf is retried, a failed one ends the call with the error; what has
   been appended so far ([acc]) stays in the caller's Vec, which ChunkedReader drops *)
Fixpoint read_until_lf_f (fuel : nat) (s : src_f) (acc : bytes) : fres src_f :=
  match fuel with
  | O => FOk acc s
  | S fuel' =>
      match fill_buf_f s with
      | FIntr s1 => read_until_lf_f fuel' s1 acc
      | FFail s1 => FFail s1
      | FErr e s1 => FErr e s1
      | FOk avail s1 =>
          match find_index (Byte.eqb x0a) avail with
          | Some i => FOk (acc ++ firstn (S i) avail) (consume_f (N.of_nat (S i)) s1)
          | None =>
              match avail with
              | [] => FOk acc s1
              | _ => read_until_lf_f fuel' (consume_f (lenN avail) s1) (acc ++ avail)
              end
          end
      end
  end.

(* BufRead::read_line into an empty String: FOk line; FErr EInvalidData when it is not UTF-8; FFail passed on *)
Definition read_line_f (s : src_f) : fres src_f :=
  match read_until_lf_f (sfuel_f s) s [] with
  | FOk line s' => if utf8_valid line then FOk line s' else FErr EInvalidData s'
  | FErr e s' => FErr e s'
  | FIntr s' => FIntr s'
  | FFail s' => FFail s'
  end.

(* ------------------------------------------------------------------ FixedReader *)
Record fixed_f := { f_src_f : src_f; f_remaining_f : N }.

Definition fixed_read_f (k : N) (r : fixed_f) : fres fixed_f :=
  if N.eqb (f_remaining_f r) 0 || N.eqb k 0 then FOk [] r
  else
    let to_read := N.min (f_remaining_f r) k in
    let back s' := {| f_src_f := s'; f_remaining_f := f_remaining_f r |} in
    match buf_read_f to_read (f_src_f r) with
    | FIntr s' => FIntr (back s')
    | FFail s' => FFail (back s')
    | FErr e s' => FErr e (back s')
    | FOk [] s' => FErr EUnexpectedEof (back s')
    | FOk out s' => FOk out {| f_src_f := s'; f_remaining_f := (f_remaining_f r - lenN out)%N |}
    end.

Definition fixed_fill_buf_f (r : fixed_f) : fres fixed_f :=
  if N.eqb (f_remaining_f r) 0 then FOk [] r
  else
    let back s' := {| f_src_f := s'; f_remaining_f := f_remaining_f r |} in
    match fill_buf_f (f_src_f r) with
    | FIntr s' => FIntr (back s')
    | FFail s' => FFail (back s')
    | FErr e s' => FErr e (back s')
    | FOk [] s' => FErr EUnexpectedEof (back s')
    | FOk b s' => FOk (firstnN (f_remaining_f r) b) (back s')
    end.
Definition fixed_consume_f (amt : N) (r : fixed_f) : fixed_f :=
  {| f_src_f := consume_f amt (f_src_f r); f_remaining_f := (f_remaining_f r - amt)%N |}.

(* ------------------------------------------------------------------ ChunkedReader *)
Record chunked_f := { c_src_f : src_f; c_state_f : cstate; c_remaining_f : N }.

(* read_chunk_size: `self.inner.read_line(&mut line)?` - a failure leaves state and remaining as they are *)
Definition read_chunk_size_f (c : chunked_f) : fres chunked_f :=
  let back s' := {| c_src_f := s'; c_state_f := c_state_f c; c_remaining_f := c_remaining_f c |} in
  match read_line_f (c_src_f c) with
  | FErr e s' => FErr e (back s')
  | FIntr s' => FIntr (back s')
  | FFail s' => FFail (back s')
  | FOk line s' =>
      let st e := FErr e (back s') in
      match line with
      | [] => st EUnexpectedEof
      | _ =>
          match strip_suffix_byte x0a line with
          | None => st EUnexpectedEof
          | Some l1 =>
              let l2 := match strip_suffix_byte x0d l1 with Some x => x | None => l1 end in
              let hex := match split_on x3b l2 with h :: _ => h | [] => [] end in
              match hex with
              | [] => st EInvalidData
              | _ =>
                  if forallb is_hexdigit hex then
                    match parse_hex 0 hex with
                    | None => st EInvalidData
                    | Some n =>
                        FOk [] {| c_src_f := s'; c_state_f := if N.eqb n 0 then CTrailer else CData; c_remaining_f := n |}
                    end
                  else st EInvalidData
              end
          end
      end
  end.

(* the trailer loop.  FOk [] s' = the blank line has been read *)
Fixpoint trailer_loop_f (fuel : nat) (s : src_f) : fres src_f :=
  match fuel with
  | O => FErr EUnexpectedEof s
  | S fuel' =>
      match read_line_f s with
      | FErr e s' => FErr e s'
      | FIntr s' => FIntr s'
      | FFail s' => FFail s'
      | FOk [] s' => FErr EUnexpectedEof s'
      | FOk line s' =>
          if bytes_eqb line [x0d; x0a] || bytes_eqb line [x0a] then FOk [] s'
          else trailer_loop_f fuel' s'
      end
  end.

(* advance: every `?` returns the failure; the state variable is only assigned after the step has succeeded *)
Fixpoint advance_f (fuel : nat) (c : chunked_f) : fres chunked_f :=
  match fuel with
  | O => FErr EInvalidData c
  | S fuel' =>
      match c_state_f c with
      | CSize =>
          match read_chunk_size_f c with
          | FOk _ c' => advance_f fuel' c'
          | e => e
          end
      | CData =>
          if N.eqb (c_remaining_f c) 0
          then advance_f fuel' {| c_src_f := c_src_f c; c_state_f := CCrlf; c_remaining_f := 0 |}
          else FOk [] c
      | CDone => FOk [] c
      | CCrlf =>
          let back s' := {| c_src_f := s'; c_state_f := CCrlf; c_remaining_f := c_remaining_f c |} in
          match read_exact_f 2%N (c_src_f c) with
          | FErr e s' => FErr e (back s')
          | FIntr s' => FIntr (back s')
          | FFail s' => FFail (back s')
          | FOk crlf s' =>
              if bytes_eqb crlf [x0d; x0a]
              then advance_f fuel' {| c_src_f := s'; c_state_f := CSize; c_remaining_f := c_remaining_f c |}
              else FErr EInvalidData (back s')
          end
      | CTrailer =>
          let back s' := {| c_src_f := s'; c_state_f := CTrailer; c_remaining_f := c_remaining_f c |} in
          match trailer_loop_f (sfuel_f (c_src_f c)) (c_src_f c) with
          | FOk _ s' => advance_f fuel' {| c_src_f := s'; c_state_f := CDone; c_remaining_f := c_remaining_f c |}
          | FErr e s' => FErr e (back s')
          | FIntr s' => FIntr (back s')
          | FFail s' => FFail (back s')
          end
      end
  end.
Definition adv_fuel_f (c : chunked_f) : nat := sfuel_f (c_src_f c).

(* Read::read(out of length k): `self.advance()?`, then the inner read under the F40 rule *)
Fixpoint chunked_read_loop_f (fuel : nat) (k : N) (c : chunked_f) (written : bytes) : fres chunked_f :=
  match fuel with
  | O => FOk written c
  | S fuel' =>
      match advance_f (adv_fuel_f c) c with
      | FErr e c' => FErr e c'
      | FIntr c' => FIntr c'
      | FFail c' => FFail c'
      | FOk _ c1 =>
          match c_state_f c1 with
          | CDone => FOk written c1
          | _ =>
              if N.eqb k 0 then FOk written c1
              else
                let to_read := N.min (c_remaining_f c1) k in
                let back s' := {| c_src_f := s'; c_state_f := c_state_f c1; c_remaining_f := c_remaining_f c1 |} in
                match buf_read_f to_read (c_src_f c1) with
                | FIntr s' => match written with [] => FIntr (back s') | _ => FOk written (back s') end
                | FFail s' => match written with [] => FFail (back s') | _ => FOk written (back s') end
                | FErr e s' => match written with [] => FErr e (back s') | _ => FOk written (back s') end
                | FOk [] s' => FErr EUnexpectedEof (back s')
                | FOk out s' =>
                    let n := lenN out in
                    let c2 := {| c_src_f := s'; c_state_f := c_state_f c1; c_remaining_f := (c_remaining_f c1 - n)%N |} in
                    if N.eqb (c_remaining_f c2) 0 || N.eqb (k - n) 0 then FOk (written ++ out) c2
                    else chunked_read_loop_f fuel' (k - n)%N c2 (written ++ out)
                end
          end
      end
  end.
Definition chunked_read_f (k : N) (c : chunked_f) : fres chunked_f :=
  chunked_read_loop_f (sfuel_f (c_src_f c)) k c [].

Definition chunked_fill_buf_f (c : chunked_f) : fres chunked_f :=
  match advance_f (adv_fuel_f c) c with
  | FErr e c' => FErr e c'
  | FIntr c' => FIntr c'
  | FFail c' => FFail c'
  | FOk _ c1 =>
      match c_state_f c1 with
      | CDone => FOk [] c1
      | _ =>
          let back s' := {| c_src_f := s'; c_state_f := c_state_f c1; c_remaining_f := c_remaining_f c1 |} in
          match fill_buf_f (c_src_f c1) with
          | FIntr s' => FIntr (back s')
          | FFail s' => FFail (back s')
          | FErr e s' => FErr e (back s')
          | FOk [] s' => FErr EUnexpectedEof (back s')
          | FOk b s' => FOk (firstnN (c_remaining_f c1) b) (back s')
          end
      end
  end.
Definition chunked_consume_f (amt : N) (c : chunked_f) : chunked_f :=
  {| c_src_f := consume_f amt (c_src_f c); c_state_f := c_state_f c; c_remaining_f := (c_remaining_f c - amt)%N |}.

(* ------------------------------------------------------------------ BodyEncoding *)
Inductive body_f :=
| BFixed_f (r : fixed_f) | BChunked_f (c : chunked_f) | BEof_f (s : src_f) | BEmpty_f (s : src_f).

Definition new_fixed_f (leftover : bytes) (evs : list sev2) (len : N) : body_f :=
  BFixed_f {| f_src_f := mk_src_take_f leftover evs len; f_remaining_f := len |}.
Definition new_chunked_f (leftover : bytes) (evs : list sev2) : body_f :=
  BChunked_f {| c_src_f := mk_src_f leftover evs; c_state_f := CSize; c_remaining_f := 0 |}.
Definition new_eof_f (leftover : bytes) (evs : list sev2) : body_f := BEof_f (mk_src_f leftover evs).
Definition new_empty_f (leftover : bytes) (evs : list sev2) : body_f := BEmpty_f (mk_src_f leftover evs).

Definition body_read_f (k : N) (b : body_f) : fres body_f :=
  match b with
  | BFixed_f r => fmap BFixed_f (fixed_read_f k r)
  | BChunked_f c => fmap BChunked_f (chunked_read_f k c)
  | BEof_f s => fmap BEof_f (buf_read_f k s)
  | BEmpty_f s => FOk [] b
  end.
Definition body_fill_buf_f (b : body_f) : fres body_f :=
  match b with
  | BFixed_f r => fmap BFixed_f (fixed_fill_buf_f r)
  | BChunked_f c => fmap BChunked_f (chunked_fill_buf_f c)
  | BEof_f s => fmap BEof_f (fill_buf_f s)
  | BEmpty_f s => FOk [] b
  end.
Definition body_consume_f (amt : N) (b : body_f) : body_f :=
  match b with
  | BFixed_f r => BFixed_f (fixed_consume_f amt r)
  | BChunked_f c => BChunked_f (chunked_consume_f amt c)
  | BEof_f s => BEof_f (consume_f amt s)
  | BEmpty_f s => b
  end.
Definition body_src_f (b : body_f) : src_f :=
  match b with BFixed_f r => f_src_f r | BChunked_f c => c_src_f c | BEof_f s => s | BEmpty_f s => s end.

(* ------------------------------------------------------------------ BodyReader { encoding, failed } *)
Record breader := { br_enc : body_f; br_failed : bool }.

(* note(): does this result set `failed`?  [nf] = whether a failure of the stream (FFail) does.  The code: any Err does
   (nf = true).  nf = false is the mutant used in Proofs/BodyFail.v to show that the theorem depends on it. *)
Definition sets_failed {S} (nf : bool) (r : fres S) : bool :=
  match r with FOk _ _ => false | FFail _ => nf | _ => true end.

Definition br_read_g (nf : bool) (k : N) (b : breader) : fres breader :=
  let r := body_read_f k (br_enc b) in
  fmap (fun e => {| br_enc := e; br_failed := br_failed b || sets_failed nf r |}) r.
Definition br_fill_buf_g (nf : bool) (b : breader) : fres breader :=
  let r := body_fill_buf_f (br_enc b) in
  fmap (fun e => {| br_enc := e; br_failed := br_failed b || sets_failed nf r |}) r.
Definition br_read := br_read_g true.
Definition br_fill_buf := br_fill_buf_g true.
Definition br_consume (n : N) (b : breader) : breader :=
  {| br_enc := body_consume_f n (br_enc b); br_failed := br_failed b |}.

(* drain(): `if self.failed { return false }`, then reads of 1024 straight from the encoding (not through note) until
   Ok(0) -> true or an error -> false *)
Fixpoint drain_f (fuel : nat) (e : body_f) : bool * body_f :=
  match fuel with
  | O => (false, e)
  | S fuel' =>
      match e with
      | BEof_f _ | BEmpty_f _ => (true, e)
      | _ =>
          match body_read_f 1024%N e with
          | FOk [] e' => (true, e')
          | FOk _ e' => drain_f fuel' e'
          | FErr _ e' => (false, e')
          | FIntr e' => (false, e')
          | FFail e' => (false, e')
          end
      end
  end.
Definition br_drain (fuel : nat) (b : breader) : bool * breader :=
  if br_failed b then (false, b)
  else let '(ok, e') := drain_f fuel (br_enc b) in (ok, {| br_enc := e'; br_failed := br_failed b |}).
(* a fuel that never runs out: every read of the loop but the last delivers a byte *)
Definition drain_fuel (b : breader) : nat := sfuel_f (body_src_f (br_enc b)).

(* beyond_body(): the BufReader's buffer and the unread part of the leftover slice (Empty: the leftover it was given) *)
Definition br_beyond (b : breader) : bytes :=
  match br_enc b with
  | BFixed_f r => bbuf_f (f_src_f r) ++ lo_f (f_src_f r)
  | BChunked_f c => bbuf_f (c_src_f c) ++ lo_f (c_src_f c)
  | BEof_f _ => []
  | BEmpty_f s => lo_f s
  end.
(* the bytes the connection has still to deliver *)
Definition br_ahead (b : breader) : bytes := concat (strip2 (evs_f (body_src_f (br_enc b)))).

(* ------------------------------------------------------------------ a handler that ignores every result *)
Inductive hop := HRead (k : N) | HFill | HConsume (n : N).

(* [shown]: the slice the last successful fill_buf showed, minus what has been consumed from it; a read, or a fill_buf
   that fails, ends its life.  consume(n) is clamped to it (the BufRead contract, as MTake in Model/BodyOps.v) *)
Fixpoint hrun_g (nf : bool) (b : breader) (shown : bytes) (ops : list hop) : breader :=
  match ops with
  | [] => b
  | HRead k :: rest => hrun_g nf (res_st (br_read_g nf k b)) [] rest
  | HFill :: rest =>
      let r := br_fill_buf_g nf b in
      hrun_g nf (res_st r) (match r with FOk sl _ => sl | _ => [] end) rest
  | HConsume n :: rest =>
      let n' := N.min n (lenN shown) in
      hrun_g nf (br_consume n' b) (skipnN n' shown) rest
  end.
Definition hrun (b : breader) (ops : list hop) : breader := hrun_g true b [] ops.
