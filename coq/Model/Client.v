(* Model of the receive side of /repo/src/client.rs: ClientRequestTcpStream::read_response (the head
   is parsed with Response::parse out of the bytes read so far, the bytes behind the head become the
   body reader's leftover) and BodyReader::from_response (/repo/src/body_reader.rs), followed by
   reading the body to its end (BodyReader::vec / read_to_end).
   Environment, explicit: [buf] is what the reads of read_response put into the head buffer (the
   whole head and possibly some bytes of the body; MAX_RESPONSE_HEAD is not modelled), [stream] is
   what the socket delivers after that (segments, [] = EOF), [sizes] are the buffer sizes of the
   successive read() calls of the caller's read-to-end loop.
   No proofs in this file. *)
From KV Require Import Lib.Bytes Model.Headers Model.Parser Model.Body.

(* BodyReader::from_response: Transfer-Encoding: chunked wins, then Content-Length (> 0: fixed,
   = 0: empty), otherwise the body runs to the end of the stream *)
Definition from_response (leftover : bytes) (sg : list bytes) (h : headers) : body :=
  if Headers.chunked h then new_chunked leftover sg
  else match content_length h with
       | Some n => if N.eqb n 0 then new_empty leftover sg else new_fixed leftover sg n
       | None => new_eof leftover sg
       end.

(* status code, reason phrase, header collection, body; None = parse error, read error, or the
   sizes ran out before the end of the body was reported *)
Definition client_receive_from (buf : bytes) (stream : list bytes) (sizes : list N)
  : option (N * bytes * headers * bytes) :=
  match parse_response buf with
  | Ok r =>
      let b := from_response (skipn (r_offset r) buf) stream (r_hdrs r) in
      match read_all b sizes [] with
      | (data, AtEof, _) => Some (r_code r, r_reason r, r_hdrs r, data)
      | _ => None
      end
  | _ => None
  end.

(* read_to_end reads with 8192-byte buffers here (as Model/Server.v does); every read before the
   end delivers at least one byte, so S (length wire) reads are enough *)
Definition READ_SIZE : N := 8192.
Definition read_sizes (wire : bytes) : list N := repeat READ_SIZE (S (length wire)).

(* all bytes of the response arrive in the one read of read_response, then EOF *)
Definition client_receive (wire : bytes) : option (N * bytes * headers * bytes) :=
  client_receive_from wire [] (read_sizes wire).
