(* Model of /repo/src/server/mod.rs: read_request (the bounded re-parse loop), handle_one_request
   (400 / 431 answers, framing check, pre-routing hook, body reader, handler, drain on drop,
   keep-alive decision) and handle_connection, over an inbound TCP stream given as the list of
   segments the server's reads will see (one segment = what is available when a read happens; [] =
   end of the script).  The application (handlers, hook) is a parameter: a function from the parsed
   request to a behaviour.  Responses are recorded abstractly (status, body, close header).
   No proofs in this file. *)
From KV Require Import Lib.Bytes Model.Headers Model.Parser Model.Body.

(* ------------------------------------------------------------------ the application *)
Inductive behaviour :=
| BAll                    (* read the whole body, then respond *)
| BReadK (k : N)          (* read up to k bytes, then respond *)
| BNone (status : N)      (* respond without reading *)
| BFirst                  (* respond, then read the whole body *)
| BHold                   (* respond, wait at the barrier, return without reading *)
| BErr                    (* return Err without responding *)
| BErrAfter               (* respond, then return Err *)
| BClose                  (* respond with connection: close *)
| BReader (n : N).        (* respond with an n-byte body through the streaming printer *)

Inductive hook_action := HProceed | HAnswer | HAnswerClose.

Record app := {
  behaviour_of : request -> behaviour;
  hook_of : request -> hook_action;
  (* the response body a handler produces from the request and the body bytes it read *)
  describe : request -> bytes -> bytes;
}.

Record response_ev := { rs_status : N; rs_body : bytes; rs_close : bool }.

(* ------------------------------------------------------------------ read_request *)
Inductive rr :=
| RParsed (buf : bytes) (r : request) | RTooLarge | RInvalid | REof.

(* fuel: each iteration reads at least one byte or stops *)
Fixpoint read_request (fuel : nat) (max_size : nat) (filled : bytes) (sg : list bytes) : rr * list bytes :=
  match fuel with
  | O => (REof, sg)
  | S fuel' =>
      if Nat.eqb (length filled) max_size then (RTooLarge, sg)
      else
        let '(out, sg') := stream_read (N.of_nat (max_size - length filled)) sg in
        match out with
        | [] => (REof, sg')                                   (* Ok(0): the peer closed *)
        | _ =>
            let buf := filled ++ out in
            match parse_request buf with
            | Ok r => (RParsed buf r, sg')
            | Err EEof => read_request fuel' max_size buf sg'
            | Err _ => (RInvalid, sg')
            | Fault _ => (RInvalid, sg')
            end
        end
  end.

(* ------------------------------------------------------------------ framing *)
(* the last Transfer-Encoding token is "chunked" (RFC 9112 6.3 for requests) *)
Definition te_tokens (h : headers) : list bytes := token_values h TRANSFER_ENCODING.
Definition te_final_chunked (h : headers) : bool :=
  match rev (te_tokens h) with
  | t :: _ => eq_ic t (bs "chunked")
  | [] => false
  end.
Definition te_present (h : headers) : bool := match te_tokens h with [] => false | _ => true end.

(* BodyReader::from_request *)
Definition from_request (leftover : bytes) (sg : list bytes) (h : headers) : body :=
  if Headers.chunked h then new_chunked leftover sg
  else match content_length h with
       | Some n => if N.eqb n 0 then new_empty leftover sg else new_fixed leftover sg n
       | None => new_empty leftover sg
       end.

(* ------------------------------------------------------------------ handlers *)
(* read_to_end: reads until Ok(0) or an error; buffer sizes are std's business, 8192 here *)
Fixpoint read_to_end (fuel : nat) (b : body) (acc : bytes) : (bytes + ioerr) * body :=
  match fuel with
  | O => (inl acc, b)
  | S fuel' =>
      match body_read 8192%N b with
      | RErr e b' => (inr e, b')
      | ROk [] b' => (inl acc, b')
      | ROk out b' => read_to_end fuel' b' (acc ++ out)
      end
  end.

(* `while got < n { read(&mut b[got..]) }` *)
Fixpoint read_k (fuel : nat) (k : N) (b : body) (acc : bytes) : (bytes + ioerr) * body :=
  match fuel with
  | O => (inl acc, b)
  | S fuel' =>
      if N.eqb k 0 then (inl acc, b)
      else match body_read k b with
           | RErr e b' => (inr e, b')
           | ROk [] b' => (inl acc, b')
           | ROk out b' => read_k fuel' (k - lenN out)%N b' (acc ++ out)
           end
  end.

Definition body_fuel (b : body) : nat := sfuel (body_src b).

(* what remains of the inbound stream once the body reader is dropped.  (fix F20c) Nothing is lost any more: the bytes the
   reader holds beyond the end of the body - the BufReader's read-ahead and the unread part of the leftover slice - are
   carried over to the next read_request, where they come first: a first segment in front of the future ones *)
Definition carry_of (s : src) : bytes := bbuf s ++ lo s.
Definition with_carry (c : bytes) (sg : list bytes) : list bytes := match c with [] => sg | _ => c :: sg end.
Definition after_drop (b : body) : list bytes :=
  let s := body_src (drain (body_fuel b) b) in with_carry (carry_of s) (segs s).
(* (fix F21) did the discard reach the end of the body?  [failed]: an earlier read of this reader has failed (the reader
   remembers it and does not try again) *)
Definition located (failed : bool) (b : body) : bool := negb failed && drain_ok (body_fuel b) b.

Definition reader_payload (n : N) : bytes :=
  map (fun i => n2b (97 + N.of_nat i mod 26)) (seq 0 (N.to_nat n)).

(* one handler call: responses emitted, handler result (true = Ok), remaining stream, and whether the end of the body was
   reached when the reader was dropped (fix F21: if not, the connection is closed after the response) *)
Definition run_handler (a : app) (r : request) (b : body) : list response_ev * bool * list bytes * bool :=
  let resp st body cl := {| rs_status := st; rs_body := body; rs_close := cl |} in
  match behaviour_of a r with
  | BAll =>
      match read_to_end (body_fuel b) b [] with
      | (inl data, b') => ([resp 200%N (describe a r data) false], true, after_drop b', located false b')
      | (inr _, b') => ([], false, after_drop b', false)
      end
  | BReadK k =>
      match read_k (body_fuel b) k b [] with
      | (inl data, b') => ([resp 200%N (describe a r data) false], true, after_drop b', located false b')
      | (inr _, b') => ([], false, after_drop b', false)
      end
  | BNone st => ([resp st (describe a r []) false], true, after_drop b, located false b)
  | BFirst =>
      (* the handler swallows a read error; the reader remembers it *)
      let '(res, b') := read_to_end (body_fuel b) b [] in
      ([resp 200%N (describe a r []) false], true, after_drop b', located (match res with inr _ => true | inl _ => false end) b')
  | BHold => ([resp 200%N (describe a r []) false], true, after_drop b, located false b)
  | BErr => ([], false, after_drop b, located false b)
  | BErrAfter => ([resp 200%N (describe a r []) false], false, after_drop b, located false b)
  | BClose => ([resp 200%N (describe a r []) true], true, after_drop b, located false b)
  | BReader n => ([resp 200%N (reader_payload n) false], true, after_drop b, located false b)
  end.

(* ------------------------------------------------------------------ handle_one_request *)
Record one := {
  o_resps : list response_ev;
  o_keep : bool;            (* Ok(keep_alive) *)
  o_ok : bool;              (* false: the handler's error is propagated (io::Result Err) *)
  o_rest : list bytes;
  o_hooked : bool;          (* the pre-routing hook ran *)
  o_eof : bool;             (* ended because the inbound stream had nothing more *)
}.

Definition close_resp (st : N) : response_ev := {| rs_status := st; rs_body := []; rs_close := true |}.

(* [ka]: the sticky keep_alive flag of the connection's ResponseHandle *)
Definition handle_one_request (a : app) (max_head : nat) (ka : bool) (sg : list bytes) : one :=
  match read_request (S (length sg) + length (concat sg)) max_head [] sg with
  | (RInvalid, sg') => {| o_resps := [close_resp 400]; o_keep := false; o_ok := true; o_rest := sg'; o_hooked := false; o_eof := false |}
  | (RTooLarge, sg') => {| o_resps := [close_resp 431]; o_keep := false; o_ok := true; o_rest := sg'; o_hooked := false; o_eof := false |}
  | (REof, sg') => {| o_resps := []; o_keep := false; o_ok := true; o_rest := sg'; o_hooked := false; o_eof := true |}
  | (RParsed buf r, sg') =>
      let h := q_hdrs r in
      (* a Transfer-Encoding whose final coding is not chunked cannot be framed: 400 *)
      if te_present h && negb (te_final_chunked h) then
        {| o_resps := [close_resp 400]; o_keep := false; o_ok := true; o_rest := sg'; o_hooked := false; o_eof := false |}
      else
      let client_close := connection_close h in
      let leftover := skipn (q_offset r) buf in
      let b := from_request leftover sg' h in
      match hook_of a r with
      | HAnswer =>
          {| o_resps := [{| rs_status := 200; rs_body := bs "hook"; rs_close := false |}];
             o_keep := ka && negb client_close && located false b; o_ok := true; o_rest := after_drop b; o_hooked := true; o_eof := false |}
      | HAnswerClose =>
          {| o_resps := [{| rs_status := 200; rs_body := bs "hook"; rs_close := true |}];
             o_keep := false; o_ok := true; o_rest := after_drop b; o_hooked := true; o_eof := false |}
      | HProceed =>
          let '(resps, ok, rest, loc) := run_handler a r b in
          let ka' := ka && negb (existsb rs_close resps) in
          {| o_resps := resps; o_keep := ok && negb client_close && ka' && loc; o_ok := ok; o_rest := rest; o_hooked := true; o_eof := false |}
      end
  end.

(* ------------------------------------------------------------------ handle_connection *)
Record conn_result := {
  c_resps : list response_ev;
  c_ok : bool;                 (* io::Result of handle_connection *)
  c_rest : list bytes;         (* undelivered / unread segments when the connection ended *)
  c_requests : nat;            (* requests whose head was parsed (pre-routing hook calls) *)
  c_waiting : bool;            (* the connection ended only because the script had no more input *)
}.

Fixpoint handle_connection (fuel : nat) (a : app) (max_head : nat) (ka : bool) (sg : list bytes)
         (acc : list response_ev) (nreq : nat) : conn_result :=
  match fuel with
  | O => {| c_resps := acc; c_ok := true; c_rest := sg; c_requests := nreq; c_waiting := false |}
  | S fuel' =>
      let o := handle_one_request a max_head ka sg in
      let acc' := acc ++ o_resps o in
      let n' := if o_hooked o then S nreq else nreq in
      if negb (o_ok o) then {| c_resps := acc'; c_ok := false; c_rest := o_rest o; c_requests := n'; c_waiting := false |}
      else if o_keep o then handle_connection fuel' a max_head (ka && negb (existsb rs_close (o_resps o))) (o_rest o) acc' n'
      else {| c_resps := acc'; c_ok := true; c_rest := o_rest o; c_requests := n'; c_waiting := o_eof o |}
  end.

Definition serve_conn (a : app) (max_head : nat) (sg : list bytes) : conn_result :=
  handle_connection (S (length sg) + length (concat sg)) a max_head true sg [] 0.
