(* C06, mixed use of the two faces of BodyReader (Model/Body.v): a driver that runs an arbitrary
   sequence of Read::read / BufRead::fill_buf / BufRead::consume calls against the model and records
   what the caller observes.  No proofs in this file.

   Operations.
     MRead k      read into a buffer of k bytes (k = 0 allowed).
     MFill        fill_buf: the caller is shown a slice.
     MConsume n   consume(n).  Contract of BufRead: n is at most the length of the slice the LAST
                  fill_buf returned, minus what has been consumed from it since; any other call on the
                  reader (a read) ends the life of that slice.  The driver tracks the slice still
                  visible to the caller ([shown]): MFill sets it, MConsume n drops its first n bytes,
                  MRead resets it to [].  A consume with n > length shown is a contract violation:
                  the driver records [EvMisuse] and stops (what the model itself would do --
                  [body_consume] skips n bytes of the BufReader and subtracts n from the remaining
                  count, Rust: debug_assert / usize underflow -- is outside the property; see
                  [consume_beyond_slice_breaks] in Proofs/BodyMixed.v).
     MTake a      the adaptive form a BufRead caller really uses: consume(min(a, length shown)).
                  Never a violation.
   The driver stops at the first error (and at the first contract violation). *)
From KV Require Import Lib.Bytes Model.Body Spec.ChunkedSpec.

Local Open Scope N_scope.

Inductive mop := MRead (k : N) | MFill | MConsume (n : N) | MTake (a : N).

(* what the caller observes of one operation *)
Inductive mev :=
| EvRead (k : N) (out : bytes)          (* read(k) returned Ok(out) *)
| EvFill (slice : bytes)                (* fill_buf returned Ok(slice) *)
| EvConsume (n : N) (taken : bytes)     (* consume(n): the caller has taken these bytes, the first n of the visible slice *)
| EvErr (o : mop) (e : ioerr)           (* the operation failed; the driver stops *)
| EvMisuse (n : N) (shown : bytes).     (* consume(n) with n > length shown; the driver stops *)

Fixpoint mrun (b : body) (shown : bytes) (ops : list mop) : list mev :=
  match ops with
  | [] => []
  | o :: rest =>
      match o with
      | MRead k =>
          match body_read k b with
          | RErr e _ => [EvErr o e]
          | ROk out b' => EvRead k out :: mrun b' [] rest
          end
      | MFill =>
          match body_fill_buf b with
          | RErr e _ => [EvErr o e]
          | ROk sl b' => EvFill sl :: mrun b' sl rest
          end
      | MConsume n =>
          if n <=? lenN shown
          then EvConsume n (firstnN n shown) :: mrun (body_consume n b) (skipnN n shown) rest
          else [EvMisuse n shown]
      | MTake a =>
          let n := N.min a (lenN shown) in
          EvConsume n (firstnN n shown) :: mrun (body_consume n b) (skipnN n shown) rest
      end
  end.

(* a fresh reader: no slice is visible *)
Definition mrun0 (b : body) (ops : list mop) : list mev := mrun b [] ops.

(* the bytes DELIVERED to the caller: what read returned, and what it took from a fill_buf slice *)
Definition ev_bytes (e : mev) : bytes :=
  match e with EvRead _ out => out | EvConsume _ taken => taken | _ => [] end.
Definition delivered (evs : list mev) : bytes := flat_map ev_bytes evs.

(* a normal end of body is reported: read into a non-empty buffer returned 0 bytes, or fill_buf
   returned the empty slice.  ([EvRead 0 []] is NOT an end report.) *)
Definition is_end (e : mev) : bool :=
  match e with
  | EvRead k [] => 0 <? k
  | EvFill [] => true
  | _ => false
  end.
Definition is_err (e : mev) : bool := match e with EvErr _ _ => true | _ => false end.
Definition is_misuse (e : mev) : bool := match e with EvMisuse _ _ => true | _ => false end.

(* well-formed run: the caller never violated the consume contract *)
Definition mwf (evs : list mev) : Prop := forall e, In e evs -> is_misuse e = false.

(* answered requests that must make progress: a read into a non-empty buffer, a consume of at
   least one byte, a fill_buf that reports the end *)
Definition counts (e : mev) : bool :=
  match e with
  | EvRead k _ => 0 <? k
  | EvConsume _ (_ :: _) => true
  | EvFill [] => true
  | _ => false
  end.
Definition asks (evs : list mev) : nat := length (filter counts evs).

(* the same on the operations: reads into a non-empty buffer and consumes of at least one byte *)
Definition asking (o : mop) : bool :=
  match o with MRead k => 0 <? k | MConsume n => 0 <? n | _ => false end.
Definition asking_ops (ops : list mop) : nat := length (filter asking ops).

(* after the end: nothing more is delivered and every request reports the end again *)
Definition quiet (e : mev) : Prop :=
  match e with
  | EvRead _ out => out = []
  | EvFill sl => sl = []
  | EvConsume _ taken => taken = []
  | EvErr _ _ => False
  | EvMisuse _ _ => True          (* the caller's fault, nothing delivered *)
  end.

(* the pure-interface drivers of Model/Body.v as op sequences, and their verdict read off a trace *)
Definition read_ops (sizes : list N) : list mop := map MRead sizes.
Definition bufread_ops (amts : list N) : list mop := flat_map (fun a => [MFill; MTake a]) amts.

(* scan a trace the way [read_all] / [bufread_all] do: stop at the first empty read / empty slice *)
Fixpoint verdict (acc : bytes) (evs : list mev) : bytes * outcome :=
  match evs with
  | [] => (acc, More)
  | EvErr _ e :: _ => (acc, Failed e)
  | EvRead _ [] :: _ => (acc, AtEof)
  | EvFill [] :: _ => (acc, AtEof)
  | ev :: rest => verdict (acc ++ ev_bytes ev) rest
  end.

(* ------------------------------------------------------------------ the longest valid payload prefix
   The recogniser of Spec/ChunkedSpec.v answers [Invalid why] without saying how much payload was
   sound before the encoding broke.  [spec_partial] follows the same grammar and returns the payload
   a strict decoder can vouch for: the data of every complete chunk (size line, data, CRLF), plus the
   data bytes that are present of a chunk whose data is cut short or is not followed by CRLF.  On a
   valid encoding it is the payload ([spec_partial_valid] in Proofs/BodyMixedPartial.v). *)
Definition part_after (rec : bytes -> bytes -> bytes) (after acc' : bytes) : bytes :=
  match after with
  | a :: b :: rest' => if Byte.eqb a x0d && Byte.eqb b x0a then rec rest' acc' else acc'
  | _ => acc'
  end.
Definition part_data (rec : bytes -> bytes -> bytes) (n : N) (rest acc : bytes) : bytes :=
  match take_n n rest with
  | None => acc ++ rest                                  (* chunk data cut short: all of it is payload *)
  | Some (data, after) => part_after rec after (acc ++ data)
  end.
Definition part_step (rec : bytes -> bytes -> bytes) (l acc : bytes) : bytes :=
  match line_crlf l with
  | Some (Some line, rest) =>
      let '(sz, ext) := take_while hexdig line in
      if nonempty sz && wf_ext ext && (hex_value sz <? 2 ^ 64) && negb (hex_value sz =? 0)
      then part_data rec (hex_value sz) rest acc
      else acc                                           (* bad size line, or the last chunk *)
  | _ => acc
  end.
Fixpoint part_chunks (fuel : nat) (l acc : bytes) : bytes :=
  match fuel with
  | O => acc
  | S f => part_step (part_chunks f) l acc
  end.
Definition spec_partial (l : bytes) : bytes := part_chunks (S (length l)) l [].
(* fixed length n: the bytes that are there *)
Definition spec_fixed_partial (n : N) (l : bytes) : bytes := firstnN n l.
