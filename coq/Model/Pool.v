(* Model of /repo/src/threadpool.rs as a labelled transition system.  Labels are the events the
   instrumented code logs (hook H2), with the logging discipline of DESIGN.md 4.4: release-type
   operations are logged before they happen, acquire-type ones after.
     main thread : Send (execute), DropSender, Joined (one per worker, in order), Returned (drop done)
     worker w    : Lock w (mutex acquired), Unlock w (recv has returned, guard about to drop),
                   JobStart j w / JobEnd j (emitted by the job), Exit w (loop left)
   The mpsc channel is a FIFO queue that can be received from only under the mutex; recv returns the
   head, or Disconnected when the queue is empty and the sender has been dropped.
   Safety obligations are NOT guards: [step] is enabled by control flow and by the semantics of
   channel/mutex/join only.  No proofs in this file. *)
From KV Require Import Lib.Bytes.

Inductive wstate :=
| WIdle                (* outside the critical section, about to lock *)
| WLocked              (* holds the mutex, inside recv *)
| WGot (j : nat)       (* recv returned job j, mutex released, job not started yet *)
| WRunning (j : nat)
| WDisc                (* recv returned Disconnected *)
| WExited.

Inductive mstate := MSubmitting | MJoining (i : nat) | MReturned.

Inductive label :=
| LSend | LDropSender | LJoined | LReturned
| LLock (w : nat) | LUnlock (w : nat) | LExit (w : nat)
| LJobStart (j w : nat) | LJobEnd (j : nat).

Record pstate := {
  p_workers : list wstate;      (* indexed by worker id *)
  p_queue : list nat;           (* jobs in the channel, oldest first *)
  p_sent : nat;                 (* number of jobs sent so far = id of the next job *)
  p_sender : bool;              (* the Sender is still alive *)
  p_lock : option nat;          (* holder of the receiver mutex *)
  p_main : mstate;
  p_starts : list nat;          (* ids of started jobs, in order (history) *)
  p_done : list nat;            (* ids of finished jobs, in order (history) *)
}.

Definition pool_init (n : nat) : pstate :=
  {| p_workers := repeat WIdle n; p_queue := []; p_sent := 0; p_sender := true; p_lock := None;
     p_main := MSubmitting; p_starts := []; p_done := [] |}.

Fixpoint set_nth {A} (l : list A) (i : nat) (x : A) : list A :=
  match l, i with
  | [], _ => []
  | _ :: r, O => x :: r
  | y :: r, S k => y :: set_nth r k x
  end.

Definition upd (s : pstate) (w : nat) (ws : wstate) : pstate :=
  {| p_workers := set_nth (p_workers s) w ws; p_queue := p_queue s; p_sent := p_sent s; p_sender := p_sender s;
     p_lock := p_lock s; p_main := p_main s; p_starts := p_starts s; p_done := p_done s |}.

Definition step (s : pstate) (l : label) : option pstate :=
  match l with
  | LSend =>
      match p_main s with
      | MSubmitting =>
          if p_sender s then
            Some {| p_workers := p_workers s; p_queue := p_queue s ++ [p_sent s]; p_sent := S (p_sent s);
                    p_sender := true; p_lock := p_lock s; p_main := MSubmitting; p_starts := p_starts s; p_done := p_done s |}
          else None
      | _ => None
      end
  | LDropSender =>
      match p_main s with
      | MSubmitting =>
          Some {| p_workers := p_workers s; p_queue := p_queue s; p_sent := p_sent s; p_sender := false;
                  p_lock := p_lock s; p_main := MJoining 0; p_starts := p_starts s; p_done := p_done s |}
      | _ => None
      end
  | LJoined =>
      match p_main s with
      | MJoining i =>
          (* join(i) returns only after thread i has terminated *)
          match nth_error (p_workers s) i with
          | Some WExited =>
              Some {| p_workers := p_workers s; p_queue := p_queue s; p_sent := p_sent s; p_sender := p_sender s;
                      p_lock := p_lock s; p_main := MJoining (S i); p_starts := p_starts s; p_done := p_done s |}
          | _ => None
          end
      | _ => None
      end
  | LReturned =>
      match p_main s with
      | MJoining i =>
          if Nat.eqb i (length (p_workers s)) then
            Some {| p_workers := p_workers s; p_queue := p_queue s; p_sent := p_sent s; p_sender := p_sender s;
                    p_lock := p_lock s; p_main := MReturned; p_starts := p_starts s; p_done := p_done s |}
          else None
      | _ => None
      end
  | LLock w =>
      match nth_error (p_workers s) w, p_lock s with
      | Some WIdle, None =>
          let s' := upd s w WLocked in
          Some {| p_workers := p_workers s'; p_queue := p_queue s; p_sent := p_sent s; p_sender := p_sender s;
                  p_lock := Some w; p_main := p_main s; p_starts := p_starts s; p_done := p_done s |}
      | _, _ => None
      end
  | LUnlock w =>
      match nth_error (p_workers s) w with
      | Some WLocked =>
          (* recv has returned: the oldest queued job, or Disconnected *)
          match p_queue s with
          | j :: q =>
              let s' := upd s w (WGot j) in
              Some {| p_workers := p_workers s'; p_queue := q; p_sent := p_sent s; p_sender := p_sender s;
                      p_lock := None; p_main := p_main s; p_starts := p_starts s; p_done := p_done s |}
          | [] =>
              if p_sender s then None      (* recv still blocks *)
              else
                let s' := upd s w WDisc in
                Some {| p_workers := p_workers s'; p_queue := []; p_sent := p_sent s; p_sender := false;
                        p_lock := None; p_main := p_main s; p_starts := p_starts s; p_done := p_done s |}
          end
      | _ => None
      end
  | LJobStart j w =>
      match nth_error (p_workers s) w with
      | Some (WGot j') =>
          if Nat.eqb j j' then
            let s' := upd s w (WRunning j) in
            Some {| p_workers := p_workers s'; p_queue := p_queue s; p_sent := p_sent s; p_sender := p_sender s;
                    p_lock := p_lock s; p_main := p_main s; p_starts := p_starts s ++ [j]; p_done := p_done s |}
          else None
      | _ => None
      end
  | LJobEnd j =>
      (* the worker running j *)
      match find_index (fun ws => match ws with WRunning j' => Nat.eqb j j' | _ => false end) (p_workers s) with
      | Some w =>
          let s' := upd s w WIdle in
          Some {| p_workers := p_workers s'; p_queue := p_queue s; p_sent := p_sent s; p_sender := p_sender s;
                  p_lock := p_lock s; p_main := p_main s; p_starts := p_starts s; p_done := p_done s ++ [j] |}
      | None => None
      end
  | LExit w =>
      match nth_error (p_workers s) w with
      | Some WDisc => Some (upd s w WExited)
      | _ => None
      end
  end.

Fixpoint run (s : pstate) (tr : list label) : option pstate :=
  match tr with
  | [] => Some s
  | l :: r => match step s l with Some s' => run s' r | None => None end
  end.

(* index of the first label that is not enabled, for reporting *)
Fixpoint first_rejected (s : pstate) (tr : list label) (i : nat) : option nat :=
  match tr with
  | [] => None
  | l :: r => match step s l with Some s' => first_rejected s' r (S i) | None => Some i end
  end.
