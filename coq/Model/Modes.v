(* Model of the three accept loops of /repo/src/server/mod.rs and /repo/src/server/epoll.rs above the
   per-connection functions of Model/Server.v, with the lifecycle hooks.
   A history is a list of incoming connections; each has the decision its setup hook returns and the
   inbound segments the client will send on it (connections are independent: no more open
   connections than workers).  No proofs in this file. *)
From KV Require Import Lib.Bytes Model.Headers Model.Parser Model.Body Model.Server.

Inductive setup_decision := SProceed | SDrop | SStop.

Inductive hook_event :=
| HSetup                      (* connection_setup_hook called *)
| HPreRouting                 (* pre_routing_hook called (once per parsed request) *)
| HTeardown (ok : bool).      (* connection_teardown_hook called with the final io::Result *)

Record conn_in := { ci_decision : setup_decision; ci_segs : list bytes }.
Record conn_out := { co_resps : list response_ev; co_hooks : list hook_event; co_waiting : bool }.

Inductive mode := MPool | MThreaded | MEpoll.

(* serve / serve_threaded: PoolJob::run / the spawned closure: handle_connection, then the teardown hook *)
Definition blocking_connection (a : app) (max_head : nat) (sg : list bytes) : conn_out :=
  let r := serve_conn a max_head sg in
  {| co_resps := c_resps r;
     co_hooks := HSetup :: repeat HPreRouting (c_requests r) ++ [HTeardown (c_ok r)];
     co_waiting := c_waiting r |}.

(* serve_epoll: every readiness event dispatches ONE handle_one_request with a fresh ResponseHandle
   (keep_alive = true); keep-alive re-arms the connection, otherwise DEL + teardown hook + close *)
Fixpoint epoll_dispatches (fuel : nat) (a : app) (max_head : nat) (sg : list bytes)
         (acc : list response_ev) (nreq : nat) : list response_ev * nat * bool * bool :=
  match fuel with
  | O => (acc, nreq, true, false)
  | S fuel' =>
      let o := handle_one_request a max_head true sg in
      let acc' := acc ++ o_resps o in
      let n' := if o_hooked o then S nreq else nreq in
      if o_ok o && o_keep o then epoll_dispatches fuel' a max_head (o_rest o) acc' n'
      else (acc', n', o_ok o, o_eof o)
  end.

Definition epoll_connection (a : app) (max_head : nat) (sg : list bytes) : conn_out :=
  let '(resps, nreq, ok, waiting) := epoll_dispatches (S (length sg) + length (concat sg)) a max_head sg [] 0 in
  {| co_resps := resps;
     co_hooks := HSetup :: repeat HPreRouting nreq ++ [HTeardown ok];
     co_waiting := waiting |}.

Definition one_connection (m : mode) (a : app) (max_head : nat) (sg : list bytes) : conn_out :=
  match m with
  | MEpoll => epoll_connection a max_head sg
  | _ => blocking_connection a max_head sg
  end.

(* the accept loop: connections in arrival order until the setup hook answers StopAccepting *)
Fixpoint serve_mode (m : mode) (a : app) (max_head : nat) (cs : list conn_in) : list conn_out * bool :=
  match cs with
  | [] => ([], false)                                   (* still accepting *)
  | c :: rest =>
      match ci_decision c with
      | SStop => ([], true)                             (* the serve call returns *)
      | SDrop =>
          let '(outs, stopped) := serve_mode m a max_head rest in
          ({| co_resps := []; co_hooks := [HSetup]; co_waiting := false |} :: outs, stopped)
      | SProceed =>
          let '(outs, stopped) := serve_mode m a max_head rest in
          (one_connection m a max_head (ci_segs c) :: outs, stopped)
      end
  end.

(* the connections accepted before the setup hook first answers StopAccepting *)
Fixpoint before_stop (cs : list conn_in) : list conn_in :=
  match cs with
  | [] => []
  | c :: r => match ci_decision c with SStop => [] | _ => c :: before_stop r end
  end.
