(* Model of /repo/src/body_reader.rs: StreamWithLeftover, FixedReader, ChunkedReader and the public
   BodyReader (Read and BufRead faces, drain), over a model of std::io::BufReader (capacity 4096).
   The byte source is explicit: already-buffered leftover bytes followed by a stream that delivers
   its data in segments (one segment = what one read() of the socket can return at most).
   Modelled, not verified: BufReader::{read, fill_buf, consume, read_exact, read_line (read_until +
   UTF-8 check)} as documented in DESIGN.md section 3.  No proofs in this file. *)
From KV Require Import Lib.Bytes Lib.Utf8.

Definition BUF_SIZE : N := 4096.

(* Buffer sizes, lengths and counts are binary numbers (N): a caller may pass a 128 KiB buffer and a
   body may declare 2^64-1 bytes.  firstn/skipn by an N count, recursing over the list. *)
Fixpoint firstnN (k : N) (l : bytes) : bytes :=
  match l with
  | [] => []
  | x :: r => if N.eqb k 0 then [] else x :: firstnN (N.pred k) r
  end.
Fixpoint skipnN (k : N) (l : bytes) : bytes :=
  match l with
  | [] => []
  | x :: r => if N.eqb k 0 then l else skipnN (N.pred k) r
  end.
Definition lenN (l : bytes) : N := N.of_nat (length l).

(* ------------------------------------------------------------------ the byte source *)
Record src := {
  bbuf : bytes;           (* BufReader: buffered, not yet consumed *)
  lo : bytes;             (* StreamWithLeftover: leftover not yet replayed *)
  segs : list bytes;      (* the stream: future segments, [] = EOF *)
  sfuel : nat;            (* a constant of the model only: loop fuel, fixed at creation from the total input length *)
  stake : option N;       (* Read::take(limit) between the BufReader and the stream: bytes it may still pass on *)
}.

Definition mk_src (leftover : bytes) (stream : list bytes) : src :=
  {| bbuf := []; lo := leftover; segs := stream;
     sfuel := 4 * S (length leftover + length (concat stream)) + 8; stake := None |}.
(* the same source behind `.take(limit)` *)
Definition mk_src_take (leftover : bytes) (stream : list bytes) (limit : N) : src :=
  {| bbuf := []; lo := leftover; segs := stream;
     sfuel := 4 * S (length leftover + length (concat stream)) + 8; stake := Some limit |}.

(* everything still unread, in order *)
Definition src_rest (s : src) : bytes := bbuf s ++ lo s ++ concat (segs s).

(* R::read on the stream: at most k bytes of the first non-empty segment *)
Fixpoint stream_read (k : N) (sg : list bytes) : bytes * list bytes :=
  match sg with
  | [] => ([], [])
  | [] :: rest => stream_read k rest                    (* a read never returns 0 before EOF *)
  | g :: rest =>
      let out := firstnN k g in
      match skipnN k g with
      | [] => (out, rest)
      | g' => (out, g' :: rest)
      end
  end.

(* StreamWithLeftover::read(k): returns the bytes and the new (lo, segs) *)
Definition inner_read (k : N) (l : bytes) (sg : list bytes) : bytes * bytes * list bytes :=
  match l with
  | _ :: _ => (firstnN k l, skipnN k l, sg)
  | [] => let '(out, sg') := stream_read k sg in (out, [], sg')
  end.

(* Take<StreamWithLeftover>::read(k): at most `limit` more bytes, Ok(0) once the limit is used up *)
Definition take_read (k : N) (s : src) : bytes * bytes * list bytes * option N :=
  match stake s with
  | None => let '(out, l', sg') := inner_read k (lo s) (segs s) in (out, l', sg', None)
  | Some lim =>
      if N.eqb lim 0 then ([], lo s, segs s, Some 0%N)
      else let '(out, l', sg') := inner_read (N.min k lim) (lo s) (segs s) in
           (out, l', sg', Some (lim - lenN out)%N)
  end.

(* BufReader::fill_buf: refill (one inner read of up to capacity) only when empty *)
Definition fill_buf (s : src) : src :=
  match bbuf s with
  | _ :: _ => s
  | [] => let '(out, l', sg', tk) := take_read BUF_SIZE s in
          {| bbuf := out; lo := l'; segs := sg'; sfuel := sfuel s; stake := tk |}
  end.

Definition consume (n : N) (s : src) : src :=
  {| bbuf := skipnN n (bbuf s); lo := lo s; segs := segs s; sfuel := sfuel s; stake := stake s |}.

(* BufReader::read(k): bypass when the buffer is empty and k >= capacity *)
Definition buf_read (k : N) (s : src) : bytes * src :=
  match bbuf s with
  | [] =>
      if N.leb BUF_SIZE k then
        let '(out, l', sg', tk) := take_read k s in (out, {| bbuf := []; lo := l'; segs := sg'; sfuel := sfuel s; stake := tk |})
      else
        let s' := fill_buf s in (firstnN k (bbuf s'), consume k s')
  | _ :: _ => (firstnN k (bbuf s), consume k s)
  end.

(* BufReader::read_exact(n): None = UnexpectedEof.  fuel bounds the default loop (each read >= 1 byte) *)
Fixpoint read_exact_loop (fuel : nat) (n : N) (s : src) (acc : bytes) : option (bytes * src) :=
  if N.eqb n 0 then Some (acc, s)
  else
    match fuel with
    | O => None
    | S fuel' =>
        let '(out, s') := buf_read n s in
        match out with
        | [] => None
        | _ => read_exact_loop fuel' (n - lenN out) s' (acc ++ out)
        end
    end.
Definition read_exact (n : N) (s : src) : option (bytes * src) :=
  if N.leb n (lenN (firstnN n (bbuf s))) then Some (firstnN n (bbuf s), consume n s)
  else read_exact_loop (N.to_nat n) n s [].

(* BufRead::read_until(b'\n'): (appended bytes, new source).  fuel = number of refills *)
Fixpoint read_until_lf (fuel : nat) (s : src) (acc : bytes) : bytes * src :=
  match fuel with
  | O => (acc, s)
  | S fuel' =>
      let s1 := fill_buf s in
      let avail := bbuf s1 in
      match find_index (Byte.eqb x0a) avail with
      | Some i => (acc ++ firstn (S i) avail, consume (N.of_nat (S i)) s1)
      | None =>
          match avail with
          | [] => (acc, s1)
          | _ => read_until_lf fuel' (consume (lenN avail) s1) (acc ++ avail)
          end
      end
  end.

Inductive ioerr := EUnexpectedEof | EInvalidData.

(* BufRead::read_line into an empty String: the line, or InvalidData when it is not UTF-8
   (the bytes are consumed either way) *)
Definition read_line (s : src) : (bytes + ioerr) * src :=
  let '(line, s') := read_until_lf (sfuel s) s [] in
  if utf8_valid line then (inl line, s') else (inr EInvalidData, s').

(* ------------------------------------------------------------------ FixedReader *)
Record fixed := { f_src : src; f_remaining : N }.

Inductive rres (S : Type) := ROk (out : bytes) (st : S) | RErr (e : ioerr) (st : S).
Arguments ROk {S} out st.
Arguments RErr {S} e st.

Definition fixed_read (k : N) (r : fixed) : rres fixed :=
  (* (fix F38) an empty caller buffer reads nothing and reports nothing *)
  if N.eqb (f_remaining r) 0 || N.eqb k 0 then ROk [] r
  else
    let to_read := N.min (f_remaining r) k in
    let '(out, s') := buf_read to_read (f_src r) in
    match out with
    | [] => RErr EUnexpectedEof {| f_src := s'; f_remaining := f_remaining r |}   (* n == 0 *)
    | _ => ROk out {| f_src := s'; f_remaining := (f_remaining r - lenN out)%N |}
    end.

(* BufRead face: fill_buf returns the visible slice; consume(amt) *)
Definition fixed_fill_buf (r : fixed) : rres fixed :=
  if N.eqb (f_remaining r) 0 then ROk [] r
  else
    let s' := fill_buf (f_src r) in
    match bbuf s' with
    | [] => RErr EUnexpectedEof {| f_src := s'; f_remaining := f_remaining r |}
    | b => ROk (firstnN (f_remaining r) b) {| f_src := s'; f_remaining := f_remaining r |}
    end.
Definition fixed_consume (amt : N) (r : fixed) : fixed :=
  {| f_src := consume amt (f_src r); f_remaining := (f_remaining r - amt)%N |}.

(* ------------------------------------------------------------------ ChunkedReader *)
Inductive cstate := CSize | CData | CCrlf | CTrailer | CDone.
Record chunked := { c_src : src; c_state : cstate; c_remaining : N }.

Definition is_hexdigit (b : byte) : bool :=
  is_digit b || ((65 <=? b2n b) && (b2n b <=? 70))%N || ((97 <=? b2n b) && (b2n b <=? 102))%N.
Definition hexval (b : byte) : N :=
  if is_digit b then (b2n b - 48)%N else if (b2n b <=? 70)%N then (b2n b - 55)%N else (b2n b - 87)%N.
Definition USIZE_MAX : N := 18446744073709551615.
(* usize::from_str_radix(hex, 16) on a non-empty all-hex string: None on overflow *)
Fixpoint parse_hex (acc : N) (l : bytes) : option N :=
  match l with
  | [] => Some acc
  | b :: r => let acc' := (acc * 16 + hexval b)%N in
              if (acc' <=? USIZE_MAX)%N then parse_hex acc' r else None
  end.

Definition strip_suffix_byte (c : byte) (l : bytes) : option bytes :=
  match rev l with
  | x :: r => if Byte.eqb x c then Some (rev r) else None
  | [] => None
  end.

(* read_chunk_size *)
Definition read_chunk_size (c : chunked) : rres chunked :=
  let '(r, s') := read_line (c_src c) in
  let st e := RErr e {| c_src := s'; c_state := c_state c; c_remaining := c_remaining c |} in
  match r with
  | inr e => st e
  | inl line =>
      match line with
      | [] => st EUnexpectedEof                                   (* read_line returned 0 *)
      | _ =>
          match strip_suffix_byte x0a line with
          | None => st EUnexpectedEof                             (* size line cut off by EOF *)
          | Some l1 =>
              let l2 := match strip_suffix_byte x0d l1 with Some x => x | None => l1 end in
              let hex := match split_on x3b l2 with h :: _ => h | [] => [] end in
              match hex with
              | [] => st EInvalidData
              | _ =>
                  if forallb is_hexdigit hex then
                    match parse_hex 0 hex with
                    | None => st EInvalidData
                    | Some n =>
                        ROk [] {| c_src := s'; c_state := if N.eqb n 0 then CTrailer else CData; c_remaining := n |}
                    end
                  else st EInvalidData
              end
          end
      end
  end.

(* the trailer loop: read lines until the blank one; EOF first is an error *)
Fixpoint trailer_loop (fuel : nat) (s : src) : option ioerr * src :=
  match fuel with
  | O => (Some EUnexpectedEof, s)
  | S fuel' =>
      let '(r, s') := read_line s in
      match r with
      | inr e => (Some e, s')
      | inl [] => (Some EUnexpectedEof, s')
      | inl line =>
          if bytes_eqb line [x0d; x0a] || bytes_eqb line [x0a] then (None, s')
          else trailer_loop fuel' s'
      end
  end.

(* advance: past size lines, chunk terminators and trailers, until chunk data or the end *)
Fixpoint advance (fuel : nat) (c : chunked) : rres chunked :=
  match fuel with
  | O => RErr EInvalidData c      (* out of fuel: excluded by the fuel bound used below *)
  | S fuel' =>
      match c_state c with
      | CSize =>
          match read_chunk_size c with
          | ROk _ c' => advance fuel' c'
          | e => e
          end
      | CData =>
          if N.eqb (c_remaining c) 0
          then advance fuel' {| c_src := c_src c; c_state := CCrlf; c_remaining := 0 |}
          else ROk [] c
      | CDone => ROk [] c
      | CCrlf =>
          match read_exact 2%N (c_src c) with
          | None => RErr EUnexpectedEof c
          | Some (crlf, s') =>
              if bytes_eqb crlf [x0d; x0a]
              then advance fuel' {| c_src := s'; c_state := CSize; c_remaining := c_remaining c |}
              else RErr EInvalidData {| c_src := s'; c_state := CCrlf; c_remaining := c_remaining c |}
          end
      | CTrailer =>
          match trailer_loop (sfuel (c_src c)) (c_src c) with
          | (None, s') => advance fuel' {| c_src := s'; c_state := CDone; c_remaining := c_remaining c |}
          | (Some e, s') => RErr e {| c_src := s'; c_state := CTrailer; c_remaining := c_remaining c |}
          end
      end
  end.
Definition adv_fuel (c : chunked) : nat := sfuel (c_src c).

(* Read::read(out of length k) *)
Fixpoint chunked_read_loop (fuel : nat) (k : N) (c : chunked) (written : bytes) : rres chunked :=
  match fuel with
  | O => ROk written c
  | S fuel' =>
      match advance (adv_fuel c) c with
      | RErr e c' => RErr e c'
      | ROk _ c1 =>
          match c_state c1 with
          | CDone => ROk written c1
          | _ =>
              if N.eqb k 0 then ROk written c1
              else
                let to_read := N.min (c_remaining c1) k in
                let '(out, s') := buf_read to_read (c_src c1) in
                match out with
                | [] => RErr EUnexpectedEof {| c_src := s'; c_state := c_state c1; c_remaining := c_remaining c1 |}
                | _ =>
                    let n := lenN out in
                    let c2 := {| c_src := s'; c_state := c_state c1; c_remaining := (c_remaining c1 - n)%N |} in
                    if N.eqb (c_remaining c2) 0 || N.eqb (k - n) 0 then ROk (written ++ out) c2
                    else chunked_read_loop fuel' (k - n)%N c2 (written ++ out)
                end
          end
      end
  end.
(* each iteration of the loop delivers at least one byte of the source: its fuel is the source's *)
Definition chunked_read (k : N) (c : chunked) : rres chunked := chunked_read_loop (sfuel (c_src c)) k c [].

Definition chunked_fill_buf (c : chunked) : rres chunked :=
  match advance (adv_fuel c) c with
  | RErr e c' => RErr e c'
  | ROk _ c1 =>
      match c_state c1 with
      | CDone => ROk [] c1
      | _ =>
          let s' := fill_buf (c_src c1) in
          let c2 := {| c_src := s'; c_state := c_state c1; c_remaining := c_remaining c1 |} in
          match bbuf s' with
          | [] => RErr EUnexpectedEof c2
          | b => ROk (firstnN (c_remaining c1) b) c2
          end
      end
  end.
Definition chunked_consume (amt : N) (c : chunked) : chunked :=
  {| c_src := consume amt (c_src c); c_state := c_state c; c_remaining := (c_remaining c - amt)%N |}.

(* ------------------------------------------------------------------ BodyReader *)
Inductive body :=
| BFixed (r : fixed) | BChunked (c : chunked) | BEof (s : src) | BEmpty (s : src).

Definition new_fixed (leftover : bytes) (stream : list bytes) (len : N) : body :=
  BFixed {| f_src := mk_src_take leftover stream len; f_remaining := len |}.
Definition new_chunked (leftover : bytes) (stream : list bytes) : body :=
  BChunked {| c_src := mk_src leftover stream; c_state := CSize; c_remaining := 0 |}.
Definition new_eof (leftover : bytes) (stream : list bytes) : body := BEof (mk_src leftover stream).
Definition new_empty (leftover : bytes) (stream : list bytes) : body := BEmpty (mk_src leftover stream).

Definition lift {S} (f : S -> body) (r : rres S) : rres body :=
  match r with ROk o s => ROk o (f s) | RErr e s => RErr e (f s) end.

Definition body_read (k : N) (b : body) : rres body :=
  match b with
  | BFixed r => lift BFixed (fixed_read k r)
  | BChunked c => lift BChunked (chunked_read k c)
  | BEof s => let '(out, s') := buf_read k s in ROk out (BEof s')
  | BEmpty s => ROk [] b
  end.
Definition body_fill_buf (b : body) : rres body :=
  match b with
  | BFixed r => lift BFixed (fixed_fill_buf r)
  | BChunked c => lift BChunked (chunked_fill_buf c)
  | BEof s => let s' := fill_buf s in ROk (bbuf s') (BEof s')
  | BEmpty s => ROk [] b
  end.
Definition body_consume (amt : N) (b : body) : body :=
  match b with
  | BFixed r => BFixed (fixed_consume amt r)
  | BChunked c => BChunked (chunked_consume amt c)
  | BEof s => BEof (consume amt s)
  | BEmpty s => b
  end.

(* what is left unread in the underlying source (for C07: where the next request starts) *)
Definition body_src (b : body) : src :=
  match b with BFixed r => f_src r | BChunked c => c_src c | BEof s => s | BEmpty s => s end.

(* ------------------------------------------------------------------ drivers *)
Inductive outcome := AtEof | Failed (e : ioerr) | More.

(* read with the given buffer sizes until end-of-body, an error, or the sizes run out *)
Fixpoint read_all (b : body) (sizes : list N) (acc : bytes) : bytes * outcome * body :=
  match sizes with
  | [] => (acc, More, b)
  | k :: rest =>
      match body_read k b with
      | RErr e b' => (acc, Failed e, b')
      | ROk [] b' => (acc, AtEof, b')
      | ROk out b' => read_all b' rest (acc ++ out)
      end
  end.

(* BufRead loop: fill_buf, take min(amt, available) bytes, consume them *)
Fixpoint bufread_all (b : body) (amts : list N) (acc : bytes) : bytes * outcome * body :=
  match amts with
  | [] => (acc, More, b)
  | a :: rest =>
      match body_fill_buf b with
      | RErr e b' => (acc, Failed e, b')
      | ROk [] b' => (acc, AtEof, b')
      | ROk avail b' =>
          let got := firstnN a avail in
          bufread_all (body_consume (lenN got) b') rest (acc ++ got)
      end
  end.

(* (fix F21) drain reports whether it reached the end of the body: false when a read fails (the body is cut short or
   malformed); the request loop then closes the connection after the response *)
Fixpoint drain_ok (fuel : nat) (b : body) : bool :=
  match fuel with
  | O => false
  | S fuel' =>
      match b with
      | BEof _ | BEmpty _ => true
      | _ =>
          match body_read 1024%N b with
          | RErr _ _ => false
          | ROk [] _ => true
          | ROk _ b' => drain_ok fuel' b'
          end
      end
  end.

(* BodyReader::drain (on drop): read 1024 bytes at a time until Ok(0) or an error *)
Fixpoint drain (fuel : nat) (b : body) : body :=
  match fuel with
  | O => b
  | S fuel' =>
      match b with
      | BEof _ | BEmpty _ => b
      | _ =>
          match body_read 1024%N b with
          | RErr _ b' => b'
          | ROk [] b' => b'
          | ROk _ b' => drain fuel' b'
          end
      end
  end.
