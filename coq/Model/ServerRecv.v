(* Model of the receive side of the server for one request, as a function of the bytes on the wire:
   Request::parse (/repo/src/parser/request.rs) on the bytes read so far, the bytes behind the head
   become the leftover of the body reader chosen by BodyReader::from_request
   (/repo/src/body_reader.rs, Model/Server.v), and the handler reads the body to its end
   (read_to_end).  The counterpart of Model/Client.v for requests.
   Environment, explicit: [buf] is what the reads of read_request put into the head buffer (the
   whole head and possibly some bytes of the body; max_request_head is not modelled here), [stream]
   is what the socket delivers after that (segments, [] = EOF), [sizes] are the buffer sizes of the
   successive read() calls of the handler's read-to-end loop.
   The framing gate of handle_one_request (te_present && !te_final_chunked: 400) is not part of
   this function; Proofs/ServerRound.v shows separately that it lets the printed requests pass.
   No proofs in this file. *)
From KV Require Import Lib.Bytes Model.Headers Model.Parser Model.Body Model.Server Model.Client.

(* method text, full target, header collection, body; None = parse error, read error, or the
   sizes ran out before the end of the body was reported *)
Definition server_receive_from (buf : bytes) (stream : list bytes) (sizes : list N)
  : option (bytes * bytes * headers * bytes) :=
  match parse_request buf with
  | Ok r =>
      let b := from_request (skipn (q_offset r) buf) stream (q_hdrs r) in
      match read_all b sizes [] with
      | (data, AtEof, _) => Some (method_str (q_meth r), full (q_target r), q_hdrs r, data)
      | _ => None
      end
  | _ => None
  end.

(* all bytes of the request arrive in the one read of read_request, then EOF; the body is read with
   READ_SIZE-byte buffers (Model/Client.v; 8192, as read_to_end of Model/Server.v does) *)
Definition server_receive (wire : bytes) : option (bytes * bytes * headers * bytes) :=
  server_receive_from wire [] (read_sizes wire).
