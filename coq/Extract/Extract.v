(* Extraction of the executable models and specs to OCaml (oracle/model.ml).
   Directives: ExtrOcamlBasic only (bool, option, unit, list, prod, sumbool, sumor and their
   functions map to OCaml's); nat, positive, N, Z and byte stay the extracted inductives. *)
From Coq Require Extraction.
From Coq Require Import ExtrOcamlBasic.
From KV Require Import Lib.Bytes Model.Date Spec.Calendar Model.Router Spec.RouterSpec Model.Headers Spec.HeaderStore Model.Parser Spec.HttpGrammar Spec.ClSpec Model.Body Model.BodyIntr Model.BodyFail Spec.ChunkedSpec Model.Server Spec.Framing Spec.ConnSpec Spec.ConnKnown Model.Printer Spec.MessageSpec Spec.PrinterSpec Spec.PrinterSpecGen Model.Pool Model.Epoll Model.Memory.

Extraction Language OCaml.
Extraction "model.ml"
  n2b b2n z2b b2z N.add N.mul N.div_eucl N.eqb N.leb Z.add Z.mul Z.eqb
  Date.format_http_date Date.cache_run Date.cache_init
  Router.match_route RouterSpec.spec_route RouterSpec.wf_table
  Headers.hstep Headers.new_headers Headers.get Headers.get_all Headers.token_values Headers.get_count
  PrinterSpecGen.printable_st PrinterSpecGen.norm_field HeaderStore.store_step HeaderStore.spec_cl HeaderStore.eval_chunked HeaderStore.eval_close HeaderStore.lookup_all HeaderStore.lookup_last HeaderStore.tokens
  Parser.parse_request Parser.parse_response Parser.method_str Parser.uri_path Parser.uri_query Parser.uri_scheme Parser.uri_authority Parser.uri_path_and_query
  HttpGrammar.strict_head HttpGrammar.headers_of HttpGrammar.sfield_pairs HttpGrammar.render HttpGrammar.rfc_head HttpGrammar.cl_consistent ClSpec.cl_consistent_rfc
  HttpGrammar.target_path HttpGrammar.target_query HttpGrammar.field_pairs HttpGrammar.render_target
  BodyFail.new_fixed_f BodyFail.new_chunked_f BodyFail.body_read_f BodyFail.body_fill_buf_f BodyFail.body_consume_f
  BodyIntr.new_fixed_e BodyIntr.new_chunked_e BodyIntr.body_read_e BodyIntr.body_fill_buf_e BodyIntr.body_consume_e BodyIntr.read_all_e BodyIntr.bufread_all_e
  Body.new_fixed Body.new_chunked Body.new_eof Body.new_empty Body.read_all Body.bufread_all Body.drain Body.body_src Body.src_rest
  ChunkedSpec.spec_decode ChunkedSpec.spec_fixed
  Server.serve_conn Server.reader_payload ConnSpec.spec_conn Framing.rfc_framing ConnSpec.raw_fields ConnKnown.known_F20c ConnKnown.known_F21
  Printer.write_response_empty Printer.write_response_bytes Printer.write_response Printer.write_request MessageSpec.decode_msg Headers.add Headers.new_nodate
  Pool.run Pool.first_rejected Pool.pool_init
  Epoll.replay Epoll.ep_init Epoll.all_ended Epoll.live_records Epoll.open_streams
  Memory.K_BODY Memory.BUFWRITER Printer.PROBE_MAX Body.BUF_SIZE.
