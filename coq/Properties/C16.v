(* C16 — Lifecycle hooks fire exactly as documented in every serve mode.  Pinned statements. *)
From KV Require Import Lib.Bytes Model.Headers Model.Parser Model.Body Model.Server Model.Modes Proofs.Modes.

Definition count_ev (p : hook_event -> bool) (l : list hook_event) : nat := length (filter p l).
Definition is_setup e := match e with HSetup => true | _ => false end.
Definition is_pre e := match e with HPreRouting => true | _ => false end.
Definition is_teardown e := match e with HTeardown _ => true | _ => false end.

(* a proceeded connection, in every mode: setup first and once, one pre-routing call per parsed request,
   teardown exactly once, last, with the connection's final result *)
Theorem C16_proceeded : forall m a N sg,
  let o := one_connection m a N sg in
  exists k ok, co_hooks o = HSetup :: repeat HPreRouting k ++ [HTeardown ok] /\
               k = c_requests (serve_conn a N sg) /\ ok = c_ok (serve_conn a N sg).
Proof. exact proceeded_hooks. Qed.
Print Assumptions C16_proceeded.

(* whole histories: every accepted connection gets exactly one setup call; a dropped one gets nothing
   else and no response; StopAccepting ends the serve call and nothing after it is accepted *)
Theorem C16_history : forall m a N cs outs stopped, serve_mode m a N cs = (outs, stopped) ->
  length outs = length (before_stop cs) /\
  (stopped = true <-> existsb (fun c => match ci_decision c with SStop => true | _ => false end) cs = true) /\
  Forall (fun o => count_ev is_setup (co_hooks o) = 1 /\ count_ev is_teardown (co_hooks o) <= 1) outs /\
  (forall i c, nth_error (before_stop cs) i = Some c ->
     match ci_decision c with
     | SDrop => nth_error outs i = Some {| co_resps := []; co_hooks := [HSetup]; co_waiting := false |}
     | _ => nth_error outs i = Some (one_connection m a N (ci_segs c))
     end).
Proof. exact history_hooks. Qed.
Print Assumptions C16_history.
