(* C08 — Serialized messages are correctly framed and reproduce status, headers, body.  Pinned statements.
   [write_response_empty / _bytes / write_response / write_request] are the models of the printer's
   entry points (Model/Printer.v); a reader is the list of pieces its reads deliver, [accepted] is
   the short count of the first vectored write; [decode_msg] is the independent strict decoder
   (Spec/MessageSpec.v). *)
From KV Require Import Lib.Bytes Model.Headers Model.Printer Spec.HeaderStore Spec.ChunkedSpec Spec.MessageSpec Spec.PrinterSpec
  Proofs.PrinterRound.

Definition inputs_ok (code : N) (reason : bytes) (fs : list (bytes * bytes)) (dv : bytes) : Prop :=
  (100 <= code <= 999)%N /\ no_crlf reason = true /\ wf_user_fields fs = true /\ wf_date_value dv = true.

(* partial writes never change what ends up on the wire *)
Theorem C08_writer_independent : forall head body accepted,
  write_vectored_bytes head body accepted = head ++ body.
Proof. exact vectored_independent. Qed.
Print Assumptions C08_writer_independent.

Theorem C08_empty : forall code reason dated fs dv, inputs_ok code reason fs dv ->
  exists framing,
    decode_msg (out_of (write_response_empty code reason (user_headers dated fs) (date_line dv))) =
      Some {| m_start := response_start code reason; m_fields := shown_fields dated fs dv ++ framing; m_body := []; m_rest := [] |}
    /\ framing_for fs 0 framing.
Proof. exact empty_roundtrip. Qed.
Print Assumptions C08_empty.

Theorem C08_bytes : forall code reason dated fs dv body accepted, inputs_ok code reason fs dv ->
  (N.of_nat (length body) < 2 ^ 64)%N ->
  exists framing,
    decode_msg (out_of (write_response_bytes code reason (user_headers dated fs) (date_line dv) body accepted)) =
      Some {| m_start := response_start code reason; m_fields := shown_fields dated fs dv ++ framing; m_body := body; m_rest := [] |}
    /\ framing_for fs (length body) framing.
Proof. exact bytes_roundtrip. Qed.
Print Assumptions C08_bytes.

(* a reader delivering the body in arbitrary pieces; nothing declared, chunked declared, or the true length declared *)
Theorem C08_reader : forall code reason dated fs dv pieces accepted, inputs_ok code reason fs dv ->
  (N.of_nat (length (concat pieces)) < 2 ^ 64)%N ->
  (declared_chunked fs = true \/ declared_length fs = None \/ declared_length fs = Some (N.of_nat (length (concat pieces)))) ->
  exists framing,
    decode_msg (out_of (write_response code reason (user_headers dated fs) (date_line dv) pieces accepted)) =
      Some {| m_start := response_start code reason; m_fields := shown_fields dated fs dv ++ framing;
              m_body := concat pieces; m_rest := [] |}
    /\ framing_for fs (length (concat pieces)) framing
    /\ is_ok (write_response code reason (user_headers dated fs) (date_line dv) pieces accepted) = true.
Proof. exact reader_roundtrip. Qed.
Print Assumptions C08_reader.

(* a declared Content-Length is never exceeded on the wire; a reader that is too short is an error *)
Theorem C08_declared_not_exceeded : forall code reason dated fs dv pieces accepted d, inputs_ok code reason fs dv ->
  declared_chunked fs = false -> declared_length fs = Some d -> (d <= N.of_nat (length (concat pieces)))%N ->
  decode_msg (out_of (write_response code reason (user_headers dated fs) (date_line dv) pieces accepted)) =
    Some {| m_start := response_start code reason;
            m_fields := shown_fields dated fs dv ++ [(bs "content-length", dec_of d)];
            m_body := firstn (N.to_nat d) (concat pieces); m_rest := [] |}.
Proof. exact declared_not_exceeded. Qed.
Print Assumptions C08_declared_not_exceeded.
Theorem C08_declared_short_is_error : forall code reason dated fs dv pieces accepted d, inputs_ok code reason fs dv ->
  declared_chunked fs = false -> declared_length fs = Some d -> (N.of_nat PROBE_MAX < d)%N ->
  (N.of_nat (length (concat pieces)) < d)%N ->
  is_ok (write_response code reason (user_headers dated fs) (date_line dv) pieces accepted) = false.
Proof. exact declared_short_error. Qed.

(* requests written by the client: the same body logic behind a request line *)
Theorem C08_request : forall method uri dated fs dv pieces accepted,
  no_crlf method = true -> no_crlf uri = true -> wf_user_fields fs = true -> wf_date_value dv = true ->
  (N.of_nat (length (concat pieces)) < 2 ^ 64)%N ->
  (declared_chunked fs = true \/ declared_length fs = None \/ declared_length fs = Some (N.of_nat (length (concat pieces)))) ->
  exists framing,
    decode_msg (out_of (write_request method uri (user_headers dated fs) (date_line dv) pieces accepted)) =
      Some {| m_start := request_start method uri; m_fields := shown_fields dated fs dv ++ framing;
              m_body := concat pieces; m_rest := [] |}
    /\ framing_for fs (length (concat pieces)) framing.
Proof. exact request_roundtrip. Qed.
Print Assumptions C08_request.

Example C08_ex_inputs : inputs_ok 200 (bs "Fine") [(bs "Content-Type", bs "text/plain"); (bs "transfer-encoding", bs "chunked")] (bs "Thu, 01 Jan 1970 00:00:00 GMT").
Proof. unfold inputs_ok. repeat split; try (vm_compute; reflexivity); vm_compute; discriminate. Qed.
Example C08_ex_empty_chunked_bytes :
  out_of (write_response_bytes 200 (bs "OK") (user_headers false [(bs "transfer-encoding", bs "chunked")]) [] [] 0) =
  bs "HTTP/1.1 200 OK" ++ [x0d;x0a] ++ bs "transfer-encoding: chunked" ++ [x0d;x0a;x0d;x0a] ++ bs "0" ++ [x0d;x0a;x0d;x0a].
Proof. vm_compute. reflexivity. Qed.
