(* C08 — Serialized messages are correctly framed and reproduce status, headers, body.  Pinned statements.
   [write_response_empty / _bytes / write_response / write_request] are the models of the printer's
   entry points (Model/Printer.v); a reader is the list of pieces its reads deliver, [accepted] is
   the short count of the first vectored write; [decode_msg] is the independent strict decoder
   (Spec/MessageSpec.v). *)
From KV Require Import Lib.Bytes Model.Headers Model.Parser Model.Body Model.Printer Model.Client
  Spec.HeaderStore Spec.ChunkedSpec Spec.MessageSpec Spec.PrinterSpec Spec.HttpGrammar
  Proofs.PrinterRound Proofs.ClientRoundBase Proofs.ClientRound Proofs.ServerRoundBase Proofs.ServerRound.
From KV Require Import Model.ServerRecv.
From KV Require Model.Server.

(* [inputs_ok code reason fs dv] (Spec/PrinterSpec.v): 100 <= code <= 999, a CR/LF-free reason, printable user fields, a
   printable date value *)

(* partial writes never change what ends up on the wire *)
Theorem C08_writer_independent : forall head body accepted,
  write_vectored_bytes head body accepted = head ++ body.
Proof. exact vectored_independent. Qed.
Print Assumptions C08_writer_independent.

Theorem C08_empty : forall code reason dated fs dv, inputs_ok code reason fs dv ->
  exists framing,
    decode_msg (out_of (write_response_empty code reason (user_headers dated fs) (date_line dv))) =
      Some {| m_start := response_start code reason; m_fields := shown_fields dated fs dv ++ framing; m_body := []; m_rest := [] |}
    /\ framing_for fs 0 framing.
Proof. exact empty_roundtrip. Qed.
Print Assumptions C08_empty.

Theorem C08_bytes : forall code reason dated fs dv body accepted, inputs_ok code reason fs dv ->
  (N.of_nat (length body) < 2 ^ 64)%N ->
  exists framing,
    decode_msg (out_of (write_response_bytes code reason (user_headers dated fs) (date_line dv) body accepted)) =
      Some {| m_start := response_start code reason; m_fields := shown_fields dated fs dv ++ framing; m_body := body; m_rest := [] |}
    /\ framing_for fs (length body) framing.
Proof. exact bytes_roundtrip. Qed.
Print Assumptions C08_bytes.

(* a reader delivering the body in arbitrary pieces; nothing declared, chunked declared, or the true length declared *)
Theorem C08_reader : forall code reason dated fs dv pieces accepted, inputs_ok code reason fs dv ->
  (N.of_nat (length (concat pieces)) < 2 ^ 64)%N ->
  (declared_chunked fs = true \/ declared_length fs = None \/ declared_length fs = Some (N.of_nat (length (concat pieces)))) ->
  exists framing,
    decode_msg (out_of (write_response code reason (user_headers dated fs) (date_line dv) pieces accepted)) =
      Some {| m_start := response_start code reason; m_fields := shown_fields dated fs dv ++ framing;
              m_body := concat pieces; m_rest := [] |}
    /\ framing_for fs (length (concat pieces)) framing
    /\ is_ok (write_response code reason (user_headers dated fs) (date_line dv) pieces accepted) = true.
Proof. exact reader_roundtrip. Qed.
Print Assumptions C08_reader.

(* a declared Content-Length is never exceeded on the wire; a reader that is too short is an error *)
Theorem C08_declared_not_exceeded : forall code reason dated fs dv pieces accepted d, inputs_ok code reason fs dv ->
  declared_chunked fs = false -> declared_length fs = Some d -> (d <= N.of_nat (length (concat pieces)))%N ->
  decode_msg (out_of (write_response code reason (user_headers dated fs) (date_line dv) pieces accepted)) =
    Some {| m_start := response_start code reason;
            m_fields := shown_fields dated fs dv ++ [(bs "content-length", dec_of d)];
            m_body := firstn (N.to_nat d) (concat pieces); m_rest := [] |}.
Proof. exact declared_not_exceeded. Qed.
Print Assumptions C08_declared_not_exceeded.
Theorem C08_declared_short_is_error : forall code reason dated fs dv pieces accepted d, inputs_ok code reason fs dv ->
  declared_chunked fs = false -> declared_length fs = Some d ->
  (N.of_nat (length (concat pieces)) < d)%N ->
  is_ok (write_response code reason (user_headers dated fs) (date_line dv) pieces accepted) = false.
Proof. exact declared_short_error. Qed.
Print Assumptions C08_declared_short_is_error.
(* ... and for a small declared length (at most PROBE_MAX: the body is collected before the head is written) nothing
   at all is written *)
Theorem C08_declared_short_is_error_small : forall code reason dated fs dv pieces accepted d, inputs_ok code reason fs dv ->
  declared_chunked fs = false -> declared_length fs = Some d -> (d <= N.of_nat PROBE_MAX)%N ->
  (N.of_nat (length (concat pieces)) < d)%N ->
  is_ok (write_response code reason (user_headers dated fs) (date_line dv) pieces accepted) = false /\
  out_of (write_response code reason (user_headers dated fs) (date_line dv) pieces accepted) = [].
Proof. exact declared_short_error_small. Qed.
Print Assumptions C08_declared_short_is_error_small.

(* requests written by the client: the same body logic behind a request line *)
Theorem C08_request : forall method uri dated fs dv pieces accepted,
  no_crlf method = true -> no_crlf uri = true -> wf_user_fields fs = true -> wf_date_value dv = true ->
  (N.of_nat (length (concat pieces)) < 2 ^ 64)%N ->
  (declared_chunked fs = true \/ declared_length fs = None \/ declared_length fs = Some (N.of_nat (length (concat pieces)))) ->
  exists framing,
    decode_msg (out_of (write_request method uri (user_headers dated fs) (date_line dv) pieces accepted)) =
      Some {| m_start := request_start method uri; m_fields := shown_fields dated fs dv ++ framing;
              m_body := concat pieces; m_rest := [] |}
    /\ framing_for fs (length (concat pieces)) framing.
Proof. exact request_roundtrip. Qed.
Print Assumptions C08_request.
(* a reader shorter than the declared length is an error for requests too; nothing is written when the length is small *)
Theorem C08_request_declared_short_is_error : forall method uri dated fs dv pieces accepted d,
  wf_user_fields fs = true ->
  declared_chunked fs = false -> declared_length fs = Some d ->
  (N.of_nat (length (concat pieces)) < d)%N ->
  is_ok (write_request method uri (user_headers dated fs) (date_line dv) pieces accepted) = false /\
  ((d <= N.of_nat PROBE_MAX)%N ->
   out_of (write_request method uri (user_headers dated fs) (date_line dv) pieces accepted) = []).
Proof. exact request_declared_short_error. Qed.
Print Assumptions C08_request_declared_short_is_error.

Example C08_ex_inputs : inputs_ok 200 (bs "Fine") [(bs "Content-Type", bs "text/plain"); (bs "transfer-encoding", bs "chunked")] (bs "Thu, 01 Jan 1970 00:00:00 GMT").
Proof. unfold inputs_ok. repeat split; try (vm_compute; reflexivity); vm_compute; discriminate. Qed.
Example C08_ex_empty_chunked_bytes :
  out_of (write_response_bytes 200 (bs "OK") (user_headers false [(bs "transfer-encoding", bs "chunked")]) [] [] 0) =
  bs "HTTP/1.1 200 OK" ++ [x0d;x0a] ++ bs "transfer-encoding: chunked" ++ [x0d;x0a;x0d;x0a] ++ bs "0" ++ [x0d;x0a;x0d;x0a].
Proof. vm_compute. reflexivity. Qed.


(* ------------------------------------------------------------------ read back by khttp's own client
   [client_receive wire] (Model/Client.v) is Response::parse followed by the body reader chosen as in
   BodyReader::from_response and read to the end.  Under [client_inputs_ok] - the reason consists of bytes the response
   parser accepts, the field names of token bytes - what the printer writes is read back exactly: status, reason, the
   header collection and the body.  (The `_segmented` variants in Proofs/ClientRound.v add: for every split of the bytes
   into a head buffer and stream segments, and every positive read-size sequence.) *)
Theorem C08_client_bytes : forall code reason dated fs dv body accepted,
  inputs_ok code reason fs dv -> client_inputs_ok reason fs dv = true ->
  (N.of_nat (length body) < 2 ^ 64)%N ->
  exists r framing,
    client_receive (out_of (write_response_bytes code reason (user_headers dated fs) (date_line dv) body accepted))
      = Some (code, reason, r, body)
    /\ r = headers_of (shown_fields dated fs dv ++ framing)
    /\ stored r = shown_fields dated fs dv ++ filter (fun f => negb (is_clf f)) framing
    /\ framing_for fs (length body) framing.
Proof. exact client_reads_response_bytes. Qed.
Print Assumptions C08_client_bytes.

Theorem C08_client_empty : forall code reason dated fs dv,
  inputs_ok code reason fs dv -> client_inputs_ok reason fs dv = true ->
  exists r framing,
    client_receive (out_of (write_response_empty code reason (user_headers dated fs) (date_line dv)))
      = Some (code, reason, r, [])
    /\ r = headers_of (shown_fields dated fs dv ++ framing)
    /\ stored r = shown_fields dated fs dv ++ filter (fun f => negb (is_clf f)) framing
    /\ framing_for fs 0 framing.
Proof. exact client_reads_response_empty. Qed.

Theorem C08_client_reader : forall code reason dated fs dv pieces accepted,
  inputs_ok code reason fs dv -> client_inputs_ok reason fs dv = true ->
  (N.of_nat (length (concat pieces)) < 2 ^ 64)%N ->
  (declared_chunked fs = true \/ declared_length fs = None \/ declared_length fs = Some (N.of_nat (length (concat pieces)))) ->
  exists r framing,
    client_receive (out_of (write_response code reason (user_headers dated fs) (date_line dv) pieces accepted))
      = Some (code, reason, r, concat pieces)
    /\ r = headers_of (shown_fields dated fs dv ++ framing)
    /\ stored r = shown_fields dated fs dv ++ filter (fun f => negb (is_clf f)) framing
    /\ framing_for fs (length (concat pieces)) framing.
Proof. exact client_reads_response_reader. Qed.
Print Assumptions C08_client_reader.

(* a declared length shorter than what the reader holds: the client reads exactly the declared prefix *)
Theorem C08_client_declared_prefix : forall code reason dated fs dv pieces accepted d,
  inputs_ok code reason fs dv -> client_inputs_ok reason fs dv = true ->
  declared_chunked fs = false -> declared_length fs = Some d -> (d <= N.of_nat (length (concat pieces)))%N ->
  client_receive (out_of (write_response code reason (user_headers dated fs) (date_line dv) pieces accepted))
    = Some (code, reason, headers_of (shown_fields dated fs dv ++ [(bs "content-length", dec_of d)]),
            firstn (N.to_nat d) (concat pieces)).
Proof. exact client_reads_declared_prefix. Qed.

(* the side conditions cannot be dropped: a reason phrase with obs-text (RFC 9112 allows it, the printer writes it, the
   independent decoder reads it) is rejected by khttp's own response parser - an observation about the client, outside
   the twenty properties; likewise a field name that is not a token *)
Theorem C08_client_reason_refuted : exists code reason dated fs dv body accepted,
  inputs_ok code reason fs dv /\
  parse_response (out_of (write_response_bytes code reason (user_headers dated fs) (date_line dv) body accepted)) = Err EStatus /\
  client_receive (out_of (write_response_bytes code reason (user_headers dated fs) (date_line dv) body accepted)) = None.
Proof. exact client_reason_refuted. Qed.
Theorem C08_client_field_name_refuted : exists code reason dated fs dv body accepted,
  inputs_ok code reason fs dv /\ client_reason_ok reason = true /\
  parse_response (out_of (write_response_bytes code reason (user_headers dated fs) (date_line dv) body accepted)) = Err EHeader /\
  client_receive (out_of (write_response_bytes code reason (user_headers dated fs) (date_line dv) body accepted)) = None.
Proof. exact client_field_name_refuted. Qed.
Print Assumptions C08_client_reason_refuted.


(* ------------------------------------------------------------------ requests written by the client, read back by the server
   [server_receive wire] (Model/ServerRecv.v) is Request::parse followed by the body reader of BodyReader::from_request read to
   the end.  Under [server_inputs_ok] - an alphabetic method, a target parse_uri accepts and reports unchanged, token field
   names - the server obtains exactly the method, the target, the header collection and the body the client printed, and the
   framing gate of handle_one_request (Transfer-Encoding not ending in chunked: 400) passes. *)
Theorem C08_server_reader : forall method uri dated fs dv pieces accepted,
  wf_user_fields fs = true -> wf_date_value dv = true -> server_inputs_ok method uri fs = true ->
  (N.of_nat (length (concat pieces)) < 2 ^ 64)%N ->
  (declared_chunked fs = true \/ declared_length fs = None \/ declared_length fs = Some (N.of_nat (length (concat pieces)))) ->
  exists r framing,
    server_receive (out_of (write_request method uri (user_headers dated fs) (date_line dv) pieces accepted))
      = Some (method, uri, r, concat pieces)
    /\ r = headers_of (shown_fields dated fs dv ++ framing)
    /\ stored r = shown_fields dated fs dv ++ filter (fun f => negb (is_clf f)) framing
    /\ Server.te_present r && negb (Server.te_final_chunked r) = false
    /\ framing_for fs (length (concat pieces)) framing.
Proof. exact server_reads_request_reader. Qed.
Print Assumptions C08_server_reader.

Theorem C08_server_declared_prefix : forall method uri dated fs dv pieces accepted d,
  wf_user_fields fs = true -> wf_date_value dv = true -> server_inputs_ok method uri fs = true ->
  declared_chunked fs = false -> declared_length fs = Some d -> (d <= N.of_nat (length (concat pieces)))%N ->
  server_receive (out_of (write_request method uri (user_headers dated fs) (date_line dv) pieces accepted))
    = Some (method, uri, headers_of (shown_fields dated fs dv ++ [(bs "content-length", dec_of d)]),
            firstn (N.to_nat d) (concat pieces)).
Proof. exact server_reads_declared_prefix. Qed.

(* the side conditions are exactly what the request parser demands: whatever the server reports satisfies them *)
Theorem C08_server_conditions_needed : forall method uri h date pieces accepted r b,
  server_receive (out_of (write_request method uri h date pieces accepted)) = Some (method, uri, r, b) ->
  server_method_ok method = true /\ server_uri_ok uri = true.
Proof. exact server_conditions_needed. Qed.

(* ... and they cannot be dropped: the client prints the extension method M-SEARCH (an RFC 9110 token) and khttp's own
   server answers 400 (methods are alphabetic for its parser - the restriction property C02 also makes) *)
Theorem C08_server_method_refuted : exists method uri dated fs dv pieces accepted,
  no_crlf method = true /\ no_crlf uri = true /\ wf_user_fields fs = true /\ wf_date_value dv = true /\
  forallb HttpGrammar.is_tchar method = true /\ server_uri_ok uri = true /\ forallb server_field_ok fs = true /\
  parse_request (out_of (write_request method uri (user_headers dated fs) (date_line dv) pieces accepted)) = Err EStatus /\
  server_receive (out_of (write_request method uri (user_headers dated fs) (date_line dv) pieces accepted)) = None.
Proof. exact server_method_refuted. Qed.
Print Assumptions C08_server_method_refuted.

(* ---- "any header set": the round trip for ARBITRARY operation histories on the header collection (Spec/PrinterSpecGen.v,
   Proofs/PrinterRoundGen.v).  [ops_ok]: names are non-empty tokens, values free of CR / LF, set lengths below 2^64.
   [printable h]: the stored Transfer-Encoding fields are none, or exactly one whose value is `chunked` (any case, optional
   whitespace).  The output is one correctly framed message EXACTLY when the collection is printable; outside it is finding F37. *)
From KV Require Import Spec.HeaderStore Spec.PrinterSpecGen Proofs.PrinterRoundGen.

Theorem C08_histories_coherent : forall dated ops, ops_ok ops = true -> coherent (hrun_from dated ops).
Proof. exact hrun_coherent. Qed.

Theorem C08_bytes_gen : forall code reason h dv body accepted,
  status_ok code reason -> coherent h -> wf_date_value dv = true -> printable h = true ->
  (N.of_nat (length body) < 2 ^ 64)%N ->
  exists framing,
    decode_msg (out_of (write_response_bytes code reason h (date_line dv) body accepted)) =
      Some {| m_start := response_start code reason; m_fields := shown_fields_of h dv ++ framing; m_body := body; m_rest := [] |} /\
    framing_for_gen h (length body) framing /\
    exactly_one_framing (shown_fields_of h dv ++ framing) (length body) /\
    framing = (if user_chunked h then [] else [(bs "content-length", dec_of (N.of_nat (length body)))]).
Proof. exact bytes_roundtrip_gen. Qed.
Print Assumptions C08_bytes_gen.

Theorem C08_printable_iff : forall code reason h dv body accepted,
  status_ok code reason -> coherent h -> wf_date_value dv = true -> (N.of_nat (length body) < 2 ^ 64)%N ->
  ((exists m, decode_msg (out_of (write_response_bytes code reason h (date_line dv) body accepted)) = Some m) <->
   printable h = true).
Proof. exact bytes_printable_iff. Qed.
Print Assumptions C08_printable_iff.

Theorem C08_reader_gen : forall code reason h dv pieces accepted,
  status_ok code reason -> coherent h -> wf_date_value dv = true -> printable h = true ->
  (N.of_nat (length (concat pieces)) < 2 ^ 64)%N ->
  user_chunked h = true \/ content_length h = None \/ content_length h = Some (N.of_nat (length (concat pieces))) ->
  exists framing,
    decode_msg (out_of (write_response code reason h (date_line dv) pieces accepted)) =
      Some {| m_start := response_start code reason; m_fields := shown_fields_of h dv ++ framing; m_body := concat pieces; m_rest := [] |} /\
    framing_for_gen h (length (concat pieces)) framing /\
    exactly_one_framing (shown_fields_of h dv ++ framing) (length (concat pieces)) /\
    is_ok (write_response code reason h (date_line dv) pieces accepted) = true.
Proof. exact reader_roundtrip_gen. Qed.
Print Assumptions C08_reader_gen.

Theorem C08_request_gen : forall method uri h dv pieces accepted,
  no_crlf method = true -> no_crlf uri = true -> coherent h -> wf_date_value dv = true -> printable h = true ->
  (N.of_nat (length (concat pieces)) < 2 ^ 64)%N ->
  user_chunked h = true \/ content_length h = None \/ content_length h = Some (N.of_nat (length (concat pieces))) ->
  exists framing,
    decode_msg (out_of (write_request method uri h (date_line dv) pieces accepted)) =
      Some {| m_start := request_start method uri; m_fields := shown_fields_of h dv ++ framing; m_body := concat pieces; m_rest := [] |} /\
    framing_for_gen h (length (concat pieces)) framing /\
    exactly_one_framing (shown_fields_of h dv ++ framing) (length (concat pieces)).
Proof. exact request_roundtrip_gen. Qed.

Theorem C08_declared_not_exceeded_gen : forall code reason h dv pieces accepted d,
  status_ok code reason -> coherent h -> wf_date_value dv = true -> printable h = true ->
  user_chunked h = false -> content_length h = Some d -> (d <= N.of_nat (length (concat pieces)))%N ->
  decode_msg (out_of (write_response code reason h (date_line dv) pieces accepted)) =
    Some {| m_start := response_start code reason; m_fields := shown_fields_of h dv ++ [(bs "content-length", dec_of d)];
            m_body := firstn (N.to_nat d) (concat pieces); m_rest := [] |}.
Proof. exact declared_not_exceeded_gen. Qed.

Theorem C08_declared_short_gen : forall code reason h date pieces accepted d,
  Headers.chunked h = false -> content_length h = Some d -> (N.of_nat (length (concat pieces)) < d)%N ->
  is_ok (write_response code reason h date pieces accepted) = false /\
  ((d <= N.of_nat PROBE_MAX)%N -> out_of (write_response code reason h date pieces accepted) = []).
Proof. exact declared_short_error_gen. Qed.

(* whatever is done with Content-Length (several fields, invalid values, set / add / replace / remove in any order) the
   framing is right; and a collection whose Transfer-Encoding comes from set_transfer_encoding_chunked only (any number of
   calls: repaired finding F36) is printable *)
Theorem C08_content_length_histories : forall code reason dated ops dv body accepted,
  status_ok code reason -> ops_ok ops = true -> wf_date_value dv = true -> te_free ops = true ->
  (N.of_nat (length body) < 2 ^ 64)%N ->
  decode_msg (out_of (write_response_bytes code reason (hrun_from dated ops) (date_line dv) body accepted)) =
    Some {| m_start := response_start code reason;
            m_fields := shown_fields_gen (spec_stored ops) dated dv ++ [(bs "content-length", dec_of (N.of_nat (length body)))];
            m_body := body; m_rest := [] |}.
Proof. exact cl_histories_roundtrip. Qed.
Theorem C08_set_chunked_printable : forall ops, te_by_set_only ops = true -> printable_st (spec_stored ops) = true.
Proof. exact te_by_set_only_printable. Qed.
Print Assumptions C08_content_length_histories.
Print Assumptions C08_set_chunked_printable.

(* the recorded finding F37: outside [printable] the output is NOT one correctly framed message (for every body, status and
   entry point: PrinterRoundGen.bytes_unprintable, reader_unprintable, request_unprintable); the simplest witness *)
Theorem C08_unprintable_refuted_F37 : exists ops body,
  ops_ok ops = true /\ printable_st (spec_stored ops) = false /\
  Witness.resp ops body = bs "HTTP/1.1 200 OK" ++ Witness.crlf ++ bs "Transfer-Encoding: gzip" ++ Witness.crlf ++
                  bs "content-length: 2" ++ Witness.crlf ++ Witness.crlf ++ bs "hi" /\
  parsed_fields (Witness.resp ops body) = Some [(Witness.TE, bs "gzip"); (bs "content-length", bs "2")] /\
  decode_msg (Witness.resp ops body) = None.
Proof. exact Witness.te_gzip_refuted. Qed.
Print Assumptions C08_unprintable_refuted_F37.
