(* C04 — An accepted request head is strictly well-formed; nothing in it is ignored.  Pinned statements.
   [strict_head] (Spec/HttpGrammar.v) is an independent tokenizer of the strict shape
   method SP target SP "HTTP/1." ("0"|"1") CRLF *( name ":" value CRLF ) CRLF with non-empty token method
   and names, a non-empty target of visible ASCII and nothing skipped. *)
From KV Require Import Lib.Bytes Model.Headers Model.Parser Spec.HttpGrammar Proofs.ParserSound.

Theorem C04_sound : forall s r, parse_request s = Ok r ->
  exists sh, strict_head s = Some (sh, q_offset r) /\
    method_str (q_meth r) = s_method sh /\
    full (q_target r) = s_target sh /\
    q_version r = (if s_minor sh then 1 else 0)%N /\
    q_hdrs r = headers_of (sfield_pairs (s_fields sh)).
Proof. exact request_sound. Qed.
Print Assumptions C04_sound.

(* the recogniser really consumes exactly the strict shape: re-rendering its tokens gives back the
   consumed bytes, so no byte of the head is skipped *)
Theorem C04_strict_exact : forall s sh n, strict_head s = Some (sh, n) ->
  firstn n s = s_method sh ++ [x20] ++ s_target sh ++ [x20] ++ bs "HTTP/1." ++ [if s_minor sh then x31 else x30] ++
               [x0d; x0a] ++ flat_map (fun f => s_name f ++ [x3a] ++ s_raw f ++ [x0d; x0a]) (s_fields sh) ++ [x0d; x0a]
  /\ n <= length s.
Proof. exact strict_head_exact. Qed.
Print Assumptions C04_strict_exact.

Example C04_ex_bare_lf : parse_request (bs "GET / HTTP/1.1" ++ [x0d;x0a] ++ bs "Foo: bar" ++ [x0a] ++ bs "X: y" ++ [x0d;x0a;x0d;x0a]) = Err EHeader.
Proof. vm_compute. reflexivity. Qed.
Example C04_ex_junk_after_version : parse_request (bs "GET / HTTP/1.1XY" ++ [x0d;x0a;x0d;x0a]) = Err EStatus.
Proof. vm_compute. reflexivity. Qed.
Example C04_ex_empty_method : parse_request (bs " / HTTP/1.1" ++ [x0d;x0a;x0d;x0a]) = Err EStatus.
Proof. vm_compute. reflexivity. Qed.
Example C04_ex_empty_name : parse_request (bs "GET / HTTP/1.1" ++ [x0d;x0a] ++ bs ": v" ++ [x0d;x0a;x0d;x0a]) = Err EHeader.
Proof. vm_compute. reflexivity. Qed.
Example C04_ex_strict :
  match strict_head (bs "GET /a?b HTTP/1.0" ++ [x0d;x0a] ++ bs "K:  v " ++ [x0d;x0a;x0d;x0a] ++ bs "body") with
  | Some (sh, n) => Nat.eqb n 29 && bytes_eqb (s_target sh) (bs "/a?b") && Nat.eqb (length (s_fields sh)) 1
  | None => false
  end = true.
Proof. vm_compute. reflexivity. Qed.
(* F34: only optional whitespace (SP / HTAB) is removed in front of a value; a form feed there is part of the value *)
Example C04_ex_formfeed_kept :
  match parse_request (bs "GET / HTTP/1.1" ++ [x0d;x0a] ++ bs "X: " ++ [x09; x0c] ++ bs "v" ++ [x0d;x0a;x0d;x0a]) with
  | Ok r => stored (q_hdrs r)
  | _ => []
  end = [(bs "X", x0c :: bs "v")].
Proof. vm_compute. reflexivity. Qed.
