(* C07 — Keep-alive connections keep request boundaries.  Pinned statements.
   [serve_conn] is the model of handle_connection over the inbound segments (read loop, framing,
   body readers over the model of BufReader, handlers, drain on drop, keep-alive decision);
   [spec_conn] interprets the concatenated bytes sequentially, one request after the other, with the
   body located by the strict recognisers.  Two recorded findings delimit the theorem:
     known_F20c  (chunked body whose end shares a segment with the next request: read-ahead loses bytes)
     known_F21   (malformed / truncated body that is answered without the error reaching the server) *)
From KV Require Import Lib.Bytes Model.Headers Model.Parser Model.Body Model.Server
  Spec.HeaderStore Spec.HttpGrammar Spec.ChunkedSpec Spec.Framing Spec.ConnSpec Spec.ConnKnown Proofs.ServerConn.

(* one request, delivered in segments of its own, followed by whatever comes later: exactly one
   set of responses computed from that head and body, and the server's position afterwards is
   exactly the first byte after the body - for every handler behaviour and every segmentation *)
Theorem C07_one_request : forall a N ka reqsegs later r raw,
  parse_request (firstn N (concat reqsegs)) = Ok r ->
  raw = raw_fields (firstn N (concat reqsegs)) ->
  Forall (fun g => g <> []) later ->
  (* the request is well-framed and its segments contain exactly head and body *)
  (exists payload, rfc_framing raw <> FReject /\
     view_body (rfc_framing raw) (skipn (q_offset r) (concat reqsegs)) = BodyOk payload []) ->
  let o := handle_one_request a N ka (reqsegs ++ later) in
  let '(resps, keep, _) := spec_one a r raw (skipn (q_offset r) (concat reqsegs)) in
  o_resps o = resps /\ (o_ok o = true -> o_keep o = (keep && ka && negb (existsb rs_close resps))) /\
  (o_ok o = true -> o_keep o = true -> o_rest o = later).
Proof. exact one_request_boundary. Qed.
Print Assumptions C07_one_request.

(* the whole connection: every lock-step history gives exactly the sequential transcript *)
Theorem C07_transcript : forall a N segs,
  lockstep a N segs = true -> known_F21 a N segs = false ->
  snd (spec_conn a N (concat segs)) <> EUnspec ->
  c_resps (serve_conn a N segs) = fst (spec_conn a N (concat segs)) /\
  (c_waiting (serve_conn a N segs) = true <-> snd (spec_conn a N (concat segs)) = EWaiting).
Proof. exact conn_transcript. Qed.
Print Assumptions C07_transcript.
