(* C07 — Keep-alive connections keep request boundaries.  Pinned statements.
   [serve_conn] is the model of handle_connection over the inbound segments (read loop, framing,
   body readers over the model of BufReader, handlers, drain on drop, carry of the bytes read beyond the body,
   keep-alive decision); [spec_conn] interprets the concatenated bytes sequentially, one request after the
   other, with the body located by the strict recognisers.
   Finding F20c (a chunked body whose end shares a segment with the next request: the read-ahead lost bytes) is
   repaired: when the body reader is dropped it hands back the bytes it holds beyond the end of the body, and the
   next read_request starts with them.  The transcript theorem now holds for EVERY segmentation
   ([C07_transcript_any]); the lock-step statement [C07_transcript] is a corollary.
   Finding F21 (a malformed / truncated body that is answered without the error reaching the server, the
   connection being kept) is repaired: the failed discard of the body closes the connection, and the theorem does
   not exclude those histories. *)
From KV Require Import Lib.Bytes Model.Headers Model.Parser Model.Body Model.Server
  Spec.HeaderStore Spec.HttpGrammar Spec.ChunkedSpec Spec.Framing Spec.ConnSpec Spec.ConnKnown Proofs.ServerConn Proofs.ServerConnAny.

(* one request, delivered in segments of its own, followed by whatever comes later: exactly one
   set of responses computed from that head and body, and the server's position afterwards is
   exactly the first byte after the body - for every handler behaviour and every segmentation *)
Theorem C07_one_request : forall a N ka reqsegs later r raw,
  Forall (fun g => g <> []) reqsegs ->            (* a TCP read never returns an empty segment *)
  parse_request (firstn N (concat reqsegs)) = Ok r ->
  raw = raw_fields (firstn N (concat reqsegs)) ->
  Forall (fun g => g <> []) later ->
  (* the request is well-framed and its segments contain exactly head and body *)
  (exists payload, rfc_framing raw <> FReject /\
     view_body (rfc_framing raw) (skipn (q_offset r) (concat reqsegs)) = BodyOk payload []) ->
  let o := handle_one_request a N ka (reqsegs ++ later) in
  let '(resps, keep, _) := spec_one a r raw (skipn (q_offset r) (concat reqsegs)) in
  o_resps o = resps /\ (o_ok o = true -> o_keep o = (keep && ka && negb (existsb rs_close resps))) /\
  (o_ok o = true -> o_keep o = true -> o_rest o = later).
Proof. exact one_request_boundary_nonempty. Qed.
Print Assumptions C07_one_request.

(* the same for a request at the front of an ARBITRARILY segmented stream (its last bytes may share a segment with
   the bytes that follow it; the body may be followed by anything): the responses and the decision are the
   specification's, and what the server goes on with - the bytes carried over from the body reader first, then the
   segments not yet read - is exactly the bytes that follow the body *)
Theorem C07_one_request_any : forall a N ka segs r raw payload rest,
  parse_request (firstn N (concat segs)) = Ok r ->
  raw = raw_fields (firstn N (concat segs)) ->
  rfc_framing raw <> FReject ->
  view_body (rfc_framing raw) (skipn (q_offset r) (concat segs)) = BodyOk payload rest ->
  let o := handle_one_request a N ka segs in
  let '(resps, keep, _) := spec_one a r raw (skipn (q_offset r) (concat segs)) in
  o_resps o = resps /\ (o_ok o = true -> o_keep o = (keep && ka && negb (existsb rs_close resps))) /\
  (o_ok o = false -> keep = false) /\ o_eof o = false /\
  concat (o_rest o) = rest.
Proof. exact one_request_any. Qed.
Print Assumptions C07_one_request_any.

(* the whole connection: EVERY history, however its bytes are segmented, gives exactly the sequential transcript.
   No side condition on the segments: a read of the model skips a segment without bytes ([stream_read]), so such
   segments change nothing. *)
Theorem C07_transcript_any : forall a N segs,
  0 < N ->                                         (* a head limit of zero bytes answers 431 before reading anything *)
  snd (spec_conn a N (concat segs)) <> EUnspec ->
  c_resps (serve_conn a N segs) = fst (spec_conn a N (concat segs)) /\
  (c_waiting (serve_conn a N segs) = true <-> snd (spec_conn a N (concat segs)) = EWaiting).
Proof. exact conn_transcript_any. Qed.
Print Assumptions C07_transcript_any.

(* in particular every lock-step history (no segment carries bytes of two requests) *)
Theorem C07_transcript : forall a N segs,
  0 < N ->                                         (* a head limit of zero bytes answers 431 before reading anything *)
  lockstep a N segs = true ->
  snd (spec_conn a N (concat segs)) <> EUnspec ->
  c_resps (serve_conn a N segs) = fst (spec_conn a N (concat segs)) /\
  (c_waiting (serve_conn a N segs) = true <-> snd (spec_conn a N (concat segs)) = EWaiting).
Proof. intros a N segs HN _. exact (C07_transcript_any a N segs HN). Qed.
Print Assumptions C07_transcript.

(* ---- the repaired findings F20c and F21, as witnesses on the faithful model (see known_findings.json) ---- *)
Definition hold_app : app :=
  {| behaviour_of := fun _ => BHold; hook_of := fun _ => HProceed; describe := fun _ b => b |}.
Definition none_app : app :=
  {| behaviour_of := fun _ => BNone 200; hook_of := fun _ => HProceed; describe := fun _ b => b |}.
Definition crlf2 : bytes := [x0d; x0a; x0d; x0a].
Definition get_req : bytes := bs "GET /next HTTP/1.1" ++ crlf2.

(* F20c (repaired): the rest of a chunked body and the next request arrive in one segment after the handler
   has already answered.  The chunked reader's read-ahead takes the next request from the connection together with
   the end of the body; the model (like the repaired code) carries those bytes over: both requests are answered,
   the transcript is the specification's, and the connection is waiting for more input.  (The history is not
   lock-step: it is covered by C07_transcript_any, not by C07_transcript.) *)
Definition f20c_segs : list bytes :=
  [ bs "POST /hold HTTP/1.1" ++ [x0d; x0a] ++ bs "Transfer-Encoding: chunked" ++ crlf2;
    bs "5" ++ [x0d; x0a] ++ bs "hello" ++ [x0d; x0a] ++ bs "0" ++ crlf2 ++ get_req ].
Example C07_F20c_repaired :
  lockstep hold_app 4096 f20c_segs = false /\
  c_resps (serve_conn hold_app 4096 f20c_segs) = fst (spec_conn hold_app 4096 (concat f20c_segs)) /\
  length (c_resps (serve_conn hold_app 4096 f20c_segs)) = 2 /\
  c_requests (serve_conn hold_app 4096 f20c_segs) = 2 /\ c_ok (serve_conn hold_app 4096 f20c_segs) = true /\
  c_waiting (serve_conn hold_app 4096 f20c_segs) = true /\
  snd (spec_conn hold_app 4096 (concat f20c_segs)) = EWaiting.
Proof. vm_compute. repeat split. Qed.
(* the same history with a fixed-length body (Read::take keeps the read-ahead inside the body; the bytes behind the body
   come back with the unread part of the leftover slice or stay on the connection) *)
Definition fixed_segs : list bytes :=
  [ bs "POST /hold HTTP/1.1" ++ [x0d; x0a] ++ bs "Content-Length: 5" ++ crlf2; bs "hello" ++ get_req ].
Example C07_fixed_straddle_ok :
  c_resps (serve_conn hold_app 4096 fixed_segs) = fst (spec_conn hold_app 4096 (concat fixed_segs)) /\
  length (c_resps (serve_conn hold_app 4096 fixed_segs)) = 2.
Proof. vm_compute. split; reflexivity. Qed.

(* F21 (repaired): a malformed body that the handler ignores.  The spec closes after the one response; so does the
   model (like the repaired code): the discard of the body fails, the connection is closed, the second request is
   neither parsed nor answered.  The history satisfies the hypotheses of C07_transcript. *)
Definition f21_segs : list bytes :=
  [ bs "POST /x HTTP/1.1" ++ [x0d; x0a] ++ bs "Transfer-Encoding: chunked" ++ crlf2 ++ bs "zz" ++ [x0d; x0a] ++ bs "hello" ++ [x0d; x0a] ++ bs "0" ++ crlf2;
    get_req ].
Example C07_F21_repaired :
  lockstep none_app 4096 f21_segs = true /\
  c_resps (serve_conn none_app 4096 f21_segs) = fst (spec_conn none_app 4096 (concat f21_segs)) /\
  snd (spec_conn none_app 4096 (concat f21_segs)) = EClosed /\
  length (c_resps (serve_conn none_app 4096 f21_segs)) = 1 /\
  c_requests (serve_conn none_app 4096 f21_segs) = 1 /\ c_ok (serve_conn none_app 4096 f21_segs) = true /\
  c_waiting (serve_conn none_app 4096 f21_segs) = false.
Proof. vm_compute. repeat split. Qed.
(* the same for a fixed-length body that is cut short, the pre-routing hook answering in place of the handler *)
Definition hook_app : app :=
  {| behaviour_of := fun _ => BNone 200; hook_of := fun _ => HAnswer; describe := fun _ b => b |}.
Definition f21_short_segs : list bytes :=
  [ bs "POST /x HTTP/1.1" ++ [x0d; x0a] ++ bs "Content-Length: 10" ++ crlf2 ++ bs "hello" ].
Example C07_F21_repaired_short :
  lockstep hook_app 4096 f21_short_segs = true /\
  c_resps (serve_conn hook_app 4096 f21_short_segs) = fst (spec_conn hook_app 4096 (concat f21_short_segs)) /\
  snd (spec_conn hook_app 4096 (concat f21_short_segs)) = EClosed /\
  length (c_resps (serve_conn hook_app 4096 f21_short_segs)) = 1 /\
  c_waiting (serve_conn hook_app 4096 f21_short_segs) = false.
Proof. vm_compute. repeat split. Qed.

(* non-vacuity of the theorem's hypotheses: a lock-step history of three requests *)
Definition ok_segs : list bytes :=
  [ bs "POST /a HTTP/1.1" ++ [x0d; x0a] ++ bs "Content-Length: 5" ++ crlf2 ++ bs "he"; bs "llo";
    bs "POST /b HTTP/1.1" ++ [x0d; x0a] ++ bs "Transfer-Encoding: chunked" ++ crlf2; bs "5" ++ [x0d; x0a] ++ bs "hel"; bs "lo" ++ [x0d; x0a] ++ bs "0" ++ crlf2;
    get_req ].
Example C07_ex_lockstep :
  lockstep none_app 4096 ok_segs = true /\
  length (c_resps (serve_conn none_app 4096 ok_segs)) = 3.
Proof. vm_compute. repeat split. Qed.

(* the same three requests pipelined in ONE segment, and cut into segments at places that are not request
   boundaries: the hypotheses of C07_transcript_any hold, lock-step does not *)
Definition pipelined_segs : list bytes := [ concat ok_segs ].
Definition odd_segs : list bytes :=
  [ firstn 30 (concat ok_segs); firstn 40 (skipn 30 (concat ok_segs)); []; skipn 70 (concat ok_segs) ].
Example C07_ex_pipelined :
  lockstep none_app 4096 pipelined_segs = false /\
  c_resps (serve_conn none_app 4096 pipelined_segs) = fst (spec_conn none_app 4096 (concat pipelined_segs)) /\
  length (c_resps (serve_conn none_app 4096 pipelined_segs)) = 3 /\
  concat odd_segs = concat ok_segs /\ lockstep none_app 4096 odd_segs = false /\
  c_resps (serve_conn none_app 4096 odd_segs) = fst (spec_conn none_app 4096 (concat odd_segs)) /\
  length (c_resps (serve_conn none_app 4096 odd_segs)) = 3 /\
  (* a head limit shorter than what is carried over: the rest of the carry stays in front of the stream *)
  c_resps (serve_conn none_app 50 pipelined_segs) = fst (spec_conn none_app 50 (concat pipelined_segs)) /\
  length (c_resps (serve_conn none_app 50 pipelined_segs)) = 3.
Proof. vm_compute. repeat split. Qed.

(* --- "a reader that has seen an error once": the stream may fail at any point - SIntr-like interruptions (S2Intr, retried by
   std's read_exact / read_until) and failures std does not retry (S2Fail: a read that times out; inside the chunked framing
   the bytes consumed so far are lost) - and the handler may call read / fill_buf / consume in any order and ignore every
   result (Model/BodyFail.v: the wrapper with its [failed] flag, note(), the discard run on drop, beyond_body).  IF the
   discard reports that it reached the end of the body THEN the body was a valid encoding and the unread bytes are exactly
   the bytes behind it: the next request is never parsed from a wrong place; and a reader that has returned an error is never
   "located" (the connection is closed).  [mutant_locates_wrong_place] (Proofs/BodyFail.v) runs the wrapper of seed C05-l
   (a timed-out read does not set [failed]) inside Coq: it locates "GET /none?smuggled" inside the chunk data.
   (Bare-LF line ends are Unspecified for spec_decode and accepted by the reader: excluded, [unspecified_can_be_located].) *)
From KV Require Import Spec.ChunkedSpec Model.BodyIntr Model.BodyFail Proofs.BodyFail.

Theorem C07_located_is_right_chunked : forall lo evs ops fuel b',
  let b0 := {| br_enc := new_chunked_f lo evs; br_failed := false |} in
  spec_decode (lo ++ concat (strip2 evs)) <> Unspecified ->
  br_drain fuel (hrun b0 ops) = (true, b') ->
  exists p rest, spec_decode (lo ++ concat (strip2 evs)) = Valid p rest /\ br_beyond b' ++ br_ahead b' = rest.
Proof. exact located_is_right_chunked. Qed.
Print Assumptions C07_located_is_right_chunked.
Theorem C07_located_is_right_fixed : forall lo evs n ops fuel b',
  let b0 := {| br_enc := new_fixed_f lo evs n; br_failed := false |} in
  br_drain fuel (hrun b0 ops) = (true, b') ->
  exists p rest, spec_fixed n (lo ++ concat (strip2 evs)) = Valid p rest /\ br_beyond b' ++ br_ahead b' = rest.
Proof. exact located_is_right_fixed. Qed.
Print Assumptions C07_located_is_right_fixed.
Theorem C07_error_sets_failed : forall k b,
  (is_ok (br_read k b) = false -> br_failed (res_st (br_read k b)) = true) /\
  (is_ok (br_fill_buf b) = false -> br_failed (res_st (br_fill_buf b)) = true).
Proof. exact error_sets_failed. Qed.
Theorem C07_failed_never_located : forall ops b fuel, br_failed b = true -> fst (br_drain fuel (hrun b ops)) = false.
Proof. exact failed_stays_failed. Qed.
Print Assumptions C07_failed_never_located.
