(* C07 — Keep-alive connections keep request boundaries.  Pinned statements.
   [serve_conn] is the model of handle_connection over the inbound segments (read loop, framing,
   body readers over the model of BufReader, handlers, drain on drop, keep-alive decision);
   [spec_conn] interprets the concatenated bytes sequentially, one request after the other, with the
   body located by the strict recognisers.  One recorded finding delimits the theorem:
     known_F20c  (chunked body whose end shares a segment with the next request: read-ahead loses bytes)
   Finding F21 (a malformed / truncated body that is answered without the error reaching the server, the
   connection being kept) is repaired: the failed discard of the body closes the connection, and the theorem no
   longer excludes those histories. *)
From KV Require Import Lib.Bytes Model.Headers Model.Parser Model.Body Model.Server
  Spec.HeaderStore Spec.HttpGrammar Spec.ChunkedSpec Spec.Framing Spec.ConnSpec Spec.ConnKnown Proofs.ServerConn.

(* one request, delivered in segments of its own, followed by whatever comes later: exactly one
   set of responses computed from that head and body, and the server's position afterwards is
   exactly the first byte after the body - for every handler behaviour and every segmentation *)
Theorem C07_one_request : forall a N ka reqsegs later r raw,
  Forall (fun g => g <> []) reqsegs ->            (* a TCP read never returns an empty segment *)
  parse_request (firstn N (concat reqsegs)) = Ok r ->
  raw = raw_fields (firstn N (concat reqsegs)) ->
  Forall (fun g => g <> []) later ->
  (* the request is well-framed and its segments contain exactly head and body *)
  (exists payload, rfc_framing raw <> FReject /\
     view_body (rfc_framing raw) (skipn (q_offset r) (concat reqsegs)) = BodyOk payload []) ->
  let o := handle_one_request a N ka (reqsegs ++ later) in
  let '(resps, keep, _) := spec_one a r raw (skipn (q_offset r) (concat reqsegs)) in
  o_resps o = resps /\ (o_ok o = true -> o_keep o = (keep && ka && negb (existsb rs_close resps))) /\
  (o_ok o = true -> o_keep o = true -> o_rest o = later).
Proof. exact one_request_boundary_nonempty. Qed.
Print Assumptions C07_one_request.

(* the whole connection: every lock-step history gives exactly the sequential transcript *)
Theorem C07_transcript : forall a N segs,
  0 < N ->                                         (* a head limit of zero bytes answers 431 before reading anything *)
  lockstep a N segs = true ->
  snd (spec_conn a N (concat segs)) <> EUnspec ->
  c_resps (serve_conn a N segs) = fst (spec_conn a N (concat segs)) /\
  (c_waiting (serve_conn a N segs) = true <-> snd (spec_conn a N (concat segs)) = EWaiting).
Proof. exact conn_transcript_pos. Qed.
Print Assumptions C07_transcript.

(* ---- the recorded finding F20c and the repaired F21, as witnesses on the faithful model (see known_findings.json) ---- *)
Definition hold_app : app :=
  {| behaviour_of := fun _ => BHold; hook_of := fun _ => HProceed; describe := fun _ b => b |}.
Definition none_app : app :=
  {| behaviour_of := fun _ => BNone 200; hook_of := fun _ => HProceed; describe := fun _ b => b |}.
Definition crlf2 : bytes := [x0d; x0a; x0d; x0a].
Definition get_req : bytes := bs "GET /next HTTP/1.1" ++ crlf2.

(* F20c: the rest of a chunked body and the next request arrive in one segment after the handler
   has already answered: the model (like the code) loses the next request *)
Definition f20c_segs : list bytes :=
  [ bs "POST /hold HTTP/1.1" ++ [x0d; x0a] ++ bs "Transfer-Encoding: chunked" ++ crlf2;
    bs "5" ++ [x0d; x0a] ++ bs "hello" ++ [x0d; x0a] ++ bs "0" ++ crlf2 ++ get_req ].
Example C07_refuted_F20c :
  known_F20c hold_app 4096 f20c_segs = true /\ lockstep hold_app 4096 f20c_segs = false /\
  length (c_resps (serve_conn hold_app 4096 f20c_segs)) = 1 /\
  length (fst (spec_conn hold_app 4096 (concat f20c_segs))) = 2.
Proof. vm_compute. repeat split. Qed.
(* the same history with a fixed-length body is handled correctly (Read::take keeps the read-ahead inside the body) *)
Definition fixed_segs : list bytes :=
  [ bs "POST /hold HTTP/1.1" ++ [x0d; x0a] ++ bs "Content-Length: 5" ++ crlf2; bs "hello" ++ get_req ].
Example C07_fixed_straddle_ok :
  c_resps (serve_conn hold_app 4096 fixed_segs) = fst (spec_conn hold_app 4096 (concat fixed_segs)) /\
  length (c_resps (serve_conn hold_app 4096 fixed_segs)) = 2.
Proof. vm_compute. split; reflexivity. Qed.

(* F21 (repaired): a malformed body that the handler ignores.  The spec closes after the one response; so does the
   model (like the repaired code): the discard of the body fails, the connection is closed, the second request is
   neither parsed nor answered.  The history satisfies the hypotheses of C07_transcript. *)
Definition f21_segs : list bytes :=
  [ bs "POST /x HTTP/1.1" ++ [x0d; x0a] ++ bs "Transfer-Encoding: chunked" ++ crlf2 ++ bs "zz" ++ [x0d; x0a] ++ bs "hello" ++ [x0d; x0a] ++ bs "0" ++ crlf2;
    get_req ].
Example C07_F21_repaired :
  lockstep none_app 4096 f21_segs = true /\
  c_resps (serve_conn none_app 4096 f21_segs) = fst (spec_conn none_app 4096 (concat f21_segs)) /\
  snd (spec_conn none_app 4096 (concat f21_segs)) = EClosed /\
  length (c_resps (serve_conn none_app 4096 f21_segs)) = 1 /\
  c_requests (serve_conn none_app 4096 f21_segs) = 1 /\ c_ok (serve_conn none_app 4096 f21_segs) = true /\
  c_waiting (serve_conn none_app 4096 f21_segs) = false.
Proof. vm_compute. repeat split. Qed.
(* the same for a fixed-length body that is cut short, the pre-routing hook answering in place of the handler *)
Definition hook_app : app :=
  {| behaviour_of := fun _ => BNone 200; hook_of := fun _ => HAnswer; describe := fun _ b => b |}.
Definition f21_short_segs : list bytes :=
  [ bs "POST /x HTTP/1.1" ++ [x0d; x0a] ++ bs "Content-Length: 10" ++ crlf2 ++ bs "hello" ].
Example C07_F21_repaired_short :
  lockstep hook_app 4096 f21_short_segs = true /\
  c_resps (serve_conn hook_app 4096 f21_short_segs) = fst (spec_conn hook_app 4096 (concat f21_short_segs)) /\
  snd (spec_conn hook_app 4096 (concat f21_short_segs)) = EClosed /\
  length (c_resps (serve_conn hook_app 4096 f21_short_segs)) = 1 /\
  c_waiting (serve_conn hook_app 4096 f21_short_segs) = false.
Proof. vm_compute. repeat split. Qed.

(* non-vacuity of the theorem's hypotheses: a lock-step history of three requests *)
Definition ok_segs : list bytes :=
  [ bs "POST /a HTTP/1.1" ++ [x0d; x0a] ++ bs "Content-Length: 5" ++ crlf2 ++ bs "he"; bs "llo";
    bs "POST /b HTTP/1.1" ++ [x0d; x0a] ++ bs "Transfer-Encoding: chunked" ++ crlf2; bs "5" ++ [x0d; x0a] ++ bs "hel"; bs "lo" ++ [x0d; x0a] ++ bs "0" ++ crlf2;
    get_req ].
Example C07_ex_lockstep :
  lockstep none_app 4096 ok_segs = true /\
  length (c_resps (serve_conn none_app 4096 ok_segs)) = 3.
Proof. vm_compute. repeat split. Qed.
