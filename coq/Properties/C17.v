(* C17 — All three serve modes are observably equivalent.  Pinned statements. *)
From KV Require Import Lib.Bytes Model.Headers Model.Parser Model.Body Model.Server Model.Modes Proofs.Modes.

(* one connection: dispatching one request per readiness event with a fresh response handle yields
   the same responses, the same closing point, the same hook calls as the blocking request loop *)
Theorem C17_connection_equiv : forall a N sg,
  epoll_connection a N sg = blocking_connection a N sg.
Proof. exact epoll_equals_blocking. Qed.
Print Assumptions C17_connection_equiv.

(* whole histories: serve, serve_threaded and serve_epoll produce the same per-connection results *)
Theorem C17_equiv : forall a N cs,
  serve_mode MPool a N cs = serve_mode MThreaded a N cs /\ serve_mode MThreaded a N cs = serve_mode MEpoll a N cs.
Proof. exact modes_equal. Qed.
Print Assumptions C17_equiv.
