(* C13 — Worker pool runs every job exactly once, in parallel, and drains on shutdown.  Pinned statements.
   [step]/[run] (Model/Pool.v) is the labelled transition system of the pool: main thread, n workers,
   FIFO channel, receiver mutex.  The theorems quantify over ALL traces, i.e. all interleavings. *)
From KV Require Import Lib.Bytes Model.Pool Proofs.Pool.

Definition sends (tr : list label) : nat := length (filter (fun l => match l with LSend => true | _ => false end) tr).

(* exactly once: no job is ever started twice, and only submitted jobs are started *)
Theorem C13_at_most_once : forall n tr s, run (pool_init n) tr = Some s ->
  NoDup (p_starts s) /\ (forall j, In j (p_starts s) -> j < p_sent s) /\
  NoDup (p_done s) /\ (forall j, In j (p_done s) -> In j (p_starts s)).
Proof. exact at_most_once. Qed.
Print Assumptions C13_at_most_once.

(* shutdown returns only after every submitted job has finished (a pool has at least one worker:
   ThreadPool::new asserts size > 0; with no worker the statement is false, see drained_false_at_0) *)
Theorem C13_drained : forall n tr s, 0 < n -> run (pool_init n) tr = Some s -> p_main s = MReturned ->
  forall j, j < p_sent s -> In j (p_done s).
Proof. exact drained_partial. Qed.
Print Assumptions C13_drained.

(* the receiver lock is held only inside recv: a worker that holds a job or runs one never holds it *)
Theorem C13_lock_scope : forall n tr s w, run (pool_init n) tr = Some s -> p_lock s = Some w ->
  nth_error (p_workers s) w = Some WLocked.
Proof. exact lock_scope. Qed.
Print Assumptions C13_lock_scope.

(* no deadlock: while shutdown has not returned, some step is enabled (running jobs can finish) *)
Theorem C13_progress : forall n tr s, 0 < n -> run (pool_init n) tr = Some s -> p_main s <> MReturned ->
  exists l s', step s l = Some s'.
Proof. exact progress. Qed.
Print Assumptions C13_progress.

(* termination: a run that submits at most K jobs has at most 5K + 4n + 2 steps, so every maximal
   run is finite and (by progress) ends with shutdown returned *)
Theorem C13_bounded : forall n tr s K, run (pool_init n) tr = Some s -> sends tr <= K ->
  length tr <= 5 * K + 4 * n + 2.
Proof. exact bounded_runs. Qed.
Print Assumptions C13_bounded.

(* parallelism: if the only steps left are the ends of a set B of fewer than n jobs (jobs that block
   forever), then every other submitted job has already finished - a blocked job occupies only its
   own worker *)
Definition only_blocked_left (B : list nat) (s : pstate) : Prop :=
  forall l s', step s l = Some s' -> exists j, l = LJobEnd j /\ In j B.
Theorem C13_parallel : forall n tr s B, run (pool_init n) tr = Some s -> NoDup B -> length B < n ->
  only_blocked_left B s -> forall j, j < p_sent s -> In j B \/ In j (p_done s).
Proof. exact parallel. Qed.
Print Assumptions C13_parallel.

Example C13_ex_run :
  match run (pool_init 2) [LSend; LLock 1; LSend; LUnlock 1; LLock 0; LJobStart 0 1; LUnlock 0; LDropSender; LJobStart 1 0;
                           LJobEnd 1; LLock 0; LUnlock 0; LExit 0; LJobEnd 0; LLock 1; LUnlock 1; LExit 1; LJoined; LJoined; LReturned] with
  | Some s => match p_main s with MReturned => Nat.eqb (length (p_done s)) 2 | _ => false end
  | None => false
  end = true.
Proof. vm_compute. reflexivity. Qed.
Example C13_ex_lock_held_rejected : run (pool_init 2) [LSend; LLock 0; LJobStart 0 0] = None.
Proof. vm_compute. reflexivity. Qed.
