(* C19 — Header collection answers always agree with its contents.  Pinned statements only. *)
From KV Require Import Lib.Bytes Model.Headers Model.Parser Spec.HeaderStore Proofs.Headers Proofs.HeadersParsed.

(* after ANY sequence of add / replace / remove / set_* operations: what is stored is what the
   history says, and every cached answer equals a fresh evaluation of the stored fields *)
Theorem C19_inv : forall ops,
  let h := hrun ops in
  stored h = spec_stored ops /\
  chunked h = eval_chunked (stored h) /\
  connection_close h = eval_close (stored h) /\
  content_length h = spec_cl ops.
Proof. exact headers_inv. Qed.
Print Assumptions C19_inv.

(* lookups are case-insensitive and return what was stored, in order (get = the last such field) *)
Theorem C19_get_all : forall h name, get_all h name = lookup_all (stored h) name.
Proof. exact get_all_spec. Qed.
Theorem C19_get : forall h name, get h name = lookup_last (stored h) name.
Proof. exact get_spec. Qed.
Print Assumptions C19_get.

(* the value grammar of the content length: OWS 1*DIGIT OWS below 2^64, anything else is "none" *)
Theorem C19_content_length_value : forall v, parse_content_length v = cl_value v.
Proof. exact parse_content_length_spec. Qed.

Example C19_ex_history :
  let ops := [OAdd (bs "Transfer-Encoding") (bs "gzip ,  CHUNKED	"); OAdd (bs "connection") (bs "keep-alive");
              OAdd (bs "Content-Length") (bs " 42 "); ORemove (bs "TRANSFER-ENCODING");
              OAdd (bs "Connection") (bs "x,	Close "); OReplace (bs "content-length") (bs "+5")] in
  chunked (hrun ops) = false /\ connection_close (hrun ops) = true /\ content_length (hrun ops) = None /\
  length (stored (hrun ops)) = 2%nat.
Proof. vm_compute. repeat split. Qed.
Example C19_ex_padded : chunked (hrun [OAdd (bs "transfer-encoding") (bs "chunked ")]) = true.
Proof. vm_compute. reflexivity. Qed.
Example C19_ex_overflow : content_length (hrun [OAdd (bs "content-length") (bs "18446744073709551616")]) = None
  /\ content_length (hrun [OAdd (bs "content-length") (bs "18446744073709551615")]) = Some 18446744073709551615%N.
Proof. vm_compute. split; reflexivity. Qed.

(* "and after parsing a head": the collection reported for an accepted request / response head is the result of an
   add-history (one add per field line, in order), so every cached answer agrees with the stored fields *)
Theorem C19_parsed_request : forall s r, parse_request s = Ok r ->
  exists fs, q_hdrs r = hrun (add_ops fs) /\ agrees (q_hdrs r) (add_ops fs).
Proof. exact parsed_request_headers_agree. Qed.
Theorem C19_parsed_response : forall s r, parse_response s = Ok r ->
  exists fs, r_hdrs r = hrun (add_ops fs) /\ agrees (r_hdrs r) (add_ops fs).
Proof. exact parsed_response_headers_agree. Qed.
Print Assumptions C19_parsed_request.
Print Assumptions C19_parsed_response.
