(* C05 — Request body length follows RFC 9112 section 6.3, or the request is rejected.  Pinned statements.
   [rfc_framing] (Spec/Framing.v) is the RFC's decision over the raw field lines of the head;
   [server_framing] is what the server does with the parsed head: 400 for a Transfer-Encoding that does
   not end in chunked, else the body reader chosen by BodyReader::from_request. *)
From KV Require Import Lib.Bytes Model.Headers Model.Parser Model.Body Model.Server
  Spec.HeaderStore Spec.HttpGrammar Spec.Framing Spec.ConnSpec Proofs.ServerFraming.

Definition server_framing (h : headers) : framing :=
  if te_present h && negb (te_final_chunked h) then FReject
  else if Headers.chunked h then FChunked
  else match content_length h with
       | Some n => if N.eqb n 0 then FEmpty else FFixed n
       | None => FEmpty
       end.

(* every accepted head is framed as the RFC says, for every combination of fields *)
Theorem C05_decision : forall s r, parse_request s = Ok r ->
  server_framing (q_hdrs r) = rfc_framing (raw_fields s).
Proof. exact framing_decision. Qed.
Print Assumptions C05_decision.

(* a head whose Content-Length fields are invalid or contradictory is not accepted at all (-> 400) *)
Theorem C05_bad_length_rejected : forall s sh n,
  strict_head s = Some (sh, n) ->
  cl_decision (values_of (bs "content-length") (sfield_pairs (s_fields sh))) = FReject ->
  exists e, parse_request s = Err e.
Proof. exact bad_length_rejected. Qed.
Print Assumptions C05_bad_length_rejected.

(* what the decision means operationally *)
Theorem C05_reader : forall lo sg h, server_framing h <> FReject ->
  from_request lo sg h =
  match server_framing h with
  | FChunked => new_chunked lo sg
  | FFixed n => new_fixed lo sg n
  | _ => new_empty lo sg
  end.
Proof. exact reader_of_framing. Qed.
Theorem C05_reject_answer : forall a N ka segs buf r rest,
  read_request (S (length segs) + length (concat segs)) N [] segs = (RParsed buf r, rest) ->
  server_framing (q_hdrs r) = FReject ->
  let o := handle_one_request a N ka segs in o_resps o = [close_resp 400] /\ o_keep o = false.
Proof. exact reject_answer. Qed.

Example C05_ex_te_overrides :
  rfc_framing [(bs "Content-Length", bs "3"); (bs "transfer-encoding", bs "gzip,	CHUNKED ")] = FChunked.
Proof. vm_compute. reflexivity. Qed.
Example C05_ex_not_final : rfc_framing [(bs "Transfer-Encoding", bs "chunked, gzip")] = FReject.
Proof. vm_compute. reflexivity. Qed.
Example C05_ex_conflict : rfc_framing [(bs "content-length", bs "5"); (bs "Content-Length", bs "6")] = FReject.
Proof. vm_compute. reflexivity. Qed.
Example C05_ex_equal : rfc_framing [(bs "content-length", bs "5"); (bs "Content-Length", bs " 5 ")] = FFixed 5.
Proof. vm_compute. reflexivity. Qed.
